"""C08 half = IEEE 754 binary16: exhaustive enumeration of conversions, + - * /, fma (alphabet), sqrt, comparisons,
classification, sign operations and hash of the real implementation, judged by the exact integer reference
refs/C08_half_ref.hpp; the software conversion path and the F16C path are built separately and compared bit for bit
(also on a cast family of finite double / long double / integer sources whose value is not judged); long double sources (the generic
float2half path) are judged against exact nearest-even rounding on a neighbourhood alphabet in ulps of the 64-bit significand; the dynamic
floating-point environment (rounding direction, MXCSR.DAZ / MXCSR.FTZ) is a dimension of the enumeration."""
import os
import shutil
import tempfile
import threading

import vlib

LEVEL = "exploration"
HERE = os.path.dirname(os.path.abspath(__file__))
SRC = os.path.join(HERE, "harness.cpp")
SCRATCH = "/tmp/bld"

FENV_MODES = ("FE_UPWARD", "FE_DOWNWARD", "FE_TOWARDZERO")
# MXCSR denormal flavours ("denormals are zero" / "flush to zero"): prior process state like the rounding direction; they run in
# the default builds (no compiler flag is involved: the bits only change what SSE instructions do at run time)
MXCSR_MODES = ("DAZ", "FTZ", "DAZ+FTZ")
# streams whose operand is a 64-bit pattern (double bits / two's complement integer) instead of half bit patterns
A64_STREAMS = ("double2half_cast", "double2half_cast_rn", "double2half_ctor", "double2half_assign", "longdouble2half_cast",
               "int2half_cast", "int2half_ctor", "longlong2half_cast")
# streams of the long double source-type family: the operand is a sign/exponent word plus a 64-bit significand (x87 80-bit format)
LD_STREAMS = ("ld2half_cast", "ld2half_cast_rn", "ld2half_literal", "ld2half_ctor", "ld2half_assign", "ld2half_mul1")
CLASSIFY_FNS = ("isfinite", "isinf", "isnan", "isnormal", "signbit", "fpclassify")


def build(which):
    if which == "sw":
        return vlib.compile_cxx(SRC, "c08-sw", std="c++14", opt="-O2", san="none", flags=["-mno-f16c"],
                                defines=["HALF_ENABLE_F16C_INTRINSICS=0", "C08_EXPECT_F16C=0"])
    if which == "f16c":
        return vlib.compile_cxx(SRC, "c08-f16c", std="c++14", opt="-O2", san="none", flags=["-mf16c"], defines=["C08_EXPECT_F16C=1"])
    if which == "sw-rm":
        # same as sw, compiled with -frounding-math: the shards that run under a directed dynamic rounding mode
        return vlib.compile_cxx(SRC, "c08-sw-rm", std="c++14", opt="-O2", san="none", flags=["-mno-f16c", "-frounding-math"],
                                defines=["HALF_ENABLE_F16C_INTRINSICS=0", "C08_EXPECT_F16C=0", "C08_ROUNDING_MATH=1"])
    if which == "f16c-rm":
        return vlib.compile_cxx(SRC, "c08-f16c-rm", std="c++14", opt="-O2", san="none", flags=["-mf16c", "-frounding-math"],
                                defines=["C08_EXPECT_F16C=1", "C08_ROUNDING_MATH=1"])
    if which == "san":
        # ASan in recover mode (flag read after every operation) + trapping bounds/null checks: a table index out of range
        # becomes SIGILL, which the harness attributes to the current operands
        return vlib.compile_cxx(SRC, "c08-san", std="c++14", opt="-O1", san="asan-only",
                                flags=["-mno-f16c", "-fsanitize=bounds,null,unreachable,return", "-fsanitize-undefined-trap-on-error"],
                                defines=["HALF_ENABLE_F16C_INTRINSICS=0", "C08_EXPECT_F16C=0"])
    raise ValueError(which)


def plan(tier):
    """list of (job id, args, builds), most important first (jobs that would start after the deadline are skipped and capped).
    The job id is the key under which software and F16C digests are compared."""
    jobs = []
    both = ("sw", "f16c")
    rm = ("sw-rm", "f16c-rm")
    thorough = tier == "thorough"
    # 1. cheap and essential: all 2^16-functions, reference self-test, information-only conversions, sanitizer sub-alphabet
    jobs += [("unary", ["--mode", "unary"], both), ("nanfam", ["--mode", "nanfam"], both), ("selftest", ["--mode", "selftest"], both), ("info", ["--mode", "info"], ("sw",))]
    n = 8
    jobs += [("mixed-%d" % k, ["--mode", "mixed", "--shard", str(k), str(n)], both) for k in range(n)]
    jobs += [("san-nanfam", ["--mode", "nanfam"], ("san",)), ("san-mixed", ["--mode", "mixed", "--set", "s"], ("san",)),
             ("san-unary", ["--mode", "unary", "--set", "s"], ("san",)),
             ("san-pairs", ["--mode", "pairs", "--set", "s"], ("san",)),
             ("san-fma", ["--mode", "fma", "--alpha", "s"], ("san",)),
             ("san-fmad", ["--mode", "fmad", "--alpha", "s"], ("san",))]
    jobs += [("unary@%s" % m, ["--fenv", m, "--mode", "unary"], rm) for m in FENV_MODES]
    jobs += [("nanfam@%s" % m, ["--fenv", m, "--mode", "nanfam"], rm) for m in FENV_MODES]
    # 1b. cast family: finite double / long double / integer sources around every binary16 value and rounding midpoint (value not
    #     judged, software vs F16C only), the float boundary alphabet with the third float entry point; in every environment
    cs = "t" if thorough else "q"
    n = 16 if thorough else 4
    jobs += [("casts-%d" % k, ["--mode", "casts", "--set", cs, "--shard", str(k), str(n)], both) for k in range(n)]
    # 1b'. source-type family: long double sources (generic float2half path) around every binary16 value and rounding midpoint in ulps
    #      of the 64-bit significand, JUDGED against exact nearest-even rounding of the long double's own bit pattern; every environment
    n = 16 if thorough else 4
    jobs += [("srcty-%d" % k, ["--mode", "srcty", "--set", cs, "--shard", str(k), str(n)], both) for k in range(n)]
    jobs += [("san-srcty", ["--mode", "srcty", "--set", "s"], ("san",))]
    jobs += [("srcty-s@%s" % m, ["--fenv", m, "--mode", "srcty", "--set", "s"], rm) for m in FENV_MODES]
    jobs += [("srcty-s@%s" % m, ["--fenv", m, "--mode", "srcty", "--set", "s"], both) for m in MXCSR_MODES]
    jobs += [("f2hb", ["--mode", "f2hb"], both), ("san-casts", ["--mode", "casts", "--set", "s"], ("san",)), ("san-f2hb", ["--mode", "f2hb"], ("san",))]
    n = 4
    for m in FENV_MODES:
        jobs += [("casts-%d@%s" % (k, m), ["--fenv", m, "--mode", "casts", "--set", "q", "--shard", str(k), str(n)], rm) for k in range(n)]
        jobs += [("f2hb@%s" % m, ["--fenv", m, "--mode", "f2hb"], rm)]
    # 1c. MXCSR.DAZ / MXCSR.FTZ flavours (default builds): every 2^16-function, the NaN/infinity family, the cast family, the float
    #     boundary alphabet, mixed operands on A4096 under each flavour; pairs on A4096^2, fma on F196^3 and the derived family on
    #     A512^2 under DAZ+FTZ (thorough: the quick pair / fma sets under each flavour and the complete float sweep under DAZ+FTZ)
    for m in MXCSR_MODES:
        fe = ["--fenv", m]
        jobs += [("unary@%s" % m, fe + ["--mode", "unary"], both), ("nanfam@%s" % m, fe + ["--mode", "nanfam"], both), ("f2hb@%s" % m, fe + ["--mode", "f2hb"], both)]
        jobs += [("casts-%d@%s" % (k, m), fe + ["--mode", "casts", "--set", "q", "--shard", str(k), str(n)], both) for k in range(n)]
        if thorough:
            jobs += [("mixed-%d@%s" % (k, m), fe + ["--mode", "mixed", "--shard", str(k), "8"], both) for k in range(8)]
        else:
            jobs += [("mixed-m@%s" % m, fe + ["--mode", "mixed", "--set", "m"], both)]
    fe = ["--fenv", "DAZ+FTZ"]
    if not thorough:
        jobs += [("pairs-m-%d@DAZ+FTZ" % k, fe + ["--mode", "pairs", "--set", "m", "--shard", str(k), "2"], both) for k in range(2)]
        jobs += [("fma-m@DAZ+FTZ", fe + ["--mode", "fma", "--alpha", "m"], both), ("fmad-s@DAZ+FTZ", fe + ["--mode", "fmad", "--alpha", "s"], both)]
    # 2. default rounding mode: pairs, fma, the float sweep
    if thorough:
        n = 128
        jobs += [("pairs-f-%d" % k, ["--mode", "pairs", "--set", "f", "--shard", str(k), str(n)], both) for k in range(n)]
        jobs += [("fmad-t-%d" % k, ["--mode", "fmad", "--alpha", "t", "--shard", str(k), str(n)], both) for k in range(n)]
        n = 32
        jobs += [("fma-t-%d" % k, ["--mode", "fma", "--alpha", "t", "--shard", str(k), str(n)], both) for k in range(n)]
    else:
        n = 16
        jobs += [("pairs-q-%d" % k, ["--mode", "pairs", "--set", "q", "--shard", str(k), str(n)], both) for k in range(n)]
        jobs += [("fma-q-%d" % k, ["--mode", "fma", "--alpha", "q", "--shard", str(k), str(n)], both) for k in range(n)]
        n = 4
        jobs += [("fmad-q-%d" % k, ["--mode", "fmad", "--alpha", "q", "--shard", str(k), str(n)], both) for k in range(n)]
    n = 64
    jobs += [("f2h-%d" % k, ["--mode", "f2h", "--shard", str(k), str(n)], both) for k in range(n)]
    # 3. dynamic rounding mode owned by the harness: the quick pair / fma alphabets and the complete float sweep again under each
    #    directed mode, in both paths (builds with -frounding-math); expected bits unchanged
    for m in FENV_MODES:
        fe = ["--fenv", m]
        n = 8
        jobs += [("pairs-q-%d@%s" % (k, m), fe + ["--mode", "pairs", "--set", "q", "--shard", str(k), str(n)], rm) for k in range(n)]
        jobs += [("fma-q-%d@%s" % (k, m), fe + ["--mode", "fma", "--alpha", "q", "--shard", str(k), str(n)], rm) for k in range(n)]
        jobs += [("fmad-q-0@%s" % m, fe + ["--mode", "fmad", "--alpha", "q"], rm)]
    for m in FENV_MODES:
        n = 32
        jobs += [("f2h-%d@%s" % (k, m), ["--fenv", m, "--mode", "f2h", "--shard", str(k), str(n)], rm) for k in range(n)]
    if thorough:
        for m in MXCSR_MODES:
            fe = ["--fenv", m]
            n = 8
            jobs += [("pairs-q-%d@%s" % (k, m), fe + ["--mode", "pairs", "--set", "q", "--shard", str(k), str(n)], both) for k in range(n)]
            jobs += [("fma-q-%d@%s" % (k, m), fe + ["--mode", "fma", "--alpha", "q", "--shard", str(k), str(n)], both) for k in range(n)]
            jobs += [("fmad-q-0@%s" % m, fe + ["--mode", "fmad", "--alpha", "q"], both)]
        n = 32
        jobs += [("f2h-%d@DAZ+FTZ" % k, ["--fenv", "DAZ+FTZ", "--mode", "f2h", "--shard", str(k), str(n)], both) for k in range(n)]
    return jobs


def _run_job(ctx, binary, tag, args, timeout=None):
    """Run one harness process into a private Ctx (ctx.run_harness is not thread safe for counters); merged later, in job order."""
    sub = vlib.Ctx(ctx.pid, ctx.tier, ctx.level, ctx.seed)
    recs = sub.run_harness(binary, args, tag=tag, timeout=timeout if timeout else max(60, ctx.time_left() + 60))
    return sub, recs


def _merge(ctx, sub):
    for k, v in sub.stats.items():
        ctx.stat(k, v)
    for k, v in sub.maxes.items():
        ctx.smax(k, v)
    for v in sub.notes:
        ctx.note(v)
    for c in sub.caps:
        ctx.cap(c)
    ctx.viols.extend(sub.viols)


def fclass(u):
    a = u & 0x7FFFFFFF
    if a > 0x7F800000:
        return "nan"
    if a == 0x7F800000:
        return "inf"
    if a == 0:
        return "zero"
    if a < 0x00800000:
        return "float-subnormal"
    return "finite"


def hclass(h):
    a = h & 0x7FFF
    if a > 0x7C00:
        return "nan"
    if a == 0x7C00:
        return "inf"
    if a == 0:
        return "zero"
    return "subnormal" if a < 0x400 else "normal"


def _first_diff(f1, f2, width):
    idx = 0
    with open(f1, "rb") as a, open(f2, "rb") as b:
        while True:
            x = a.read(1 << 20)
            y = b.read(1 << 20)
            if not x and not y:
                return None
            if x != y:
                m = min(len(x), len(y))
                for i in range(0, m, width):
                    if x[i:i + width] != y[i:i + width]:
                        return idx + i // width, x[i:i + width][::-1].hex(), y[i:i + width][::-1].hex()
                return idx + m // width, "(end)", "(end)"
            idx += len(x) // width


def _mode_of(args):
    return args[args.index("--fenv") + 1] if "--fenv" in args else None


def _pair_of_mode(mode):
    """(software build name, F16C build name) for an environment: the -frounding-math builds under a directed rounding mode,
    the default builds otherwise (default environment and the MXCSR flavours)"""
    return ("sw-rm", "f16c-rm") if mode in FENV_MODES else ("sw", "f16c")


def _pair_for(args):
    """(software build name, F16C build name) that run a job with these arguments"""
    return _pair_of_mode(_mode_of(args))


def _env_text(mode):
    if not mode:
        return ""
    return " with MXCSR %s set" % mode if mode in MXCSR_MODES else " under fesetround(%s)" % mode


def dclass(b):
    """class of a double bit pattern, for signatures"""
    a = b & 0x7FFFFFFFFFFFFFFF
    if a > 0x7FF0000000000000:
        return "nan"
    if a == 0x7FF0000000000000:
        return "inf"
    if a == 0:
        return "zero"
    if a < 0x0010000000000000:
        return "double-subnormal"
    e = (a >> 52) - 1023
    if e >= 16:
        return "finite:above-half-range"
    if e < -25:
        return "finite:below-half-range"
    # bits below the last place a half keeps (10 mantissa bits for normal results, fewer for subnormal ones)
    drop = 42 if e >= -14 else min(53, 42 + (-14 - e))
    m = (a & 0xFFFFFFFFFFFFF) | (1 << 52)
    rem = m & ((1 << drop) - 1)
    half = 1 << (drop - 1)
    where = "exact" if rem == 0 else "tie" if rem == half else "above-half" if rem > half else "below-half"
    return "finite:%s:%s%s" % ("normal" if e >= -14 else "subnormal", where, "" if (b & 0x1FFFFFFF) == 0 else ":not-a-float")


def locate_path_difference(ctx, bins, args, stream, sub):
    """A digest differs between the two paths: re-enumerate that shard in both builds, dump the stream, name the first differing input."""
    mode = _mode_of(args)
    sfx = "[%s]" % mode if mode else ""
    bsw, bhw = _pair_for(args)
    width = 8 if stream in ("half2double", "half2double_cast", "hash", "half2longlong_cast", "half2longdouble_cast") else 4 if stream in ("half2float", "half2float_cast", "half2int_cast") else 2
    d = tempfile.mkdtemp(prefix="C08_dump_", dir=SCRATCH if os.path.isdir(SCRATCH) else None)
    try:
        files = {}
        for b in (bsw, bhw):
            files[b] = os.path.join(d, b + ".bin")
            _run_job(ctx, bins[b], "c08-" + b, args + ["--dump", stream, str(sub), files[b]])
        fd = _first_diff(files[bsw], files[bhw], width)
        if fd is None:
            raise vlib.HarnessError("digest of stream %s/%s differs between sw and f16c but the dumps are equal" % (stream, sub))
        idx, vsw, vhw = fd
        _, recs = _run_job(ctx, bins[bsw], "c08-" + bsw, args + ["--nth", stream, str(sub), str(idx)])
        nth = [r for r in recs if r.get("t") == "nth"]
        if not nth:
            raise vlib.HarnessError("could not map index %d of stream %s back to its operands" % (idx, stream))
        n = max(1, int(nth[0]["n"]))
        ops = [nth[0]["a"], nth[0]["b"], nth[0]["c"]][:n]
        if stream in LD_STREAMS:
            ops = ["0x%04x" % (int(nth[0]["a"], 16) & 0xFFFF), nth[0]["a64"]]
            cls = "long-double"
        elif stream in A64_STREAMS:
            ops = [nth[0]["a64"]]
            cls = dclass(int(ops[0], 16)) if "double" in stream else "integer"
        elif stream.startswith("float2half"):
            cls = fclass(int(ops[0], 16))
        else:
            cls = ",".join(hclass(int(o, 16)) for o in ops)
        fn = "fma" if stream == "fma_derived" else stream
        if stream == "mixed":
            # one digest stream for the whole mixed-operand family: the function is the one that was executing
            fn = stream = nth[0]["fn"]
        sig = "C08/path/%s%s/%s/sw-differs-from-f16c" % (stream, sfx, cls)
        msg = ("%s(%s)%s: the software build returns %s, the F16C build returns %s (canonical bits; NaN results are compared as NaN); "
               "results must be bit-identical whether or not the F16C path is compiled in" % (fn, ", ".join(ops), _env_text(mode), vsw, vhw))
        ctx.violation(sig, msg, harness="c08-path" + ("@" + mode if mode else ""), args=["--pathone", stream] + ops)
    finally:
        shutil.rmtree(d, ignore_errors=True)


def _res_of(recs, stream):
    if stream == "classify":
        want = CLASSIFY_FNS
    elif stream == "fma_derived":
        want = ("fma",)
    else:
        want = (stream,)
    return [(r["fn"], r["v"]) for r in recs if r.get("t") == "res" and r.get("fn") in want]


def run(ctx):
    names = ("sw", "f16c", "san", "sw-rm", "f16c-rm")
    built = vlib.parallel([(lambda w=w: build(w)) for w in names], workers=5)
    bins = dict(zip(names, built))
    jobs = plan(ctx.tier)
    reserve = 45 if ctx.tier == "quick" else 120
    skipped = []
    lock = threading.Lock()

    def mk(jid, args, b):
        def f():
            if ctx.time_left() < reserve:
                with lock:
                    skipped.append("%s[%s]" % (jid, b))
                return None
            return _run_job(ctx, bins[b], "c08-" + b, args)
        return f

    flat = [(jid, args, b) for (jid, args, bs) in jobs for b in bs]
    workers = int(os.environ.get("VERIF_JOBS", vlib.NCPU))
    results = vlib.parallel([mk(*j) for j in flat], workers=workers)

    digests = {"sw": {}, "f16c": {}}
    samples = {}
    referr = []
    crashed = False
    for (jid, args, b), res in zip(flat, results):
        if res is None:
            continue
        sub, recs = res
        _merge(ctx, sub)
        for r in recs:
            t = r.get("t")
            if t == "dig" and b.split("-")[0] in digests:
                digests[b.split("-")[0]][(jid, r["k"])] = (r["v"], r["raw"], r["n"], args)
            elif t == "xs" and b == "sw":
                samples.setdefault(r["k"].split("/")[0], []).append(r["v"])
            elif t == "referr":
                referr.append("%s[%s]: %s" % (jid, b, r["v"]))
            elif t == "crashed":
                crashed = True
    if referr:
        raise vlib.HarnessError("the exact reference disagrees with its second opinion (harness defect, not a finding): " + "; ".join(referr[:5]))
    if skipped:
        ctx.cap("deadline: %d of %d harness jobs were not run (%s%s)" % (len(skipped), len(flat), ", ".join(sorted(skipped)[:6]), " ..." if len(skipped) > 6 else ""))

    # ---- software path vs F16C path, stream by stream
    compared = 0
    raw_only = set()
    differing = {}   # stream -> list of (job id, sub, args) in job order
    for key in sorted(digests["sw"], key=lambda k: (k[1].split("/")[0], k[0], k[1])):
        if key not in digests["f16c"]:
            continue
        vs, rs, ns, args = digests["sw"][key]
        vh, rh, nh, _ = digests["f16c"][key]
        compared += int(ns)
        stream, sub = key[1].split("/")
        if vs != vh or ns != nh:
            differing.setdefault((stream, _mode_of(args) or ""), []).append((key[0], int(sub), list(args)))
        elif rs != rh:
            raw_only.add(stream)
    located = 0
    for dk in sorted(differing):
        stream = dk[0]
        jid, sub, args = differing[dk][0]
        if len(differing[dk]) > 1:
            ctx.note("path comparison: %d digests of stream %s%s differ between the software and the F16C build; the first one (job %s, chunk %d) is re-enumerated" % (
                len(differing[dk]), stream, " under " + dk[1] if dk[1] else "", jid, sub))
        if located < 6 and ctx.time_left() > 30:
            locate_path_difference(ctx, bins, args, stream, sub)
            located += 1
        else:
            m = _mode_of(args)
            ctx.violation("C08/path/%s%s/unlocated/sw-differs-from-f16c" % (stream, "[%s]" % m if m else ""), "digest of %s/%d (job %s) differs between the software and the F16C build" % (stream, sub, jid),
                          harness="c08-path" + ("@" + m if m else ""), args=["--pathjob", stream, str(sub)] + args)
    missing = [k for k in digests["sw"] if k not in digests["f16c"]] + [k for k in digests["f16c"] if k not in digests["sw"]]
    if missing and not skipped and not crashed:
        raise vlib.HarnessError("digest streams present in only one build: %s" % missing[:4])
    ctx.stat("results_compared_sw_vs_f16c", compared)
    if raw_only:
        ctx.note("information only: streams whose NaN results differ in payload/quiet bit between the software and the F16C build (value-identical, compared as NaN): " + ", ".join(sorted(raw_only)))

    # ---- evidence
    ctx.stats["evaluations"] = sum(v for k, v in ctx.stats.items() if k.startswith("evaluations_"))
    ctx.stats["distinct_nontrivial"] = ctx.stats.get("nontrivial_sw", 0)   # default mode, software build: every case once
    ctx.stats["evaluations_under_directed_rounding_modes"] = sum(v for k, v in ctx.stats.items() if k.startswith("evaluations_") and "[FE_" in k)
    ctx.stats["evaluations_under_mxcsr_daz_ftz"] = sum(v for k, v in ctx.stats.items() if k.startswith("evaluations_") and ("[DAZ" in k or "[FTZ" in k))
    ctx.stats["results_judged_by_path_equality_only"] = sum(v for k, v in ctx.stats.items() if k.startswith("results_judged_by_path_equality_only_"))
    for b in ("sw", "f16c"):
        n = ctx.stats.get("info_double2half_cast_finite_sources_" + b)
        if n:
            ctx.note("information only (not judged): [%s] finite double sources of the cast family: half_cast<half>(double) differs from the single correctly rounded value on %d of %d, "
                     "half_cast<half,round_to_nearest>(double) on %d, half(double) on %d and operator=(double) on %d (documented: through float, double rounding), half_cast<half>(long double) on %d of %d" % (
                         b, ctx.stats.get("info_double2half_cast_differs_from_single_rounding_" + b, 0), n, ctx.stats.get("info_double2half_cast_rn_differs_from_single_rounding_" + b, 0),
                         ctx.stats.get("info_double2half_ctor_differs_from_single_rounding_" + b, 0), ctx.stats.get("info_double2half_assign_differs_from_single_rounding_" + b, 0),
                         ctx.stats.get("info_longdouble2half_cast_differs_from_single_rounding_" + b, 0), ctx.stats.get("info_longdouble2half_cast_finite_sources_" + b, 0)))
    order = ["float2half", "pair", "fma", "sqrt", "nanfam", "mixed", "casts", "srcty"]
    i = 0
    while len(ctx.samples) < 12 and any(samples.get(k) for k in order):
        k = order[i % len(order)]
        i += 1
        if samples.get(k):
            ctx.sample(samples[k].pop(0))
    thorough = ctx.tier == "thorough"
    ctx.rule = (
        "Every case is one call of the real implementation on stated operand bit patterns, in three builds of the same harness (software conversion path -mno-f16c/HALF_ENABLE_F16C_INTRINSICS=0; F16C path -mf16c; "
        "software path under ASan on a sub-alphabet), each result compared with the exact integer reference (one round-to-nearest-even of the exact real result; NaN results compared as NaN) and folded into per-stream digests that must be equal between the software and the F16C build. "
        "Enumerated: float->half (constructor and operator=) on ALL 2^32 float bit patterns; half->float, half->double (conversion operator and half_cast), sqrt, isfinite/isinf/isnan/isnormal/fpclassify/signbit, unary minus, fabs, hash on ALL 2^16 halves; "
        + ("+ - * /, == != < > <= >=, copysign and hash-of-equal-values on ALL 2^32 ordered pairs of halves; " if thorough else
           "+ - * /, == != < > <= >=, copysign and hash-of-equal-values on the pair set {(a,b): a in A512, b any} u {a in A4096, b in A4096} u {a any, b in A512} (A4096 = sign x every exponent field x 64 boundary mantissas, A512 = sign x every exponent x {0,1,2,0x1FF,0x200,0x201,0x3FE,0x3FF}; both contain +-0, subnormals, +-inf, quiet and signalling NaNs); ")
        + ("fma on all triples over the 1024-value alphabet (sign x every exponent x 16 mantissas) and, for every pair (x,y) with x or y in A4096, on the 6 tie-breaking z {+-0, +-2^-24, +-2^-14} and the up to 8 z within 2 ulp of -round(x*y) / 1 ulp of +round(x*y) (massive cancellation). " if thorough else
           "fma on all triples over A512 and, for every pair (x,y) in A4096^2 with x or y in A512, on the 6 tie-breaking z {+-0, +-2^-24, +-2^-14} and the up to 8 z within 2 ulp of -round(x*y) / 1 ulp of +round(x*y) (massive cancellation). ")
        + "Mixed operands (operator templates): for T in {float, double, long double, int, long, long long, unsigned, unsigned long, short, unsigned short, signed char, unsigned char, char, bool, half}, ALL 2^16 halves a x every t of T's alphabet "
        "(the values of a 49-value list - +-0, +-2^-24, +-largest subnormal, +-2^-14, +-0.5, +-1, +-(1+2^-10), +-2, +-3, +-0x3555, +-65504, +-inf, quiet/signalling NaN, +-{3,7,127,128,255,256,1024,2047,2048,32768,65504} - that T can hold exactly): "
        "a+t, t+a, a-t, t-a, a*t, t*a, a/t, t/a, a+=t, a-=t, a*=t, a/=t judged bit for bit (sign of zero included, NaN as NaN) against the reference operation on (a, half(t)), and the six comparisons in both operand orders against the float comparison of the converted values; software and F16C build. "
        "NaN/infinity boundary family (judged: NaN stays a NaN with its sign, infinity stays that infinity): for double->half (half_cast<half>(double), half_cast<half,round_to_nearest>(double), half(double), operator=(double)) and float->half (constructor, operator=, half_cast), "
        "both signs x exponent all ones x {0, every single mantissa bit, every pair of mantissa bits, low-word-only / high-word-only / mixed payloads with the quiet bit off and on, all-ones patterns}: 3244 doubles and 588 floats, in every build and under every rounding mode. "
        "Cast family (finite double / long double / integer sources; the VALUE is not judged - the statement promises correct rounding for float sources - but every result must be bit-identical in the software and the F16C build): "
        "anchors = every finite non-negative binary16 value, 2^16 and every rounding midpoint between neighbouring binary16 values (2^-25 = underflow threshold ... 65520 = overflow threshold), 63489 anchors built with integer arithmetic; "
        + ("around every anchor the doubles anchor +- k double-ulps for k = 0, 2^j-1, 2^j, 2^j+1 (j = 0..51) and 2^i+2^j (i < j < 44), both signs; " if thorough else
           "around every anchor the doubles anchor +- k double-ulps for k = 0, 2^j-1, 2^j, 2^j+1 (j = 0..43: every single discarded-bit position, the half's guard bit 41 and the float's guard bit 28 included), both signs - 32.6 million doubles that are not floats; ")
        + "plus sign x every finite double exponent field (0..2046) x 27 mantissa patterns; each through half_cast<half>(double), half_cast<half,round_to_nearest>(double), half(double) and operator=(double); half_cast<half>(long double) on every anchor +- {0, 1, 2^28, 2^32} ulps and the exponent sweep; "
        "half_cast<half>(int), half(int), half_cast<half>(long long) on every int in [-65600, 65600] and +-(2^k + {-1,0,1}), k = 17..62; half_cast<int>, half_cast<long long>, half_cast<long double> on ALL 2^16 halves (streams of the 2^16-functions). "
        "Source-type family (long double sources, JUDGED - the generic routine float2half_impl(T,...) is taken by every floating source type other than float and double; long doubles are built from bit patterns: sign, 15-bit exponent field, 64-bit significand): "
        "the same 63489 anchors as exact long doubles; around every anchor the long doubles anchor +- k ulps of the 64-bit significand, k = 0 and 2^j-1, 2^j, 2^j+1 for "
        + ("j = 0..61" if thorough else "j in {0..13, 30..33, 38..42, 50..53} (below and at the 53-bit boundary 2^10/2^11, the 32-bit word boundary, the 24-bit boundary 2^39/2^40, the binary16 guard bit 2^52)")
        + ", both signs; plus sign x EVERY long double exponent field 1..32766 x 10 boundary significands, the long double subnormals, infinities and 8 NaN encodings per sign. "
        "half_cast<half>(long double) on all of them, half_cast<half,round_to_nearest>(long double) and operator\"\"_h(long double) on the offsets {0, 1, 2^10, 2^11, 2^39, 2^40, 2^52} and the sweep: expected = ONE rounding to nearest-even of the exact value "
        "(the long double's bit pattern decoded to integer significand x 2^e, rounded by the integer reference; confirmed on every case by the order definition: |x| lies between the two rounding midpoints next to the expected half - exact long double comparisons against a table of the 31744 midpoints - and on a midpoint only if the expected half is even); "
        "half(long double) on all of them, operator=(long double) and long double * half(1) on the thin offsets: expected = the documented route through static_cast<float> (nearest-even to 24 bits, then to binary16; judged in the default environment and under the MXCSR flavours, "
        "under a directed dynamic rounding mode static_cast<float> follows the mode by the language rules and these three only take part in the sw-vs-F16C comparison); NaN -> NaN with the sign kept, infinity -> that infinity. "
        "Software, F16C and sanitizer build (the latter and the six non-default environments on the anchors of A512 and the exponent fields 16343..16413). "
        "Float boundary alphabet FB (sign x every float exponent field x {0, single bits, bit pairs, runs of ones, all ones minus one bit} = 173 568 floats): constructor, operator= and half_cast<half>(float), judged against the reference. "
        "MXCSR flavours (owned by the harness like the rounding direction; default builds): with DAZ, FTZ and DAZ+FTZ set once per shard through _mm_setcsr (verified to be in effect on float and double arithmetic, and verified to be unchanged at the end), "
        "every 2^16-function, the NaN/infinity family, the cast family, FB and the mixed-operand family on "
        + ("ALL halves, + - * / comparisons copysign on the quick pair set, fma on A512^3 and the quick derived family are repeated under each flavour, and the complete 2^32 float->half sweep under DAZ+FTZ; " if thorough else
           "A4096 are repeated under each flavour; + - * / comparisons copysign on A4096^2, fma on the 196-value alphabet cubed and the derived family on A512^2 under DAZ+FTZ; ")
        + "the expected bits are the default-environment bits (the reference is integer code; no float or double denormal occurs on the oracle side) and the sw/F16C digests must agree under each flavour. Measured on the unchanged tree before the flavours were made part of the check: no judged operation depends on DAZ or FTZ. "
        "Dynamic rounding mode (owned by the harness): the cast family and FB, the complete float->half sweep, all the 2^16-functions, and + - * / , comparisons, copysign on the quick pair set and fma on A512^3 and the quick derived family are repeated in both paths "
        "(builds with -frounding-math) after fesetround(FE_UPWARD), FE_DOWNWARD and FE_TOWARDZERO (set once per shard, verified to be in effect on float and double arithmetic, restored at the end); the expected bits are the same round-to-nearest-even bits and the sw/F16C digests must agree under each mode. "
        "evaluations = judged implementation results over all builds and environments (results_judged_by_path_equality_only of them - finite double, long double and integer sources, casts from half to integer types - are judged by the software-vs-F16C comparison alone). distinct_nontrivial = distinct (function, operand tuple) cases of the software build (each enumerated exactly once) whose exact real result is NOT a binary16 value and whose correctly rounded result is finite and non-zero, "
        "or is infinity although |exact| < 2^16 (default rounding mode only; the repetitions under the three directed modes are the same operand tuples and are not counted again) - i.e. the guard/sticky/tie logic decided the answer (float->half counted once per float, not per entry point; conversions from half, comparisons, classification and hash have no such notion and are not counted).")
    ctx.assumptions += [
        "the exact integer reference refs/C08_half_ref.hpp is trusted; it is cross-checked on every run against double arithmetic (exact for + - *, innocuous double rounding for / and sqrt, TwoSum + round-to-odd for fma), against an ldexp construction for conversions, and - through the F16C build - against the hardware conversion on all 2^32 floats",
        "NaN results are compared as 'is a NaN' (payload and, except for unary minus/fabs/copysign, sign of a NaN result are not judged); the software half->float path keeps signalling NaNs signalling while the hardware quiets them - reported as a note, not a violation",
        "isnormal and fpclassify are judged by the binary16 class of the operand (a subnormal half is a normal float, so the float functions cannot be the oracle there); isfinite/isinf/isnan/signbit agree with both",
        "long double -> half is judged (statement: 'converting any float to half rounds to nearest-even', anchor 'float2half (float, double, generic)'): single rounding for half_cast / the _h literal operator, the documented composition through float for the converting constructor, operator= and the mixed operators; integer sources (int2half) stay unjudged - the statement does not promise them",
        "double->half: the VALUE is judged only on the NaN/infinity boundary family (NaN-to-NaN with the sign kept, infinity preserved; also for long double sources); the ROUNDING of finite doubles and integer<->half conversions is not judged against a reference - the statement does not claim it and the converting constructor documents double rounding through float - "
        "but every conversion entry point must give the same bits in the software and the F16C build (the statement's last clause), which is what the cast family checks; agreement with single correct rounding is reported as a note",
        "MXCSR.DAZ / MXCSR.FTZ are treated like the rounding direction: process state that a conforming caller may have inherited (crtfastmath.o of a -ffast-math object); the statement's results are claimed for every such state because the unchanged implementation is integer code / explicit-immediate F16C and was measured to be invariant. "
        "Flavours and rounding directions are separate dimensions (no cross product); the sanitizer build runs in the default environment only",
        "fma: the 2^48 triples are not exhausted; the claim is exactly the two stated families",
        "dynamic rounding mode: the reference is integer arithmetic and does not depend on it; the double-based self-test and the information-only conversions run under FE_TONEAREST only; the shards under a directed mode use separate builds compiled with -frounding-math",
        "exception flags/errno (HALF_ERRHANDLING_*), rounding styles other than the default round-to-nearest, ++/--, stream I/O and the parsing of literal tokens are outside this check (operator""_h is called as a function on run-time long doubles); mixed-operand operators and compound assignment are judged only for T values that binary16 represents exactly (the T -> half conversion of other values is the float -> half sweep / information-only double rounding)",
        "one toolchain: g++ 12, x86-64, -O2 (and -O1 under ASan)",
    ]


def replay(ctx, rec):
    h = rec.get("harness") or "c08-sw"
    args = list(rec["args"])
    if h.startswith("c08-path"):
        mode = h.split("@")[1] if "@" in h else None
        pair = _pair_of_mode(mode)
        fe = ["--fenv", mode] if mode else []
        if args and args[0] == "--pathjob":
            stream, sub, jobargs = args[1], int(args[2]), args[3:]
            out = []
            for b in pair:
                _, recs = _run_job(ctx, build(b), "c08-" + b, jobargs, timeout=1800)
                out.append([r["v"] for r in recs if r.get("t") == "dig" and r["k"] == "%s/%d" % (stream, sub)])
            if out[0] != out[1]:
                ctx.violation(rec["sig"], "digests differ: %s vs %s" % (out[0], out[1]), harness=h, args=args)
            return
        stream, ops = args[1], args[2:]
        fn = "classify" if stream == "classify" else "fma" if stream == "fma_derived" else stream
        out = []
        for b in pair:
            sub, recs = _run_job(ctx, build(b), "c08-" + b, fe + ["--one", fn] + ops, timeout=120)
            _merge(ctx, sub)
            out.append(_res_of(recs, stream))
        if out[0] != out[1]:
            ctx.violation(rec["sig"], "%s(%s)%s: software build %s, F16C build %s" % (fn, ", ".join(ops), " under " + mode if mode else "", out[0], out[1]), harness=h, args=args)
        return
    which = h[len("c08-"):] if h[len("c08-"):] in ("sw", "f16c", "san", "sw-rm", "f16c-rm") else "sw"
    sub, _ = _run_job(ctx, build(which), h, args, timeout=120)
    _merge(ctx, sub)
