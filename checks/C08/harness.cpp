// C08: half conversions, arithmetic, comparisons, classification and hash are exactly IEEE 754 binary16.
// Exhaustive enumeration (see DESIGN.md "### C08" and NOTES.md). The same source is built three times:
//   sw   : -mno-f16c -DHALF_ENABLE_F16C_INTRINSICS=0   (software conversion path)
//   f16c : -mf16c                                       (F16C intrinsics path)
//   san  : software path under ASan + trapping bounds checks, sub-alphabet only
// Every result of the real implementation is (a) judged against the exact integer reference in
// refs/C08_half_ref.hpp and (b) folded into a per-stream digest that check.py compares between sw and f16c.
// Results of conversions whose VALUE the statement does not promise (finite double / long double / integer sources, casts
// from half to integer types: mode casts and three streams of mode unary) take part in (b) only.
// --fenv NAME runs a shard under a directed rounding mode (FE_*; -frounding-math builds) or with MXCSR.DAZ / MXCSR.FTZ set
// (DAZ, FTZ, DAZ+FTZ; default builds); the expected bits never change.
#include <xtl/xhalf_float.hpp>

#include "report.hpp"
#include "C08_half_ref.hpp"

#include <cfenv>
#include <cmath>
#include <csignal>
#include <cstdint>
#include <cstdio>
#include <cstdlib>
#include <cstring>
#include <functional>
#include <limits>
#include <type_traits>
#include <string>
#include <vector>
#include <unistd.h>
#include <xmmintrin.h>   // _mm_getcsr / _mm_setcsr: MXCSR.DAZ / MXCSR.FTZ flavours (SSE is baseline on x86-64, also in the -mno-f16c build)

#if defined(C08_EXPECT_F16C)
#if (C08_EXPECT_F16C != 0) != (HALF_ENABLE_F16C_INTRINSICS != 0)
#error "HALF_ENABLE_F16C_INTRINSICS does not have the value this build was meant to have"
#endif
#endif

#if HALF_ENABLE_F16C_INTRINSICS
#define C08_PATH "f16c"
#else
#define C08_PATH "sw"
#endif
#ifdef VERIF_ASAN
#define C08_BUILD C08_PATH "+asan"
#else
#define C08_BUILD C08_PATH
#endif

// dynamic floating-point environment owned by the harness (--fenv NAME): set once before the shard, restored at the end.
// NAME is a rounding direction (FE_UPWARD, FE_DOWNWARD, FE_TOWARDZERO; -frounding-math builds) or an MXCSR denormal flavour
// (DAZ, FTZ, DAZ+FTZ: "denormals are zero" / "flush to zero", the state a -ffast-math object leaves behind; default builds).
// The expected bits never depend on it; signatures, messages, replay arguments and counters carry it.
static std::string g_sfx;         // "" or "[FE_UPWARD]" / "[DAZ]"
static std::string g_fenv_name;   // "" or "FE_UPWARD" / "DAZ"
static int g_fenv_mode = -1;
static unsigned g_mxcsr_bits = 0; // 0 or the DAZ (0x0040) / FTZ (0x8000) bits the harness set
static std::string BLD() { return std::string(C08_BUILD) + (g_fenv_name.empty() ? "" : " " + g_fenv_name); }
static std::vector<std::string> RP(const std::string& fn, std::initializer_list<std::string> ops = {})
{
    std::vector<std::string> v;
    if (!g_fenv_name.empty()) { v.push_back("--fenv"); v.push_back(g_fenv_name); }
    v.push_back("--one");
    v.push_back(fn);
    for (const std::string& o : ops) v.push_back(o);
    return v;
}

typedef half_float::half H;
static_assert(sizeof(H) == 2, "half is expected to be its 16-bit representation");
using href::dec;
using href::rinfo;

static inline H mk(uint16_t b) { H h; std::memcpy(static_cast<void*>(&h), &b, 2); return h; }
static inline uint16_t bits(H h) { uint16_t b; std::memcpy(&b, &h, 2); return b; }
static inline uint32_t fbits(float f) { uint32_t b; std::memcpy(&b, &f, 4); return b; }
static inline uint64_t dbits(double f) { uint64_t b; std::memcpy(&b, &f, 8); return b; }
static inline float mkf(uint32_t b) { float f; std::memcpy(&f, &b, 4); return f; }
static inline bool fnan(uint32_t b) { return (b & 0x7FFFFFFFu) > 0x7F800000u; }
static inline bool dnan(uint64_t b) { return (b & 0x7FFFFFFFFFFFFFFFull) > 0x7FF0000000000000ull; }

static std::string hx(uint64_t v, int digits)
{
    char b[40];
    std::snprintf(b, sizeof b, "0x%0*llx", digits, (unsigned long long)v);
    return b;
}
static std::string hval(uint16_t h)
{
    dec d = href::decode(h);
    char b[64];
    if (href::d_nan(d)) return std::string(d.cls == href::C_QNAN ? "qNaN" : "sNaN");
    if (href::d_inf(d)) return d.neg ? "-inf" : "+inf";
    std::snprintf(b, sizeof b, "%.11g", href::to_double(h));
    return b;
}
static std::string h2s(uint16_t h) { return hx(h, 4) + "(" + hval(h) + ")"; }
static const char* clsname(uint16_t h)
{
    static const char* n[] = {"zero", "subnormal", "normal", "inf", "qnan", "snan"};
    return n[href::decode(h).cls];
}
// coarse class used in signatures of boolean functions
static std::string bclass(uint16_t h)
{
    dec d = href::decode(h);
    if (href::d_nan(d)) return "nan";
    std::string s = d.neg ? "-" : "+";
    return s + (d.cls == href::C_ZERO ? "0" : d.cls == href::C_INF ? "inf" : d.cls == href::C_SUB ? "sub" : "fin");
}

// ------------------------------------------------------------------ crash attribution
static const char* volatile g_fn = "startup";
static volatile uint32_t g_a = 0, g_b = 0, g_c = 0;
static volatile int g_nargs = 0;
static volatile uint64_t g_a64 = 0;   // operand of the double entry points
#define CUR(fn) (g_fn = (fn))

// a hard crash (SIGFPE/SIGSEGV/SIGILL from a trapping bounds check/...) is attributed to the operands being evaluated:
// engine/report.hpp's handler calls this hook, then prints the stats and a "crashed" record
static void crash_hook(const char* signame)
{
    const char* fn = g_fn;
    const int n = g_nargs;
    const bool isf = std::strncmp(fn, "float2half", 10) == 0;
    const bool isd = std::strncmp(fn, "double2half", 11) == 0 || std::strncmp(fn, "longdouble2half", 15) == 0 || std::strncmp(fn, "int2half", 8) == 0 || std::strncmp(fn, "longlong2half", 13) == 0;
    std::vector<std::string> rp = RP(fn, {isd ? hx(g_a64, 16) : hx(g_a, isf ? 8 : 4)});
    std::string ops = rp[rp.size() - 1];
    if (std::strncmp(fn, "ld2half_", 8) == 0) { rp.push_back(hx(g_a64, 16)); ops += " " + rp.back(); }   // sign/exponent word, then the 64-bit significand
    if (n >= 2) { rp.push_back(hx(g_b, 4)); ops += " " + rp.back(); }
    if (n >= 3) { rp.push_back(hx(g_c, 4)); ops += " " + rp.back(); }
    vf::violation(std::string("C08/") + fn + g_sfx + "/crash/" + signame, std::string("[") + BLD() + "] " + fn + " died with " + signame + " on operands " + ops + " (bit patterns)", rp);
}
static void install_handlers()
{
    vf::crash_hook() = crash_hook;
    vf::install_crash_handler();
}

// ------------------------------------------------------------------ result streams (digest / dump / nth)
enum
{
    S_F2H, S_F2H_ASSIGN, S_H2F, S_H2F_CAST, S_H2D, S_H2D_CAST, S_SQRT, S_CLASS, S_NEG, S_FABS, S_HASH,
    S_ADD, S_SUB, S_MUL, S_DIV, S_CMP, S_COPYSIGN, S_FMA, S_FMAD,
    S_NF_D_CAST, S_NF_D_CAST_RN, S_NF_D_CTOR, S_NF_D_ASSIGN, S_NF_F_CTOR, S_NF_F_ASSIGN, S_NF_F_CAST, S_MIXED,
    S_F2H_CAST, S_H2I, S_H2LL, S_H2LD, S_I2H_CAST, S_I2H_CTOR, S_LL2H_CAST, S_LD2H_CAST,
    S_LDF_CAST, S_LDF_CAST_RN, S_LDF_LIT, S_LDF_CTOR, S_LDF_ASSIGN, S_LDF_MUL1, S_NSTREAM
};
static const char* const stream_name[S_NSTREAM] = {
    "float2half", "float2half_assign", "half2float", "half2float_cast", "half2double", "half2double_cast", "sqrt", "classify", "neg", "fabs", "hash",
    "add", "sub", "mul", "div", "cmp", "copysign", "fma", "fma_derived",
    "double2half_cast", "double2half_cast_rn", "double2half_ctor", "double2half_assign", "float2half_nan_ctor", "float2half_nan_assign", "float2half_nan_cast", "mixed",
    "float2half_cast", "half2int_cast", "half2longlong_cast", "half2longdouble_cast", "int2half_cast", "int2half_ctor", "longlong2half_cast", "longdouble2half_cast",
    "ld2half_cast", "ld2half_cast_rn", "ld2half_literal", "ld2half_ctor", "ld2half_assign", "ld2half_mul1"};

struct stream_t
{
    uint64_t dig = 1469598103934665603ull;
    uint64_t raw = 1469598103934665603ull;
    uint64_t n = 0;
};
static stream_t g_st[S_NSTREAM];
static int g_sub = 0;                 // sub-id of the streams (chunk number for the float loop), part of the digest key
static int g_dump_sid = -1, g_dump_sub = 0;
static FILE* g_dump_file = nullptr;
static long long g_nth = -1;

static inline void mix(uint64_t& h, uint64_t v) { h = (h ^ v) * 1099511628211ull; h ^= h >> 29; }

static inline size_t dump_width(int sid);
static __attribute__((noinline, cold)) void emit_slow(int sid, uint64_t canon)
{
    if (g_sub != g_dump_sub) return;
    if (g_dump_file) { std::fwrite(&canon, dump_width(sid), 1, g_dump_file); }   // little endian: the low bytes
    if (g_nth >= 0 && (long long)g_st[sid].n == g_nth)
        std::printf("@@{\"t\":\"nth\",\"stream\":\"%s\",\"n\":%d,\"a\":\"0x%x\",\"b\":\"0x%x\",\"c\":\"0x%x\",\"a64\":\"0x%016llx\",\"fn\":\"%s\"}\n", stream_name[sid], (int)g_nargs, (unsigned)g_a, (unsigned)g_b, (unsigned)g_c, (unsigned long long)g_a64, (const char*)g_fn);
}
// canon: value with NaN results canonicalised (verdict); raw: the exact bits (information only)
static inline void emit(int sid, uint64_t canon, uint64_t raw)
{
    stream_t& s = g_st[sid];
    if (__builtin_expect(sid == g_dump_sid, 0)) emit_slow(sid, canon);
    mix(s.dig, canon);
    mix(s.raw, raw);
    ++s.n;
}
static inline void emit1(int sid, uint64_t canon)
{
    stream_t& s = g_st[sid];
    if (__builtin_expect(sid == g_dump_sid, 0)) emit_slow(sid, canon);
    mix(s.dig, canon);
    ++s.n;
}
static inline size_t dump_width(int sid)
{
    return (sid == S_H2D || sid == S_H2D_CAST || sid == S_HASH || sid == S_H2LL || sid == S_H2LD) ? 8 : (sid == S_H2F || sid == S_H2F_CAST || sid == S_H2I) ? 4 : 2;
}
static void flush_streams()
{
    for (int i = 0; i < S_NSTREAM; ++i)
    {
        if (!g_st[i].n) continue;
        std::printf("@@{\"t\":\"dig\",\"k\":\"%s/%d\",\"v\":\"%016llx\",\"raw\":\"%016llx\",\"n\":%llu}\n", stream_name[i], g_sub,
                    (unsigned long long)g_st[i].dig, (unsigned long long)g_st[i].raw, (unsigned long long)g_st[i].n);
        g_st[i] = stream_t();
    }
}

// ------------------------------------------------------------------ counters
static long long g_hash_eq = 0;
static long long g_eval = 0, g_nt = 0, g_ties = 0, g_subres = 0, g_nearovf = 0, g_special = 0, g_exact0 = 0, g_info = 0;
static bool g_verbose = false;   // --one: print the result

static inline void account(const rinfo& ri, uint16_t expect)
{
    const bool nz_finite = (expect & 0x7FFF) != 0 && (expect & 0x7FFF) < 0x7C00;
    if (ri.inexact && (nz_finite || ri.near_overflow)) ++g_nt;
    g_ties += ri.tie;
    g_subres += (ri.res_sub && ri.inexact);
    g_nearovf += ri.near_overflow;
    g_special += ri.special;
    g_exact0 += ri.exact_zero;
}

struct ops_t
{
    uint16_t v[3];
    int n;
    ops_t() : n(0) {}
    ops_t(uint16_t a) : n(1) { v[0] = a; }
    ops_t(uint16_t a, uint16_t b) : n(2) { v[0] = a; v[1] = b; }
    ops_t(uint16_t a, uint16_t b, uint16_t c) : n(3) { v[0] = a; v[1] = b; v[2] = c; }
    const uint16_t* begin() const { return v; }
    const uint16_t* end() const { return v + n; }
    size_t size() const { return size_t(n); }
    uint16_t operator[](size_t i) const { return v[i]; }
};
static std::string round_class(const rinfo& ri, const ops_t& ops, uint16_t expect)
{
    bool any_nan = false, any_inf = false;
    for (uint16_t o : ops) { any_nan |= href::is_nan16(o); any_inf |= href::is_inf16(o); }
    if (any_nan) return "nan-operand";
    if (href::is_nan16(expect)) return "invalid";
    if (any_inf) return "inf-operand";
    if (ri.special) return href::is_inf16(expect) ? "pole" : "special";
    if (ri.exact_zero) return "exact-zero";
    std::string r = ri.overflow ? (ri.near_overflow ? "overflow-by-rounding" : "overflow") : ri.res_sub ? "subnormal" : "normal";
    r += !ri.inexact ? ":exact" : ri.tie ? ":tie" : ri.up ? ":above-half" : ":below-half";
    return r;
}
static std::string fail_kind(uint16_t expect, uint16_t got)
{
    if (href::is_nan16(expect)) return "not-nan";
    if (href::is_nan16(got)) return "unexpected-nan";
    if ((expect ^ got) == 0x8000) return "wrong-sign";
    if ((expect & 0x8000) == (got & 0x8000))
    {
        int d = int(got & 0x7FFF) - int(expect & 0x7FFF);
        if (d == 1) return "1ulp-too-large";
        if (d == -1) return "1ulp-too-small";
    }
    return "wrong-value";
}

// Throttle: a broken build can fail on billions of inputs. Per (function, rounding situation, failure kind) only the first
// 20 failures are formatted (the reporter prints the first one per signature); the rest are only counted.
static long long g_fail_total = 0, g_fail_throttled = 0;
static inline int kind_code(uint16_t expect, uint16_t got)
{
    if (href::is_nan16(expect)) return 0;
    if (href::is_nan16(got)) return 1;
    if ((expect ^ got) == 0x8000) return 2;
    if ((expect & 0x8000) == (got & 0x8000))
    {
        int d = int(got & 0x7FFF) - int(expect & 0x7FFF);
        if (d == 1) return 3;
        if (d == -1) return 4;
    }
    return 5;
}
static bool throttled(const void* fn, unsigned cls_bits, int kind)
{
    static unsigned short seen[4096];
    ++g_fail_total;
    uint64_t k = (uint64_t(uintptr_t(fn)) * 0x9E3779B97F4A7C15ull) ^ (uint64_t(cls_bits) * 0xC2B2AE3D27D4EB4Full) ^ (uint64_t(kind) * 0x165667B19E3779F9ull);
    unsigned short& c = seen[(k >> 40) & 4095];
    if (c >= 20) { ++g_fail_throttled; return true; }
    ++c;
    return false;
}
static inline unsigned ri_bits(const rinfo& ri, unsigned extra)
{
    return unsigned(ri.exact_zero) | unsigned(ri.inexact) << 1 | unsigned(ri.tie) << 2 | unsigned(ri.up) << 3 | unsigned(ri.res_sub) << 4 | unsigned(ri.overflow) << 5 |
           unsigned(ri.near_overflow) << 6 | unsigned(ri.special) << 7 | extra << 8;
}
static unsigned ops_bits(const ops_t& ops)
{
    unsigned b = 0;
    for (uint16_t o : ops) b |= href::is_nan16(o) ? 1u : href::is_inf16(o) ? 2u : 0u;
    return b;
}

static __attribute__((noinline, cold)) void fail_half(const char* fn, const ops_t& ops, uint16_t expect, uint16_t got, const rinfo& ri)
{
    if (throttled(fn, ri_bits(ri, ops_bits(ops) | (href::is_nan16(expect) ? 4u : 0u) | (href::is_inf16(expect) ? 8u : 0u)), kind_code(expect, got))) return;
    std::string cls = round_class(ri, ops, expect);
    std::string sig = std::string("C08/") + fn + g_sfx + "/" + cls + "/" + fail_kind(expect, got);
    std::string msg = std::string("[") + BLD() + "] " + fn + "(";
    std::vector<std::string> rp = RP(fn);
    for (size_t i = 0; i < ops.size(); ++i) { msg += (i ? ", " : "") + h2s(ops[i]); rp.push_back(hx(ops[i], 4)); }
    msg += ") returned " + h2s(got) + ", the correctly rounded binary16 result is " + h2s(expect) + " [" + cls + "]";
    vf::violation(sig, msg, rp);
}

static inline bool same_half(uint16_t expect, uint16_t got)
{
    return expect == got || (href::is_nan16(expect) && href::is_nan16(got));
}

#ifdef VERIF_ASAN
static void asan_check(const char* fn)
{
    if (!vf::take_asan()) return;
    std::vector<std::string> rp = RP(fn, {hx(g_a, 4)});
    if (g_nargs > 1) rp.push_back(hx(g_b, 4));
    if (g_nargs > 2) rp.push_back(hx(g_c, 4));
    vf::violation(std::string("C08/") + fn + g_sfx + "/asan/" + clsname(uint16_t(g_a)), std::string("AddressSanitizer report inside ") + fn + " on operands " + hx(g_a, 4) + " " + hx(g_b, 4) + " " + hx(g_c, 4), rp);
}
#define ASAN_CHECK(fn) asan_check(fn)
#else
#define ASAN_CHECK(fn) ((void)0)
#endif

// ------------------------------------------------------------------ the implementation under test, one wrapper per entry point
#define NOINL __attribute__((noinline))
NOINL static uint16_t impl_f2h_ctor(float f) { H h(f); return bits(h); }
NOINL static uint16_t impl_f2h_assign(float f) { H h; h = f; return bits(h); }
NOINL static uint16_t impl_f2h_cast(float f) { return bits(half_float::half_cast<H>(f)); }
NOINL static float impl_h2f(uint16_t b) { return static_cast<float>(mk(b)); }
NOINL static float impl_h2f_cast(uint16_t b) { return half_float::half_cast<float>(mk(b)); }
NOINL static double impl_h2d(uint16_t b) { double d = mk(b); return d; }
NOINL static double impl_h2d_cast(uint16_t b) { return half_float::half_cast<double>(mk(b)); }
NOINL static int impl_h2i_cast(uint16_t b) { return half_float::half_cast<int>(mk(b)); }
NOINL static long long impl_h2ll_cast(uint16_t b) { return half_float::half_cast<long long>(mk(b)); }
NOINL static long double impl_h2ld_cast(uint16_t b) { return half_float::half_cast<long double>(mk(b)); }
static inline uint16_t impl_add(H a, H b) { return bits(a + b); }
static inline uint16_t impl_sub(H a, H b) { return bits(a - b); }
static inline uint16_t impl_mul(H a, H b) { return bits(a * b); }
static inline uint16_t impl_div(H a, H b) { return bits(a / b); }
static inline uint16_t impl_fma(H a, H b, H c) { return bits(half_float::fma(a, b, c)); }
static inline uint16_t impl_sqrt(H a) { return bits(half_float::sqrt(a)); }

// ------------------------------------------------------------------ alphabets
static const unsigned M8[8] = {0, 1, 2, 0x1FF, 0x200, 0x201, 0x3FE, 0x3FF};
static const unsigned M64[64] = {
    0, 1, 2, 0x1FF, 0x200, 0x201, 0x3FE, 0x3FF,                                   // M8
    3, 4, 5, 7, 8, 9, 0xF, 0x10, 0x11, 0x1F, 0x20, 0x21, 0x3F, 0x40, 0x41, 0x7F,   // powers of two and neighbours
    0x80, 0x81, 0xFF, 0x100, 0x101, 0x155, 0x1FE, 0x202, 0x2AA, 0x2FF, 0x300, 0x301,
    0x333, 0x37F, 0x380, 0x3BF, 0x3C0, 0x3DF, 0x3E0, 0x3EF, 0x3F0, 0x3F7, 0x3F8, 0x3FB,
    0x3FC, 0x3FD, 0x0AB, 0x123, 0x1C7, 0x249, 0x2D5, 0x35B, 0x3A5, 0x0D3, 0x16D, 0x27B,
    0x2E9, 0x311, 0x06B, 0x1A9};
static const unsigned M7[7] = {0, 1, 0x1FF, 0x200, 0x201, 0x3FE, 0x3FF};
static const unsigned M16[16] = {0, 1, 2, 3, 0x0FF, 0x100, 0x155, 0x1FF, 0x200, 0x201, 0x2AA, 0x300, 0x3FC, 0x3FD, 0x3FE, 0x3FF};
static const unsigned E14[14] = {0, 1, 2, 5, 10, 13, 14, 15, 16, 17, 20, 29, 30, 31};

static std::vector<uint16_t> make_alpha(const unsigned* exps, int ne, const unsigned* mants, int nm)
{
    std::vector<uint16_t> v;
    for (unsigned s = 0; s < 2; ++s)
        for (int e = 0; e < ne; ++e)
            for (int m = 0; m < nm; ++m) v.push_back(uint16_t((s << 15) | (exps[e] << 10) | mants[m]));
    return v;
}
static std::vector<uint16_t> A_all, A4096, A512, F196, F1024, F64;
static std::vector<uint8_t> in512, in4096;
static std::vector<dec> DEC;          // decode table
static std::vector<float> FLT;        // exact float of every half (reference conversion)

static void init_tables()
{
    unsigned allexp[32];
    for (unsigned i = 0; i < 32; ++i) allexp[i] = i;
    A4096 = make_alpha(allexp, 32, M64, 64);
    A512 = make_alpha(allexp, 32, M8, 8);
    F196 = make_alpha(E14, 14, M7, 7);
    F1024 = make_alpha(allexp, 32, M16, 16);
    static const unsigned E8[8] = {0, 1, 14, 15, 16, 29, 30, 31};
    static const unsigned M4[4] = {0, 1, 0x200, 0x3FF};
    F64 = make_alpha(E8, 8, M4, 4);
    in512.assign(65536, 0);
    in4096.assign(65536, 0);
    for (uint16_t h : A512) in512[h] = 1;
    for (uint16_t h : A4096) in4096[h] = 1;
    A_all.resize(65536);
    DEC.resize(65536);
    FLT.resize(65536);
    for (unsigned i = 0; i < 65536; ++i)
    {
        A_all[i] = uint16_t(i);
        DEC[i] = href::decode(uint16_t(i));
        FLT[i] = href::to_float(uint16_t(i));
    }
}

// ------------------------------------------------------------------ float -> half
static const char* fclass(uint32_t u)
{
    uint32_t a = u & 0x7FFFFFFFu;
    if (a > 0x7F800000u) return (a & 0x400000u) ? "qnan" : "snan";
    if (a == 0x7F800000u) return "inf";
    if (a == 0) return "zero";
    if (a < 0x00800000u) return "float-subnormal";
    return "finite";
}
static __attribute__((noinline, cold)) void fail_f2h(const char* fn, uint32_t u, uint16_t expect, uint16_t got, const rinfo& ri)
{
    if (throttled(fn, ri_bits(ri, (fnan(u) ? 1u : 0u) | ((u & 0x7FFFFFFFu) == 0x7F800000u ? 2u : 0u)), kind_code(expect, got))) return;
    std::string cls;
    if (fnan(u)) cls = "nan-operand";
    else if ((u & 0x7FFFFFFFu) == 0x7F800000u) cls = "inf-operand";
    else cls = round_class(ri, ops_t(), expect);
    std::string sig = std::string("C08/") + fn + "." C08_PATH + g_sfx + "/" + cls + "/" + fail_kind(expect, got);
    char v[64];
    std::snprintf(v, sizeof v, "%.9g", (double)mkf(u));
    vf::violation(sig, std::string("[") + BLD() + "] " + fn + "(float " + hx(u, 8) + " = " + v + ", " + fclass(u) + ") returned " + h2s(got) +
                           ", round-to-nearest-even binary16 is " + h2s(expect) + " [" + cls + "]",
                  RP(fn, {hx(u, 8)}));
}
// with_cast: also the third float entry point half_cast<half>(float) (judged like the other two; own stream "float2half_cast")
static inline void one_f2h(uint32_t u, bool count_nt, bool with_cast = false)
{
    g_a = u;
    const float f = mkf(u);
    rinfo ri;
    const uint16_t e = href::from_f32_bits(u, &ri);
    CUR("float2half");
    const uint16_t r1 = impl_f2h_ctor(f);
    CUR("float2half_assign");
    const uint16_t r2 = impl_f2h_assign(f);
    g_eval += 2;
    if (count_nt) account(ri, e);
    if (!same_half(e, r1)) fail_f2h("float2half", u, e, r1, ri);
    if (!same_half(e, r2)) fail_f2h("float2half_assign", u, e, r2, ri);
    emit(S_F2H, href::canon16(r1), r1);
    emit(S_F2H_ASSIGN, href::canon16(r2), r2);
    if (g_verbose)
        std::printf("@@{\"t\":\"res\",\"fn\":\"float2half\",\"v\":\"%04x\",\"expect\":\"%04x\"}\n@@{\"t\":\"res\",\"fn\":\"float2half_assign\",\"v\":\"%04x\"}\n", href::canon16(r1), e, href::canon16(r2));
    if (with_cast)
    {
        CUR("float2half_cast");
        const uint16_t r3 = impl_f2h_cast(f);
        ++g_eval;
        if (!same_half(e, r3)) fail_f2h("float2half_cast", u, e, r3, ri);
        emit(S_F2H_CAST, href::canon16(r3), r3);
        if (g_verbose) std::printf("@@{\"t\":\"res\",\"fn\":\"float2half_cast\",\"v\":\"%04x\"}\n", href::canon16(r3));
    }
}
// Fast form of the float sweep: the two entry points are separately compiled loops over a block (no inlining into the
// judge, no common subexpression between constructor and assignment); the judge then runs over the block with its
// digests and counters in registers. Produces exactly the digests and counters of calling one_f2h on every input.
static const int FBLK = 512;
NOINL static void impl_f2h_ctor_block(uint32_t u0, int n, uint16_t* out)
{
    for (int i = 0; i < n; ++i) { g_a = u0 + uint32_t(i); H h(mkf(u0 + uint32_t(i))); out[i] = bits(h); }
}
NOINL static void impl_f2h_assign_block(uint32_t u0, int n, uint16_t* out)
{
    for (int i = 0; i < n; ++i) { g_a = u0 + uint32_t(i); H h; h = mkf(u0 + uint32_t(i)); out[i] = bits(h); }
}
static void f2h_chunk_fast(uint32_t base)
{
    uint16_t r1[FBLK], r2[FBLK];
    uint64_t d1 = g_st[S_F2H].dig, w1 = g_st[S_F2H].raw, d2 = g_st[S_F2H_ASSIGN].dig, w2 = g_st[S_F2H_ASSIGN].raw;
    long long nt = 0, ties = 0, subres = 0, nearovf = 0, special = 0, exact0 = 0;
    for (uint32_t off = 0; off < (1u << 24); off += FBLK)
    {
        const uint32_t u0 = base + off;
        CUR("float2half");
        impl_f2h_ctor_block(u0, FBLK, r1);
        CUR("float2half_assign");
        impl_f2h_assign_block(u0, FBLK, r2);
        for (int i = 0; i < FBLK; ++i)
        {
            const uint32_t u = u0 + uint32_t(i);
            rinfo ri;
            const uint16_t e = href::from_f32_bits(u, &ri);
            const bool nz_finite = (e & 0x7FFF) != 0 && (e & 0x7FFF) < 0x7C00;
            nt += (ri.inexact && (nz_finite || ri.near_overflow));
            ties += ri.tie;
            subres += (ri.res_sub && ri.inexact);
            nearovf += ri.near_overflow;
            special += ri.special;
            exact0 += ri.exact_zero;
            if (__builtin_expect(!same_half(e, r1[i]), 0)) { g_a = u; fail_f2h("float2half", u, e, r1[i], ri); }
            if (__builtin_expect(!same_half(e, r2[i]), 0)) { g_a = u; fail_f2h("float2half_assign", u, e, r2[i], ri); }
            mix(d1, href::canon16(r1[i]));
            mix(w1, r1[i]);
            mix(d2, href::canon16(r2[i]));
            mix(w2, r2[i]);
        }
    }
    g_st[S_F2H].dig = d1; g_st[S_F2H].raw = w1; g_st[S_F2H].n += 1u << 24;
    g_st[S_F2H_ASSIGN].dig = d2; g_st[S_F2H_ASSIGN].raw = w2; g_st[S_F2H_ASSIGN].n += 1u << 24;
    g_eval += 2ll << 24;
    g_nt += nt; g_ties += ties; g_subres += subres; g_nearovf += nearovf; g_special += special; g_exact0 += exact0;
}
static void mode_f2h(int shard, int nshard, bool samples)
{
    g_nargs = 1;
    int nsamp = 0;
    for (int c = 0; c < 256; ++c)
    {
        if (c % nshard != shard) continue;
        g_sub = c;
        uint32_t u = uint32_t(c) << 24;
        if (g_dump_sid < 0) f2h_chunk_fast(u);
        else for (uint32_t i = 0; i < (1u << 24); ++i, ++u) one_f2h(u, true);   // --dump / --nth: the generic path
        flush_streams();
        vf::stat("float_chunks_done", 1);
        if (samples && nsamp < 2)
        {
            // a tie and a subnormal result written out
            uint32_t pick = (uint32_t(c) << 24) | 0x00A01000u;
            rinfo ri;
            uint16_t e = href::from_f32_bits(pick, &ri);
            char v[64];
            std::snprintf(v, sizeof v, "%.9g", (double)mkf(pick));
            std::printf("@@{\"t\":\"xs\",\"k\":\"float2half/%d\",\"v\":\"half(float %s = %s) == %s  [%s]\"}\n", c, hx(pick, 8).c_str(), v, h2s(impl_f2h_ctor(mkf(pick))).c_str(),
                        round_class(ri, ops_t(), e).c_str());
            ++nsamp;
        }
    }
    g_sub = 0;
}

// Float boundary alphabet FB (mode f2hb): sign x EVERY exponent field (0..255: float subnormals, every binade, inf/NaN) x
// mantissa patterns {0, every single bit, every pair of bits, every run of low ones, every run of high ones, all ones minus
// one bit}. It is a subset of the 2^32 sweep; it exists (a) to put the third float entry point half_cast<half>(float) under
// the reference in every environment and (b) as the float -> half part of the MXCSR flavours, where a second, third and
// fourth complete sweep would not fit the quick tier (the thorough tier repeats the complete sweep under DAZ+FTZ).
static std::vector<uint32_t> float_mantissas()
{
    std::vector<uint32_t> v;
    auto add = [&](uint32_t m) { m &= 0x7FFFFFu; for (uint32_t x : v) if (x == m) return; v.push_back(m); };
    add(0);
    for (int i = 0; i < 23; ++i) add(1u << i);
    for (int i = 0; i < 23; ++i) for (int j = i + 1; j < 23; ++j) add((1u << i) | (1u << j));
    for (int i = 1; i <= 23; ++i) { add((1u << i) - 1); add(~((1u << i) - 1)); }
    for (int i = 0; i < 23; ++i) add(~(1u << i));
    return v;
}
static void mode_f2hb()
{
    g_nargs = 1;
    const std::vector<uint32_t> mf = float_mantissas();
    long long n = 0;
    for (uint32_t sgn = 0; sgn < 2; ++sgn)
        for (uint32_t ex = 0; ex < 256; ++ex)
            for (uint32_t m : mf) { one_f2h((sgn << 31) | (ex << 23) | m, false, true); ++n; }
    vf::stat(std::string("float_boundary_alphabet_floats_" C08_BUILD) + g_sfx, n);
    flush_streams();
}

// ------------------------------------------------------------------ unary functions over all halves
static __attribute__((noinline, cold)) void fail_bool(const char* fn, uint16_t a, const char* what, long long expect, long long got)
{
    vf::violation(std::string("C08/") + fn + g_sfx + "/" + bclass(a) + "/wrong-result",
                  std::string("[") + BLD() + "] " + fn + "(" + h2s(a) + ") returned " + vf::str(got) + ", expected " + vf::str(expect) + " (" + what + ")", RP(fn, {hx(a, 4)}));
}
static __attribute__((noinline, cold)) void fail_conv(const char* fn, uint16_t a, uint64_t expect, uint64_t got, int digits)
{
    vf::violation(std::string("C08/") + fn + "." C08_PATH + g_sfx + "/" + clsname(a) + "/" + (href::is_nan16(a) ? "not-nan" : "inexact-conversion"),
                  std::string("[") + BLD() + "] " + fn + "(" + h2s(a) + ") returned bits " + hx(got, digits) + ", the exact value has bits " + hx(expect, digits), RP(fn, {hx(a, 4)}));
}
static void judge_h2f(const char* fn, int sid, uint16_t a, float got)
{
    const uint32_t e = href::to_f32_bits(a), g = fbits(got);
    ++g_eval;
    const bool ok = href::is_nan16(a) ? fnan(g) : (g == e);
    if (!ok) fail_conv(fn, a, e, g, 8);
    emit(sid, fnan(g) ? 0x7FC00000u : g, g);
    if (g_verbose) std::printf("@@{\"t\":\"res\",\"fn\":\"%s\",\"v\":\"%08x\"}\n", fn, fnan(g) ? 0x7FC00000u : g);
}
static void judge_h2d(const char* fn, int sid, uint16_t a, double got)
{
    const uint64_t e = href::to_f64_bits(a), g = dbits(got);
    ++g_eval;
    const bool ok = href::is_nan16(a) ? dnan(g) : (g == e);
    if (!ok) fail_conv(fn, a, e, g, 16);
    emit(sid, dnan(g) ? 0x7FF8000000000000ull : g, g);
    if (g_verbose) std::printf("@@{\"t\":\"res\",\"fn\":\"%s\",\"v\":\"%016llx\"}\n", fn, (unsigned long long)(dnan(g) ? 0x7FF8000000000000ull : g));
}
// sign-only operations: agree with the float operation on the converted value (value exact; for NaN: still a NaN, same sign bit as the float result)
static void judge_signop(const char* fn, int sid, const ops_t& ops, float fexpect, uint16_t got)
{
    const uint32_t fe = fbits(fexpect);
    ++g_eval;
    bool ok;
    uint16_t e;
    if (fnan(fe)) { e = uint16_t(((fe >> 31) << 15) | 0x7E00); ok = href::is_nan16(got) && (got >> 15) == (fe >> 31); }
    else { e = href::from_f32_bits(fe); ok = (got == e); }
    if (!ok)
    {
        std::string msg = std::string("[") + BLD() + "] " + fn + "(";
        std::vector<std::string> rp = RP(fn);
        for (size_t i = 0; i < ops.size(); ++i) { msg += (i ? ", " : "") + h2s(ops[i]); rp.push_back(hx(ops[i], 4)); }
        msg += ") returned " + h2s(got) + ", the float operation on the converted operands gives " + h2s(e) + (fnan(fe) ? " (a NaN with that sign bit)" : "");
        std::string cls = bclass(ops[0]);
        if (ops.size() > 1) cls += "," + bclass(ops[1]);
        vf::violation(std::string("C08/") + fn + g_sfx + "/" + cls + "/" + (href::is_nan16(e) ? "nan-or-sign-lost" : fail_kind(e, got)), msg, rp);
    }
    const uint16_t canon = href::is_nan16(got) ? uint16_t((got & 0x8000) | 0x7E00) : got;
    emit(sid, canon, got);
    if (g_verbose) std::printf("@@{\"t\":\"res\",\"fn\":\"%s\",\"v\":\"%04x\"}\n", fn, canon);
}

static void one_unary(uint16_t a, const char* only = nullptr)
{
    g_a = a;
    g_nargs = 1;
    const H h = mk(a);
    const dec d = DEC[a];
    auto want = [&](const char* fn) { return !only || std::strcmp(only, fn) == 0; };
    if (want("get_data"))
    {
        CUR("get_data");
        ++g_eval;
        if (h.get_data() != a) fail_bool("get_data", a, "bit pattern", a, h.get_data());
    }
    if (want("half2float")) { CUR("half2float"); judge_h2f("half2float", S_H2F, a, impl_h2f(a)); ASAN_CHECK("half2float"); }
    if (want("half2float_cast")) { CUR("half2float_cast"); judge_h2f("half2float_cast", S_H2F_CAST, a, impl_h2f_cast(a)); ASAN_CHECK("half2float_cast"); }
    if (want("half2double")) { CUR("half2double"); judge_h2d("half2double", S_H2D, a, impl_h2d(a)); ASAN_CHECK("half2double"); }
    if (want("half2double_cast")) { CUR("half2double_cast"); judge_h2d("half2double_cast", S_H2D_CAST, a, impl_h2d_cast(a)); ASAN_CHECK("half2double_cast"); }
    // half -> int / long long / long double through half_cast: conversion entry points the statement does not give a value for
    // (DESIGN.md: integer <-> half is not judged), but "bit-identical whether or not the F16C path is compiled in" applies to
    // them as to every result: the results only go into their digest streams (software vs F16C, every environment).
    if (want("half2int_cast"))
    {
        CUR("half2int_cast");
        const int r = impl_h2i_cast(a);
        ++g_eval;
        emit1(S_H2I, uint32_t(r));
        if (g_verbose) std::printf("@@{\"t\":\"res\",\"fn\":\"half2int_cast\",\"v\":\"%d\"}\n", r);
    }
    if (want("half2longlong_cast"))
    {
        CUR("half2longlong_cast");
        const long long r = impl_h2ll_cast(a);
        ++g_eval;
        emit1(S_H2LL, uint64_t(r));
        if (g_verbose) std::printf("@@{\"t\":\"res\",\"fn\":\"half2longlong_cast\",\"v\":\"%lld\"}\n", r);
    }
    if (want("half2longdouble_cast"))
    {
        CUR("half2longdouble_cast");
        const long double r = impl_h2ld_cast(a);
        ++g_eval;
        // every half is a double: the result is folded as the double it equals (NaN canonical; 1 = "not a double", never expected)
        const double rd = double(r);
        const uint64_t c = (r != r) ? 0x7FF8000000000000ull : ((long double)rd == r ? dbits(rd) : 1ull);
        emit1(S_H2LD, c);
        if (g_verbose) std::printf("@@{\"t\":\"res\",\"fn\":\"half2longdouble_cast\",\"v\":\"%016llx\"}\n", (unsigned long long)c);
    }
    if (want("sqrt"))
    {
        CUR("sqrt");
        rinfo ri;
        const uint16_t e = href::sqrt(d, &ri), r = impl_sqrt(h);
        ++g_eval;
        account(ri, e);
        if (!same_half(e, r)) fail_half("sqrt", ops_t(a), e, r, ri);
        emit(S_SQRT, href::canon16(r), r);
        ASAN_CHECK("sqrt");
        if (g_verbose) std::printf("@@{\"t\":\"res\",\"fn\":\"sqrt\",\"v\":\"%04x\",\"expect\":\"%04x\"}\n", href::canon16(r), e);
    }
    // classification: binary16 format definition; where the float functions on the exactly converted value are
    // defined the same way (everything except the normal/subnormal distinction) they are consulted too.
    const float f = FLT[a];
    const bool e_fin = d.cls <= href::C_NORM, e_inf = d.cls == href::C_INF, e_nan = d.cls >= href::C_QNAN, e_norm = d.cls == href::C_NORM, e_sign = d.neg != 0;
    const int e_fpc = d.cls == href::C_ZERO ? FP_ZERO : d.cls == href::C_SUB ? FP_SUBNORMAL : d.cls == href::C_NORM ? FP_NORMAL : d.cls == href::C_INF ? FP_INFINITE : FP_NAN;
    if (!only && (e_fin != bool(std::isfinite(f)) || e_inf != bool(std::isinf(f)) || e_nan != bool(std::isnan(f)) || e_sign != bool(std::signbit(f))))
        std::printf("@@{\"t\":\"referr\",\"v\":\"classification by definition and float functions disagree on %04x\"}\n", a);
    unsigned packed = 0;
    if (want("isfinite")) { CUR("isfinite"); bool r = half_float::isfinite(h); ++g_eval; packed |= r; if (r != e_fin) fail_bool("isfinite", a, "binary16 class / std::isfinite(float)", e_fin, r); if (g_verbose) std::printf("@@{\"t\":\"res\",\"fn\":\"isfinite\",\"v\":\"%d\"}\n", r); }
    if (want("isinf")) { CUR("isinf"); bool r = half_float::isinf(h); ++g_eval; packed |= r << 1; if (r != e_inf) fail_bool("isinf", a, "binary16 class / std::isinf(float)", e_inf, r); if (g_verbose) std::printf("@@{\"t\":\"res\",\"fn\":\"isinf\",\"v\":\"%d\"}\n", r); }
    if (want("isnan")) { CUR("isnan"); bool r = half_float::isnan(h); ++g_eval; packed |= r << 2; if (r != e_nan) fail_bool("isnan", a, "binary16 class / std::isnan(float)", e_nan, r); if (g_verbose) std::printf("@@{\"t\":\"res\",\"fn\":\"isnan\",\"v\":\"%d\"}\n", r); }
    if (want("isnormal")) { CUR("isnormal"); bool r = half_float::isnormal(h); ++g_eval; packed |= r << 3; if (r != e_norm) fail_bool("isnormal", a, "binary16 class: exponent field in 1..30", e_norm, r); if (g_verbose) std::printf("@@{\"t\":\"res\",\"fn\":\"isnormal\",\"v\":\"%d\"}\n", r); }
    if (want("signbit")) { CUR("signbit"); bool r = half_float::signbit(h); ++g_eval; packed |= r << 4; if (r != e_sign) fail_bool("signbit", a, "sign bit / std::signbit(float)", e_sign, r); if (g_verbose) std::printf("@@{\"t\":\"res\",\"fn\":\"signbit\",\"v\":\"%d\"}\n", r); }
    if (want("fpclassify")) { CUR("fpclassify"); int r = half_float::fpclassify(h); ++g_eval; packed |= unsigned(r & 0xFF) << 8; if (r != e_fpc) fail_bool("fpclassify", a, "FP_* constant of the binary16 class", e_fpc, r); if (g_verbose) std::printf("@@{\"t\":\"res\",\"fn\":\"fpclassify\",\"v\":\"%d\"}\n", r); }
    if (!only) emit1(S_CLASS, packed);
    if (want("neg")) { CUR("neg"); judge_signop("neg", S_NEG, ops_t(a), -f, bits(-h)); }
    if (want("fabs")) { CUR("fabs"); judge_signop("fabs", S_FABS, ops_t(a), std::fabs(f), bits(half_float::fabs(h))); }
    if (want("hash"))
    {
        CUR("hash");
        const size_t h1 = std::hash<H>()(h), h2 = std::hash<H>()(mk(a));
        ++g_eval;
        if (h1 != h2)
            vf::violation(std::string("C08/hash") + g_sfx + "/" + bclass(a) + "/not-a-function", std::string("[") + C08_BUILD + "] std::hash<half> of " + h2s(a) + " gave two different values", RP("hash", {hx(a, 4)}));
        emit1(S_HASH, h1);
        if (g_verbose) std::printf("@@{\"t\":\"res\",\"fn\":\"hash\",\"v\":\"%llx\"}\n", (unsigned long long)h1);
    }
}
static void mode_unary(const std::vector<uint16_t>& alpha)
{
    for (uint16_t a : alpha) one_unary(a);
    flush_streams();
    const uint16_t ex[] = {0x0001, 0x3C01, 0x4248, 0x7BFF, 0x03FF};
    for (uint16_t a : ex)
        std::printf("@@{\"t\":\"xs\",\"k\":\"sqrt/%04x\",\"v\":\"sqrt(%s) == %s ; float(%s) has bits %s\"}\n", a, h2s(a).c_str(), h2s(impl_sqrt(mk(a))).c_str(), hx(a, 4).c_str(), hx(fbits(impl_h2f(a)), 8).c_str());
}

// ------------------------------------------------------------------ pairs
static const char* const cmpname[6] = {"eq", "ne", "lt", "gt", "le", "ge"};
static __attribute__((noinline, cold)) void fail_cmp(int i, uint16_t a, uint16_t b, bool expect, bool got)
{
    if (throttled(cmpname[i], unsigned(DEC[a].cls) | unsigned(DEC[a].neg) << 3 | unsigned(DEC[b].cls) << 4 | unsigned(DEC[b].neg) << 7, int(got))) return;
    static const char* sym[6] = {"==", "!=", "<", ">", "<=", ">="};
    vf::violation(std::string("C08/") + cmpname[i] + g_sfx + "/" + bclass(a) + "," + bclass(b) + "/wrong-result",
                  std::string("[") + BLD() + "] " + h2s(a) + " " + sym[i] + " " + h2s(b) + " returned " + (got ? "true" : "false") + ", the float comparison of the converted operands says " + (expect ? "true" : "false"),
                  RP(cmpname[i], {hx(a, 4), hx(b, 4)}));
}
static __attribute__((noinline, cold)) void fail_hash(uint16_t a, uint16_t b, size_t ha, size_t hb)
{
    vf::violation(std::string("C08/hash") + g_sfx + "/" + bclass(a) + "," + bclass(b) + "/equal-values-hash-differently",
                  std::string("[") + BLD() + "] " + h2s(a) + " == " + h2s(b) + " but std::hash gives " + vf::str(ha) + " and " + vf::str(hb), RP("hashpair", {hx(a, 4), hx(b, 4)}));
}

template <bool ARITH, bool REST>
static inline void one_pair(uint16_t a, uint16_t b, const dec& da, const dec& db)
{
    g_b = b;
    const H x = mk(a), y = mk(b);
    if (ARITH)
    {
        rinfo r0, r1, r2, r3;
        const uint16_t e0 = href::add(da, db, &r0), e1 = href::sub(da, db, &r1), e2 = href::mul(da, db, &r2), e3 = href::div(da, db, &r3);
        CUR("add");
        const uint16_t g0 = impl_add(x, y);
        ASAN_CHECK("add");
        CUR("sub");
        const uint16_t g1 = impl_sub(x, y);
        ASAN_CHECK("sub");
        CUR("mul");
        const uint16_t g2 = impl_mul(x, y);
        ASAN_CHECK("mul");
        CUR("div");
        const uint16_t g3 = impl_div(x, y);
        ASAN_CHECK("div");
        g_eval += 4;
        account(r0, e0);
        account(r1, e1);
        account(r2, e2);
        account(r3, e3);
        if (__builtin_expect(!same_half(e0, g0), 0)) fail_half("add", ops_t(a, b), e0, g0, r0);
        if (__builtin_expect(!same_half(e1, g1), 0)) fail_half("sub", ops_t(a, b), e1, g1, r1);
        if (__builtin_expect(!same_half(e2, g2), 0)) fail_half("mul", ops_t(a, b), e2, g2, r2);
        if (__builtin_expect(!same_half(e3, g3), 0)) fail_half("div", ops_t(a, b), e3, g3, r3);
        emit1(S_ADD, href::canon16(g0));
        emit1(S_SUB, href::canon16(g1));
        emit1(S_MUL, href::canon16(g2));
        emit1(S_DIV, href::canon16(g3));
        if (g_verbose)
            std::printf("@@{\"t\":\"res\",\"fn\":\"add\",\"v\":\"%04x\"}\n@@{\"t\":\"res\",\"fn\":\"sub\",\"v\":\"%04x\"}\n@@{\"t\":\"res\",\"fn\":\"mul\",\"v\":\"%04x\"}\n@@{\"t\":\"res\",\"fn\":\"div\",\"v\":\"%04x\"}\n",
                        href::canon16(g0), href::canon16(g1), href::canon16(g2), href::canon16(g3));
    }
    if (REST)
    {
        const float fa = FLT[a], fb = FLT[b];
        const bool e[6] = {fa == fb, fa != fb, fa < fb, fa > fb, fa <= fb, fa >= fb};
        CUR("cmp");
        const bool g[6] = {x == y, x != y, x < y, x > y, x <= y, x >= y};
        g_eval += 6;
        unsigned packed = 0;
        for (int i = 0; i < 6; ++i)
        {
            packed |= unsigned(g[i]) << i;
            if (__builtin_expect(g[i] != e[i], 0)) fail_cmp(i, a, b, e[i], g[i]);
        }
        emit1(S_CMP, packed);
        if (g_verbose) std::printf("@@{\"t\":\"res\",\"fn\":\"cmp\",\"v\":\"%02x\"}\n", packed);
        if (e[0])
        {
            CUR("hashpair");
            const size_t ha = std::hash<H>()(x), hb = std::hash<H>()(y);
            ++g_eval;
            ++g_hash_eq;
            if (ha != hb) fail_hash(a, b, ha, hb);
        }
        CUR("copysign");
        const uint16_t cs = bits(half_float::copysign(x, y));
        const float fe = std::copysign(fa, fb);
        const uint32_t feb = fbits(fe);
        ++g_eval;
        // fast path of judge_signop
        bool ok;
        if (fnan(feb)) ok = href::is_nan16(cs) && (cs >> 15) == (feb >> 31);
        else ok = href::from_f32_bits(feb) == cs;
        if (__builtin_expect((!ok || g_verbose) && (g_verbose || !throttled("copysign", unsigned(da.cls) | unsigned(da.neg) << 3 | unsigned(db.cls) << 4 | unsigned(db.neg) << 7, 0)), 0))
        {
            g_eval -= 1;
            judge_signop("copysign", S_COPYSIGN, ops_t(a, b), fe, cs);
        }
        else emit(S_COPYSIGN, href::is_nan16(cs) ? uint16_t((cs & 0x8000) | 0x7E00) : cs, cs);
    }
}

// set: 'q' quick, 'f' full, 's' sanitizer sub-alphabet, 'm' A4096 x A4096
static const std::vector<uint16_t>& row_of(char set, uint16_t a, bool& skip)
{
    skip = false;
    if (set == 'f') return A_all;
    if (set == 's') { skip = !in512[a]; return A512; }
    if (set == 'm') { skip = !in4096[a]; return A4096; }   // A4096 x A4096 (the MXCSR flavours)
    if (in512[a]) return A_all;
    if (in4096[a]) return A4096;
    return A512;
}
static void mode_pairs(char set, int shard, int nshard)
{
    g_nargs = 2;
    long long pairs = 0;
    for (unsigned a = 0; a < 65536; ++a)
    {
        if (int(a % unsigned(nshard)) != shard) continue;
        bool skip;
        const std::vector<uint16_t>& row = row_of(set, uint16_t(a), skip);
        if (skip) continue;
        g_a = a;
        const dec da = DEC[a];
        for (uint16_t b : row) one_pair<true, true>(uint16_t(a), b, da, DEC[b]);
        pairs += (long long)row.size();
    }
    vf::stat(std::string("operand_pairs_" C08_BUILD) + g_sfx, pairs);
    flush_streams();
    if (shard == 0)
    {
        const uint16_t ex[][2] = {{0x3C00, 0x0001}, {0x7BFF, 0x0800}, {0x0001, 0x4000}, {0x3555, 0x4200}};
        for (auto& p : ex)
            std::printf("@@{\"t\":\"xs\",\"k\":\"pair/%04x%04x\",\"v\":\"%s + %s == %s ; * == %s ; / == %s ; (a<b) == %d\"}\n", p[0], p[1], h2s(p[0]).c_str(), h2s(p[1]).c_str(),
                        h2s(impl_add(mk(p[0]), mk(p[1]))).c_str(), h2s(impl_mul(mk(p[0]), mk(p[1]))).c_str(), h2s(impl_div(mk(p[0]), mk(p[1]))).c_str(), int(mk(p[0]) < mk(p[1])));
    }
}

// ------------------------------------------------------------------ fma
static inline void one_fma(int sid, uint16_t a, uint16_t b, uint16_t c)
{
    g_c = c;
    rinfo ri;
    const uint16_t e = href::fma(DEC[a], DEC[b], DEC[c], &ri);
    const uint16_t g = impl_fma(mk(a), mk(b), mk(c));
    ASAN_CHECK("fma");
    ++g_eval;
    account(ri, e);
    if (__builtin_expect(!same_half(e, g), 0)) fail_half("fma", ops_t(a, b, c), e, g, ri);
    emit1(sid, href::canon16(g));
    if (g_verbose) std::printf("@@{\"t\":\"res\",\"fn\":\"fma\",\"v\":\"%04x\",\"expect\":\"%04x\"}\n", href::canon16(g), e);
}
static void mode_fma(const std::vector<uint16_t>& F, int shard, int nshard)
{
    g_nargs = 3;
    CUR("fma");
    long long n = 0;
    for (size_t i = 0; i < F.size(); ++i)
    {
        if (int(i % size_t(nshard)) != shard) continue;
        g_a = F[i];
        for (uint16_t b : F)
        {
            g_b = b;
            for (uint16_t c : F) one_fma(S_FMA, F[i], b, c);
            n += (long long)F.size();
        }
    }
    vf::stat(std::string("fma_alphabet_triples_" C08_BUILD) + g_sfx, n);
    flush_streams();
    if (shard == 0)
    {
        const uint16_t ex[][3] = {{0x3C01, 0x3C01, 0xBC02}, {0x3BFF, 0x3BFF, 0x0001}, {0x7BFF, 0x3C01, 0xFBFF}};
        for (auto& p : ex)
            std::printf("@@{\"t\":\"xs\",\"k\":\"fma/%04x\",\"v\":\"fma(%s, %s, %s) == %s\"}\n", p[0], h2s(p[0]).c_str(), h2s(p[1]).c_str(), h2s(p[2]).c_str(), h2s(impl_fma(mk(p[0]), mk(p[1]), mk(p[2]))).c_str());
    }
}
// derived third operands: for every (x, y) of the pair alphabet, z near -round(x*y) (massive cancellation), near +round(x*y),
// and the tie breakers +-min subnormal, +-min normal, +-0
static int derived_z(uint16_t a, uint16_t b, uint16_t* out)
{
    int n = 0;
    const uint16_t fixed[6] = {0x0001, 0x8001, 0x0400, 0x8400, 0x0000, 0x8000};
    for (uint16_t z : fixed) out[n++] = z;
    const uint16_t p = href::mul(DEC[a], DEC[b]);
    if (href::is_nan16(p)) return n;
    const int mag = p & 0x7FFF;
    const uint16_t ns = uint16_t((p & 0x8000) ^ 0x8000), ps = uint16_t(p & 0x8000);
    for (int d = -2; d <= 2; ++d) { int m = mag + d; if (m >= 0 && m <= 0x7C00) out[n++] = uint16_t(ns | m); }
    for (int d = -1; d <= 1; ++d) { int m = mag + d; if (m >= 0 && m <= 0x7C00) out[n++] = uint16_t(ps | m); }
    return n;
}
// pair sets of the derived family: 'q' x in A4096, y in A4096 if x in A512 else A512 ; 't' x any, y any if x in A4096 else A4096 ; 's' A512 x A512
static void mode_fmad(char set, int shard, int nshard)
{
    g_nargs = 3;
    CUR("fma");
    long long n = 0, np = 0;
    uint16_t zs[16];
    const std::vector<uint16_t>& X = set == 't' ? A_all : set == 's' ? A512 : A4096;
    for (size_t i = 0; i < X.size(); ++i)
    {
        if (int(i % size_t(nshard)) != shard) continue;
        const uint16_t a = X[i];
        g_a = a;
        const std::vector<uint16_t>& Y = set == 't' ? (in4096[a] ? A_all : A4096) : set == 's' ? A512 : (in512[a] ? A4096 : A512);
        for (uint16_t b : Y)
        {
            g_b = b;
            const int k = derived_z(a, b, zs);
            for (int j = 0; j < k; ++j) one_fma(S_FMAD, a, b, zs[j]);
            n += k;
        }
        np += (long long)Y.size();
    }
    vf::stat(std::string("fma_derived_triples_" C08_BUILD) + g_sfx, n);
    vf::stat(std::string("fma_derived_pairs_" C08_BUILD) + g_sfx, np);
    flush_streams();
}

// ------------------------------------------------------------------ mixed operands: half op T and T op half (operator templates), compound assignment
// For every T of the list, every half a (all 65536) and every t of T's alphabet (values exactly representable in binary16, so
// static_cast<half>(t) is exact and equals the half ht the alphabet was built from):
//   a + t, t + a, a - t, t - a, a * t, t * a, a / t, t / a        -> the reference operation on (a, ht) resp. (ht, a), bit for bit
//   a += t, a -= t, a *= t, a /= t                                 -> the same
//   a == t, t == a, != < > <= >= in both orders                    -> the float comparison of the converted values
#define MIXED_TYPES(X) \
    X(float, "float") X(double, "double") X(long double, "long_double") X(int, "int") X(long, "long") X(long long, "long_long") \
    X(unsigned, "unsigned") X(unsigned long, "unsigned_long") X(short, "short") X(unsigned short, "unsigned_short") \
    X(signed char, "signed_char") X(unsigned char, "unsigned_char") X(char, "char") X(bool, "bool") X(H, "half")
static const int N_MIXED_TYPES = 15;

template <class T> struct mixed_conv
{
    static T from(uint16_t ht) { return static_cast<T>(href::to_double(ht)); }
    static bool usable(uint16_t ht)
    {
        if (href::is_nan16(ht)) return std::is_floating_point<T>::value;
        const double v = href::to_double(ht);
        if (!std::is_floating_point<T>::value)
        {
            if (href::is_inf16(ht) || v != std::floor(v)) return false;
            if (v < double(std::numeric_limits<T>::lowest()) || v > double(std::numeric_limits<T>::max())) return false;
        }
        const T t = static_cast<T>(v);
        return href::from_double(double(t)) == ht && (std::is_floating_point<T>::value || ht != 0x8000);   // exact round trip (no -0 for integers)
    }
};
template <> struct mixed_conv<H>
{
    static H from(uint16_t ht) { return mk(ht); }
    static bool usable(uint16_t) { return true; }
};

static std::vector<uint16_t> mixed_candidates()
{
    std::vector<uint16_t> v = {0x0000, 0x8000, 0x0001, 0x8001, 0x03FF, 0x83FF, 0x0400, 0x8400, 0x3800, 0xB800, 0x3C00, 0xBC00, 0x3C01, 0xBC01, 0x4000, 0xC000,
                               0x4200, 0xC200, 0x3555, 0xB555, 0x7BFF, 0xFBFF, 0x7C00, 0xFC00, 0x7E00, 0xFE00, 0x7D00};
    const long long ints[] = {3, 7, 127, 128, 255, 256, 1024, 2047, 2048, 32768, 65504};
    for (long long i : ints)
        for (int sgn = 0; sgn < 2; ++sgn)
        {
            const uint16_t h = href::from_int(sgn ? -i : i);
            bool dup = false;
            for (uint16_t x : v) dup |= (x == h);
            if (!dup && href::to_double(h) == double(sgn ? -i : i)) v.push_back(h);
        }
    return v;
}

enum { MX_ADD_HT, MX_ADD_TH, MX_SUB_HT, MX_SUB_TH, MX_MUL_HT, MX_MUL_TH, MX_DIV_HT, MX_DIV_TH, MX_ADDA, MX_SUBA, MX_MULA, MX_DIVA,
       MX_CMP_HT, MX_CMP_TH = MX_CMP_HT + 6, MX_NFN = MX_CMP_TH + 6 };
struct mixed_names
{
    std::string n[MX_NFN];
    explicit mixed_names(const char* T)
    {
        const std::string t = T;
        const char* ar[4] = {"add", "sub", "mul", "div"};
        for (int i = 0; i < 4; ++i)
        {
            n[MX_ADD_HT + 2 * i] = std::string(ar[i]) + "(half," + t + ")";
            n[MX_ADD_TH + 2 * i] = std::string(ar[i]) + "(" + t + ",half)";
            n[MX_ADDA + i] = std::string(ar[i]) + "_assign(half," + t + ")";
        }
        for (int i = 0; i < 6; ++i)
        {
            n[MX_CMP_HT + i] = std::string(cmpname[i]) + "(half," + t + ")";
            n[MX_CMP_TH + i] = std::string(cmpname[i]) + "(" + t + ",half)";
        }
    }
};
static __attribute__((noinline, cold)) void fail_cmp_mixed(const char* fn, uint16_t first, uint16_t second, bool expect, bool got)
{
    if (throttled(fn, unsigned(DEC[first].cls) | unsigned(DEC[first].neg) << 3 | unsigned(DEC[second].cls) << 4 | unsigned(DEC[second].neg) << 7, int(got))) return;
    // coarse operand class (the type is already in the function name): one bug should not produce hundreds of signatures
    const float f1 = FLT[first], f2 = FLT[second];
    const char* cls = (f1 != f1 || f2 != f2) ? "nan-operand" : (f1 == 0 && f2 == 0) ? "both-zero" : f1 == f2 ? "equal" : f1 < f2 ? "less" : "greater";
    vf::violation(std::string("C08/") + fn + g_sfx + "/" + cls + "/wrong-result",
                  std::string("[") + BLD() + "] " + fn + " on operands " + h2s(first) + ", " + h2s(second) + " (the non-half operand holds exactly that value) returned " + (got ? "true" : "false") +
                      ", the float comparison of the converted operands says " + (expect ? "true" : "false"),
                  RP(fn, {hx(first, 4), hx(second, 4)}));
}

// only: nullptr = everything, else the one function name to evaluate (replay)
template <class T>
static void one_mixed(const mixed_names& N, uint16_t a, uint16_t ht, const char* only)
{
    const H x = mk(a);
    const T t = mixed_conv<T>::from(ht);
    const dec &da = DEC[a], &dt = DEC[ht];
    auto want = [&](int f) { return !only || N.n[f] == only; };
    auto judge = [&](int f, bool t_first, uint16_t e, const rinfo& ri, uint16_t g) {
        ++g_eval;
        account(ri, e);
        if (__builtin_expect(!same_half(e, g), 0)) { if (t_first) fail_half(N.n[f].c_str(), ops_t(ht, a), e, g, ri); else fail_half(N.n[f].c_str(), ops_t(a, ht), e, g, ri); }
        emit1(S_MIXED, href::canon16(g));
        if (g_verbose) std::printf("@@{\"t\":\"res\",\"fn\":\"%s\",\"v\":\"%04x\",\"expect\":\"%04x\"}\n", N.n[f].c_str(), href::canon16(g), e);
    };
#define MX_ARITH(F_HT, F_TH, F_A, REF, OP)                                                                                      \
    if (want(F_HT)) { g_a = a; g_b = ht; CUR(N.n[F_HT].c_str()); rinfo ri; const uint16_t e = href::REF(da, dt, &ri); judge(F_HT, false, e, ri, bits(x OP t)); } \
    if (want(F_TH)) { g_a = ht; g_b = a; CUR(N.n[F_TH].c_str()); rinfo ri; const uint16_t e = href::REF(dt, da, &ri); judge(F_TH, true, e, ri, bits(t OP x)); }  \
    if (want(F_A)) { g_a = a; g_b = ht; CUR(N.n[F_A].c_str()); rinfo ri; const uint16_t e = href::REF(da, dt, &ri); H y = x; y OP## = t; judge(F_A, false, e, ri, bits(y)); }
    MX_ARITH(MX_ADD_HT, MX_ADD_TH, MX_ADDA, add, +)
    MX_ARITH(MX_SUB_HT, MX_SUB_TH, MX_SUBA, sub, -)
    MX_ARITH(MX_MUL_HT, MX_MUL_TH, MX_MULA, mul, *)
    MX_ARITH(MX_DIV_HT, MX_DIV_TH, MX_DIVA, div, /)
#undef MX_ARITH
    const float fa = FLT[a], ft = FLT[ht];
    const bool e_ht[6] = {fa == ft, fa != ft, fa < ft, fa > ft, fa <= ft, fa >= ft};
    const bool e_th[6] = {ft == fa, ft != fa, ft < fa, ft > fa, ft <= fa, ft >= fa};
    bool any = !only;
    for (int i = 0; i < 6 && !any; ++i) any = want(MX_CMP_HT + i) || want(MX_CMP_TH + i);
    if (any)
    {
        g_a = a; g_b = ht;
        CUR(N.n[MX_CMP_HT].c_str());
        const bool g_ht[6] = {x == t, x != t, x < t, x > t, x <= t, x >= t};
        g_a = ht; g_b = a;
        CUR(N.n[MX_CMP_TH].c_str());
        const bool g_th[6] = {t == x, t != x, t < x, t > x, t <= x, t >= x};
        unsigned packed = 0;
        for (int i = 0; i < 6; ++i)
        {
            packed |= unsigned(g_ht[i]) << i | unsigned(g_th[i]) << (6 + i);
            if (want(MX_CMP_HT + i))
            {
                ++g_eval;
                if (__builtin_expect(g_ht[i] != e_ht[i], 0)) fail_cmp_mixed(N.n[MX_CMP_HT + i].c_str(), a, ht, e_ht[i], g_ht[i]);
                if (g_verbose) std::printf("@@{\"t\":\"res\",\"fn\":\"%s\",\"v\":\"%d\"}\n", N.n[MX_CMP_HT + i].c_str(), int(g_ht[i]));
            }
            if (want(MX_CMP_TH + i))
            {
                ++g_eval;
                if (__builtin_expect(g_th[i] != e_th[i], 0)) fail_cmp_mixed(N.n[MX_CMP_TH + i].c_str(), ht, a, e_th[i], g_th[i]);
                if (g_verbose) std::printf("@@{\"t\":\"res\",\"fn\":\"%s\",\"v\":\"%d\"}\n", N.n[MX_CMP_TH + i].c_str(), int(g_th[i]));
            }
        }
        if (!only) emit1(S_MIXED, packed);
    }
}
template <class T>
static void mixed_type_run(const char* tn, const std::vector<uint16_t>& halves)
{
    static const mixed_names N(tn);   // static: the names are referenced by g_fn / the throttle table for the whole run
    g_nargs = 2;
    std::vector<uint16_t> alpha;
    for (uint16_t h : mixed_candidates()) if (mixed_conv<T>::usable(h)) alpha.push_back(h);
    for (uint16_t ht : alpha)
        for (uint16_t a : halves) one_mixed<T>(N, a, ht, nullptr);
    vf::stat(std::string("mixed_operand_pairs_" C08_BUILD) + g_sfx, (long long)alpha.size() * (long long)halves.size());
    vf::note(std::string("mixed operands: T = ") + tn + " with " + vf::str(alpha.size()) + " values exactly representable in binary16");
}
static void mode_mixed(int shard, int nshard, const std::vector<uint16_t>& halves)
{
    int idx = 0;
#define X(T, NAME) if (idx++ % nshard == shard) mixed_type_run<T>(NAME, halves);
    MIXED_TYPES(X)
#undef X
    flush_streams();
    if (shard == 0)
        std::printf("@@{\"t\":\"xs\",\"k\":\"mixed/0\",\"v\":\"2.0f - half(0x4000) == %s ; half(0x7e00) <= 1.0 == %d ; 3 * half(0x3555) == %s\"}\n", h2s(bits(2.0f - mk(0x4000))).c_str(), int(mk(0x7E00) <= 1.0),
                    h2s(bits(3 * mk(0x3555))).c_str());
}
// replay: fn = "sub(float,half)" etc.; operands in call order
static bool run_one_mixed(const std::string& fn, uint32_t first, uint32_t second)
{
    const size_t lp = fn.find('('), cm = fn.find(','), rp = fn.find(')');
    if (lp == std::string::npos || cm == std::string::npos || rp == std::string::npos) return false;
    const std::string p1 = fn.substr(lp + 1, cm - lp - 1), p2 = fn.substr(cm + 1, rp - cm - 1);
    const bool t_first = (p2 == "half" && p1 != "half");
    const std::string tn = t_first ? p1 : p2;
    const uint16_t a = uint16_t(t_first ? second : first), ht = uint16_t(t_first ? first : second);
    bool done = false;
#define X(T, NAME) if (!done && tn == NAME) { static const mixed_names N(NAME); g_nargs = 2; one_mixed<T>(N, a, ht, fn.c_str()); done = true; }
    MIXED_TYPES(X)
#undef X
    return done;
}

// ------------------------------------------------------------------ NaN / infinity boundary family (double -> half and float -> half)
// "NaN-to-NaN" and "infinity stays infinity" for every entry point that takes a double or a float. Inputs: both signs, exponent
// field all ones, a structured set of mantissa patterns. Oracle: mantissa == 0 -> exactly +-inf; otherwise a half NaN
// (exponent all ones, mantissa != 0) with the sign of the operand. Rounding of finite doubles is NOT judged here (see mode_info).
NOINL static uint16_t impl_d2h_cast(double d) { return bits(half_float::half_cast<H>(d)); }
NOINL static uint16_t impl_d2h_cast_rn(double d) { return bits(half_float::half_cast<H, std::round_to_nearest>(d)); }
NOINL static uint16_t impl_d2h_ctor(double d) { H h(d); return bits(h); }
NOINL static uint16_t impl_d2h_assign(double d) { H h; h = d; return bits(h); }
static inline double mkd(uint64_t b) { double d; std::memcpy(&d, &b, 8); return d; }

static std::vector<uint64_t> nan_mantissas(int mbits)
{
    std::vector<uint64_t> v;
    const uint64_t all = (1ull << mbits) - 1, quiet = 1ull << (mbits - 1);
    auto add = [&](uint64_t m) { m &= all; for (uint64_t x : v) if (x == m) return; v.push_back(m); };
    add(0);                                                    // infinity
    for (int i = 0; i < mbits; ++i) add(1ull << i);            // every single mantissa bit
    for (int i = 0; i < mbits; ++i) for (int j = i + 1; j < mbits; ++j) add((1ull << i) | (1ull << j));   // every pair of bits
    add(all); add(all ^ quiet); add(all >> 1); add(all >> 2);
    if (mbits == 52)
    {
        const uint64_t low[] = {1, 2, 0xFFFFFFFFull, 0x12345678ull, 0x80000000ull, 0x0000FFFFull, 0xFFFF0000ull, 0xAAAAAAAAull, 0x55555555ull, 0x7FFFFFFFull, 0xDEADBEEFull};
        const uint64_t high[] = {0x00001, 0x00002, 0x003FF, 0x00400, 0x40000, 0x7FFFF, 0x12345, 0xAAAAA & 0x7FFFF, 0x55555, 0x3FC00};   // upper 20 bits, quiet bit clear
        for (uint64_t l : low) { add(l); add(quiet | l); }                                  // low word only, quiet bit off / on
        for (uint64_t h : high) { add(h << 32); add(quiet | (h << 32)); }                   // high word only
        for (uint64_t l : low) for (uint64_t h : high) { add((h << 32) | l); add(quiet | (h << 32) | l); }
        // the half keeps the top 10 mantissa bits: patterns just below / at that boundary
        for (int i = 40; i <= 43; ++i) { add((1ull << i) - 1); add(quiet | ((1ull << i) - 1)); }
    }
    else
    {
        const uint64_t pat[] = {0x1FFF, 0x2000, 0x0FFF, 0x1000, 0x123456, 0x2AAAAA, 0x155555, 0x3FFFFF, 0x00FFFF, 0x3F0000};
        for (uint64_t x : pat) { add(x); add(quiet | x); }
    }
    return v;
}
static const char* payload_class(uint64_t m, int mbits)
{
    if (m == 0) return "inf";
    const bool q = (m >> (mbits - 1)) & 1;
    if (mbits == 52)
    {
        const bool lo = (m & 0xFFFFFFFFull) != 0, hi = ((m >> 32) & 0x7FFFF) != 0;
        if (q) return lo && !hi ? "qnan:low-word-payload" : "qnan";
        return lo && !hi ? "snan:low-word-only" : hi && !lo ? "snan:high-word-only" : "snan:both-words";
    }
    if (q) return "qnan";
    return (m >> 13) ? "snan:payload-in-kept-bits" : "snan:payload-only-in-dropped-bits";
}
static void judge_nanfam(const char* fn, int sid, bool is_double, uint64_t in, uint16_t got)
{
    const int mbits = is_double ? 52 : 23;
    const uint64_t m = in & ((1ull << mbits) - 1);
    const unsigned sign = unsigned(in >> (is_double ? 63 : 31)) & 1u;
    ++g_eval;
    const uint16_t e = uint16_t((sign << 15) | (m ? 0x7E00 : 0x7C00));
    const bool ok = m ? (href::is_nan16(got) && unsigned(got >> 15) == sign) : (got == e);
    if (!ok)
    {
        const char* kind = m ? (href::is_nan16(got) ? "nan-sign-lost" : href::is_inf16(got) ? "nan-became-infinity" : "nan-became-finite") : "infinity-not-preserved";
        const std::string arg = hx(in, is_double ? 16 : 8);
        vf::violation(std::string("C08/") + fn + "." C08_PATH + g_sfx + "/" + payload_class(m, mbits) + "/" + kind,
                      std::string("[") + BLD() + "] " + fn + "(" + (is_double ? "double " : "float ") + arg + ", " + (m ? "a NaN" : "an infinity") + ") returned " + h2s(got) + ", expected " +
                          (m ? std::string("a half NaN with sign bit ") + (sign ? "1" : "0") : h2s(e)),
                      RP(fn, {arg}));
    }
    const uint16_t canon = href::is_nan16(got) ? uint16_t((got & 0x8000) | 0x7E00) : got;
    emit(sid, canon, got);
    if (g_verbose) std::printf("@@{\"t\":\"res\",\"fn\":\"%s\",\"v\":\"%04x\"}\n", fn, canon);
}
// Double sources in general. Exponent field all ones: the NaN/infinity oracle above. Finite doubles: the VALUE is not judged
// (DESIGN.md: the statement promises correct rounding for float sources; the converting constructor documents double rounding
// through float) - the result goes into the digest stream of its entry point, and the software and the F16C build must agree
// on it bit for bit ("all results are bit-identical whether or not the F16C hardware path is compiled in"). Agreement with the
// single correctly rounded value is counted as information.
NOINL static uint16_t impl_ld2h_cast(long double d) { return bits(half_float::half_cast<H>(d)); }
NOINL static uint16_t impl_i2h_cast(int v) { return bits(half_float::half_cast<H>(v)); }
NOINL static uint16_t impl_i2h_ctor(int v) { H h(v); return bits(h); }
NOINL static uint16_t impl_ll2h_cast(long long v) { return bits(half_float::half_cast<H>(v)); }
static long long g_pathonly = 0;                 // results judged by the software-vs-F16C comparison only
static long long g_dinfo_cnt[5] = {0, 0, 0, 0, 0}, g_dinfo_bad[5] = {0, 0, 0, 0, 0};
static inline void judge_dbl(const char* fn, int sid, int slot, uint64_t in, bool special, uint16_t single, uint16_t got)
{
    if (special) { judge_nanfam(fn, sid, true, in, got); return; }
    ++g_eval;
    ++g_pathonly;
    ++g_dinfo_cnt[slot];
    g_dinfo_bad[slot] += (single != got);
    emit(sid, href::canon16(got), got);
    if (g_verbose) std::printf("@@{\"t\":\"res\",\"fn\":\"%s\",\"v\":\"%04x\",\"single_rounding\":\"%04x\"}\n", fn, href::canon16(got), single);
}
// with_ld: also half_cast<half>(long double) on the same value (every double is a long double)
static void one_double(uint64_t b, const char* only = nullptr, bool with_ld = false)
{
    g_a64 = b;
    g_a = uint32_t(b);
    g_nargs = 1;
    const double d = mkd(b);
    const bool special = ((b >> 52) & 0x7FFu) == 0x7FFu;
    const uint16_t single = special ? uint16_t(0) : href::from_f64_bits(b);
    auto want = [&](const char* fn) { return !only || std::strcmp(only, fn) == 0; };
    if (want("double2half_cast")) { CUR("double2half_cast"); judge_dbl("double2half_cast", S_NF_D_CAST, 0, b, special, single, impl_d2h_cast(d)); ASAN_CHECK("double2half_cast"); }
    if (want("double2half_cast_rn")) { CUR("double2half_cast_rn"); judge_dbl("double2half_cast_rn", S_NF_D_CAST_RN, 1, b, special, single, impl_d2h_cast_rn(d)); }
    if (want("double2half_ctor")) { CUR("double2half_ctor"); judge_dbl("double2half_ctor", S_NF_D_CTOR, 2, b, special, single, impl_d2h_ctor(d)); }
    if (want("double2half_assign")) { CUR("double2half_assign"); judge_dbl("double2half_assign", S_NF_D_ASSIGN, 3, b, special, single, impl_d2h_assign(d)); }
    if (only ? std::strcmp(only, "longdouble2half_cast") == 0 : with_ld)
    {
        CUR("longdouble2half_cast");
        judge_dbl("longdouble2half_cast", S_LD2H_CAST, 4, b, special, single, impl_ld2h_cast(static_cast<long double>(d)));
    }
}
// integer sources: value not judged (DESIGN.md), software vs F16C only
static void one_int(long long v, const char* only = nullptr)
{
    g_a64 = uint64_t(v);
    g_a = uint32_t(v);
    g_nargs = 1;
    auto want = [&](const char* fn) { return !only || std::strcmp(only, fn) == 0; };
    auto put = [&](const char* fn, int sid, uint16_t got) {
        ++g_eval;
        ++g_pathonly;
        emit(sid, href::canon16(got), got);
        if (g_verbose) std::printf("@@{\"t\":\"res\",\"fn\":\"%s\",\"v\":\"%04x\"}\n", fn, href::canon16(got));
    };
    if (v >= -2147483647LL && v <= 2147483647LL)
    {
        if (want("int2half_cast")) { CUR("int2half_cast"); put("int2half_cast", S_I2H_CAST, impl_i2h_cast(int(v))); }
        if (want("int2half_ctor")) { CUR("int2half_ctor"); put("int2half_ctor", S_I2H_CTOR, impl_i2h_ctor(int(v))); }
    }
    if (want("longlong2half_cast")) { CUR("longlong2half_cast"); put("longlong2half_cast", S_LL2H_CAST, impl_ll2h_cast(v)); }
}

// ------------------------------------------------------------------ cast family (mode casts): finite double / long double / integer sources
// Anchors: every finite non-negative binary16 value V(h) (h = 0..0x7BFF), 2^16, and every rounding midpoint M(h) between h and
// its successor (M(0) = 2^-25 is the underflow threshold, M(0x7BFF) = 65520 the overflow threshold), as exact doubles built
// with integer arithmetic. Around every anchor, in units of the anchor's double ulp (offsets applied to the bit pattern):
//   0 and +-(2^j + d), j = 0..J-1, d in {-1, 0, +1}        quick J = 44 (bit 41 is the half's guard bit for normal results,
//                                                           bit 28 the float's: both double-rounding boundaries are inside)
//   thorough: J = 52 and additionally +-(2^i + 2^j), i < j < 44
// x both signs. These doubles are NOT floats (except offset 0 and the large offsets): a sweep of the 2^32 floats never sees them.
// Exponent sweep: sign x every finite exponent field 0..2046 (double subnormals, the float underflow and overflow thresholds,
// DBL_MAX) x 27 mantissa patterns. long double sources: every anchor x offsets {0, +-1, +-2^28, +-2^32}, and the exponent
// sweep. Integer sources: every int in [-65600, 65600] and +-(2^k + d), k = 17..30 (int) / 17..62 (long long).
static inline uint64_t dbl_bits_of(uint64_t n, int e2)   // n * 2^e2 as a (normal) double, n > 0 with at most 53 bits
{
    const int p = href::msb64(n);
    return (uint64_t(p + e2 + 1023) << 52) | ((n << (52 - p)) & 0xFFFFFFFFFFFFFull);
}
static std::vector<uint64_t> cast_offsets(char set)
{
    std::vector<uint64_t> v;
    auto add = [&](uint64_t o) { if (!o) return; for (uint64_t x : v) if (x == o) return; v.push_back(o); };
    const int J = set == 't' ? 52 : 44;
    for (int j = 0; j < J; ++j) { add((1ull << j) - 1); add(1ull << j); add((1ull << j) + 1); }
    if (set == 't')
        for (int i = 0; i < 44; ++i) for (int j = i + 1; j < 44; ++j) add((1ull << i) | (1ull << j));
    return v;
}
static void mode_casts(char set, int shard, int nshard)
{
    const std::vector<uint64_t> off = cast_offsets(set);
    const uint64_t ldoff[3] = {1, 1ull << 28, 1ull << 32};
    long long nd = 0, nld = 0, nsweep = 0, nint = 0;
    for (unsigned h = 0; h <= 0x7C00; ++h)
    {
        if (int(h % unsigned(nshard)) != shard) continue;
        if (set == 's' && !in512[h] && h != 0x7C00) continue;
        const dec d = DEC[h];
        uint64_t anchor[2];
        int na = 0;
        anchor[na++] = (h == 0x7C00) ? dbl_bits_of(1, 16) : href::to_f64_bits(uint16_t(h));
        if (h != 0x7C00) anchor[na++] = dbl_bits_of(2ull * d.m + 1, d.e - 1);
        for (int k = 0; k < na; ++k)
            for (uint64_t sgn = 0; sgn < 2; ++sgn)
            {
                const uint64_t B = anchor[k], S = sgn << 63;
                one_double(S | B, nullptr, true);
                ++nd; ++nld;
                for (uint64_t o : off)
                {
                    one_double(S | (B + o));
                    ++nd;
                    if (B >= o) { one_double(S | (B - o)); ++nd; }
                }
                for (uint64_t o : ldoff)
                {
                    one_double(S | (B + o), "longdouble2half_cast");
                    ++nld;
                    if (B >= o) { one_double(S | (B - o), "longdouble2half_cast"); ++nld; }
                }
            }
    }
    if (shard == 0)
    {
        const uint64_t all = 0xFFFFFFFFFFFFFull;
        const uint64_t pat[] = {0, 1, 2, all, all - 1, 1ull << 51, (1ull << 51) - 1, (1ull << 51) + 1, 1ull << 41, (1ull << 41) - 1, (1ull << 41) + 1,
                                1ull << 42, (1ull << 42) - 1, (1ull << 42) + 1, 1ull << 28, (1ull << 28) - 1, (1ull << 28) + 1, 1ull << 29, (1ull << 29) - 1, (1ull << 29) + 1,
                                1ull << 32, (1ull << 32) - 1, (1ull << 32) + 1, all ^ 0xFFFFFFFFull, all ^ ((1ull << 42) - 1), all ^ ((1ull << 29) - 1), 0x5555555555555ull};
        for (uint64_t sgn = 0; sgn < 2; ++sgn)
            for (uint64_t field = 0; field < 2047; ++field)
                for (uint64_t m : pat) { one_double((sgn << 63) | (field << 52) | m, nullptr, true); ++nsweep; }
        for (long long v = -65600; v <= 65600; ++v) { one_int(v); ++nint; }
        for (int k = 17; k <= 62; ++k)
            for (long long dd = -1; dd <= 1; ++dd) { one_int((1LL << k) + dd); one_int(-((1LL << k) + dd)); nint += 2; }
    }
    const std::string sfx = std::string(C08_BUILD) + g_sfx;
    vf::stat("cast_family_doubles_" + sfx, nd);
    vf::stat("cast_family_long_doubles_" + sfx, nld + nsweep);
    if (nsweep) vf::stat("cast_family_exponent_sweep_doubles_" + sfx, nsweep);
    if (nint) vf::stat("cast_family_integers_" + sfx, nint);
    vf::stat("results_judged_by_path_equality_only_" + sfx, g_pathonly);
    if (g_sfx.empty())
    {
        // information only, never a violation: agreement of the finite double results with the single correctly rounded value
        static const char* const nm[5] = {"double2half_cast", "double2half_cast_rn", "double2half_ctor", "double2half_assign", "longdouble2half_cast"};
        for (int i = 0; i < 5; ++i)
        {
            vf::stat(std::string("info_") + nm[i] + "_finite_sources_" C08_BUILD, g_dinfo_cnt[i]);
            vf::stat(std::string("info_") + nm[i] + "_differs_from_single_rounding_" C08_BUILD, g_dinfo_bad[i]);
        }
    }
    flush_streams();
    if (shard == 0)
        std::printf("@@{\"t\":\"xs\",\"k\":\"casts/0\",\"v\":\"half_cast<half>(double 0x3e60000000000001 = 2^-25 + 1 double ulp) == %s ; half_cast<half>(double 0x40effdffffffffff = 65520 - 1 double ulp) == %s ; half(double 0x3e60000000000001) == %s [" C08_BUILD "]\"}\n",
                    h2s(impl_d2h_cast(mkd(0x3E60000000000001ull))).c_str(), h2s(impl_d2h_cast(mkd(0x40EFFDFFFFFFFFFFull))).c_str(), h2s(impl_d2h_ctor(mkd(0x3E60000000000001ull))).c_str());
}

static void one_nan_float(uint32_t b, const char* only = nullptr)
{
    g_a = b;
    g_nargs = 1;
    const float f = mkf(b);
    auto want = [&](const char* fn) { return !only || std::strcmp(only, fn) == 0; };
    if (want("float2half_nan_ctor")) { CUR("float2half_nan_ctor"); judge_nanfam("float2half_nan_ctor", S_NF_F_CTOR, false, b, impl_f2h_ctor(f)); }
    if (want("float2half_nan_assign")) { CUR("float2half_nan_assign"); judge_nanfam("float2half_nan_assign", S_NF_F_ASSIGN, false, b, impl_f2h_assign(f)); }
    if (want("float2half_nan_cast")) { CUR("float2half_nan_cast"); judge_nanfam("float2half_nan_cast", S_NF_F_CAST, false, b, impl_f2h_cast(f)); }
}
static void mode_nanfam()
{
    const std::vector<uint64_t> md = nan_mantissas(52), mf = nan_mantissas(23);
    for (uint64_t sgn = 0; sgn < 2; ++sgn)
        for (uint64_t m : md) one_double((sgn << 63) | (0x7FFull << 52) | m, nullptr, true);
    for (uint32_t sgn = 0; sgn < 2; ++sgn)
        for (uint64_t m : mf) one_nan_float((sgn << 31) | 0x7F800000u | uint32_t(m));
    vf::stat(std::string("nan_inf_family_doubles_" C08_BUILD) + g_sfx, 2 * (long long)md.size());
    vf::stat(std::string("nan_inf_family_floats_" C08_BUILD) + g_sfx, 2 * (long long)mf.size());
    flush_streams();
    std::printf("@@{\"t\":\"xs\",\"k\":\"nanfam/0\",\"v\":\"half_cast<half>(double 0x7ff0000000000001, signalling NaN with a low-word-only payload) == %s ; half_cast<half>(double 0xfff0000000000000) == %s\"}\n",
                h2s(impl_d2h_cast(mkd(0x7FF0000000000001ull))).c_str(), h2s(impl_d2h_cast(mkd(0xFFF0000000000000ull))).c_str());
}

// ------------------------------------------------------------------ source-type family (mode srcty): long double sources, JUDGED
// Added for seeded change C08-12 (generic float2half_impl splits the scaled long double in double precision: sticky bits below
// the 53rd significand bit are lost). The dimension is the SOURCE TYPE of the conversion to half: every arithmetic type the API
// accepts besides float and double takes the generic routine float2half_impl(T, ...) - on this platform that is long double -
// and that routine was never fed a value that a double cannot hold.
// Long doubles (x87 80-bit: sign, 15-bit exponent field E, 64-bit significand with explicit integer bit) are built from bit
// patterns; nothing is computed in floating point on the way in.
//   anchors: every finite non-negative binary16 value V(h), 2^16, every rounding midpoint M(h) (2^-25 ... 65520): 63 489
//   around every anchor, in ulps of the 64-bit significand: 0 and +-(2^j + d), d in {-1,0,+1}
//     quick    j in {0..13 (below and at the 53-bit boundary: 2^10 = half a double ulp, 2^11 = one double ulp), 30..33 (32-bit word
//              boundary), 38..42 (2^39 = half a float ulp, 2^40 = one float ulp), 50..53 (2^52 = half a binary16 ulp)}
//     thorough j = 0..61
//   x both signs; plus sign x EVERY exponent field 0..32767 x boundary significands (long double subnormals, infinities, NaNs).
// Oracle (independent of the library): the long double's own bit pattern decoded to an exact integer significand * 2^e and
// rounded once to nearest-even by href::round_mag (the routine every other C08 oracle uses); checked on every case against a
// second, purely order-based definition of round-to-nearest-even: |x| must lie between the midpoints below and above the expected
// half (exact long double comparisons with a table of the 31 744 midpoints), on a midpoint only if the expected half is even.
// Entry points: half_cast<half>(long double), half_cast<half,std::round_to_nearest>(long double), operator"" _h(long double)
// (all three: single rounding), half(long double), operator=(long double), long double * half(1) (documented: through
// static_cast<float>; oracle = round to 24 bits nearest-even, then to binary16; not judged under a directed dynamic rounding mode,
// where the language makes static_cast<float> follow the mode - there they only take part in the sw-vs-F16C comparison).
// Integer sources (int2half) are NOT part of this family: the statement promises the rounding of floating sources only.
typedef long double LD;
static_assert(std::numeric_limits<LD>::digits == 64 && sizeof(LD) >= 10, "the long double family is written for the x87 80-bit format");
static inline LD mkld(unsigned se, uint64_t sig)
{
    unsigned char b[sizeof(LD)];
    std::memset(b, 0, sizeof b);
    std::memcpy(b, &sig, 8);
    const uint16_t w = uint16_t(se);
    std::memcpy(b + 8, &w, 2);
    LD v;
    std::memcpy(&v, b, sizeof v);
    return v;
}
NOINL static uint16_t impl_ldf_cast(LD d) { return bits(half_float::half_cast<H>(d)); }
NOINL static uint16_t impl_ldf_cast_rn(LD d) { return bits(half_float::half_cast<H, std::round_to_nearest>(d)); }
NOINL static uint16_t impl_ldf_lit(LD d) { return bits(half_float::literal::operator"" _h(d)); }
NOINL static uint16_t impl_ldf_ctor(LD d) { H h(d); return bits(h); }
NOINL static uint16_t impl_ldf_assign(LD d) { H h; h = d; return bits(h); }
NOINL static uint16_t impl_ldf_mul1(LD d) { return bits(d * mk(0x3C00)); }

enum { SRC_CAST = 1, SRC_CTOR = 2, SRC_THIN = 4, SRC_ALL = 7 };
static std::vector<LD> MIDL;          // MIDL[a] = midpoint between the halves a and a+1 (a = 0..0x7BFF), exact
static long long g_ld_cases = 0;

struct ldref
{
    uint16_t single, viafloat;
    rinfo ri;
    bool special, nan;
};
static void ld_oracle(unsigned se, uint64_t sig, ldref& o)
{
    const bool neg = ((se >> 15) & 1u) != 0;
    const unsigned E = se & 0x7FFFu;
    const uint16_t s = neg ? 0x8000 : 0;
    o.special = o.nan = false;
    if (E == 0x7FFFu)
    {
        o.special = true;
        o.ri.special = true;
        o.nan = (sig << 1) != 0;
        o.single = o.viafloat = uint16_t(s | (o.nan ? 0x7E00 : 0x7C00));
        return;
    }
    if (sig == 0) { o.single = o.viafloat = s; o.ri.exact_zero = true; o.ri.res_sub = true; return; }
    const int e2 = int(E ? E : 1u) - 16383 - 63, p = href::msb64(sig), ex = p + e2;
    if (ex >= 17) { o.single = o.viafloat = uint16_t(s | 0x7C00); o.ri.inexact = true; o.ri.overflow = true; return; }
    if (ex < -27) { o.single = o.viafloat = s; o.ri.inexact = true; o.ri.res_sub = true; return; }   // |x| < 2^-26: below half of the smallest subnormal, also after a rounding to float
    o.single = href::round_mag<href::u128>(neg, href::u128(sig), e2, false, &o.ri);
    // through float: 2^-27 <= |x| < 2^17 is the float-normal range, 24 significant bits, nearest-even; then once more to binary16
    const int sh = p - 23;
    uint64_t n = sig;
    int fe = e2;
    if (sh > 0)
    {
        n = sig >> sh;
        const uint64_t rem = sig & ((1ull << sh) - 1), half = 1ull << (sh - 1);
        if (rem > half || (rem == half && (n & 1))) ++n;
        fe = e2 + sh;
    }
    o.viafloat = href::round_mag<uint64_t>(neg, n, fe, false, nullptr);
}
// the definition of round-to-nearest-even by order alone (second opinion for ld_oracle's single rounding)
static bool ld_order_check(LD x, uint16_t expect)
{
    if (MIDL.empty())
    {
        MIDL.resize(0x7C00);
        for (unsigned a = 0; a < 0x7C00; ++a) MIDL[a] = std::ldexp(LD(2 * unsigned(DEC[a].m) + 1), DEC[a].e - 1);   // exact in every environment: 12-bit integer times a power of two
    }
    const LD ax = x < 0 ? -x : x;
    const unsigned a = expect & 0x7FFFu;
    if (a == 0x7C00u) return ax >= MIDL[0x7BFF];
    const bool even = (a & 1u) == 0;
    if (!(ax < MIDL[a] || (ax == MIDL[a] && even))) return false;
    if (a && !(ax > MIDL[a - 1] || (ax == MIDL[a - 1] && even))) return false;
    return true;
}
static __attribute__((noinline, cold)) void fail_ld(const char* fn, unsigned se, uint64_t sig, const ldref& o, uint16_t expect, uint16_t got, bool viafloat)
{
    if (throttled(fn, ri_bits(o.ri, (o.nan ? 1u : 0u) | (o.special ? 2u : 0u) | (viafloat ? 4u : 0u)), kind_code(expect, got))) return;
    std::string cls = o.nan ? "nan-operand" : o.special ? "inf-operand" : round_class(o.ri, ops_t(), o.single);
    std::string kind = (o.nan && href::is_nan16(got)) ? "nan-sign-lost" : fail_kind(expect, got);
    char v[80];
    std::snprintf(v, sizeof v, "%.21Lg", mkld(se, sig));
    vf::violation(std::string("C08/") + fn + "." C08_PATH + g_sfx + "/" + cls + "/" + kind,
                  std::string("[") + BLD() + "] " + fn + "(long double sign/exponent " + hx(se, 4) + " significand " + hx(sig, 16) + " = " + v + ") returned " + h2s(got) + ", " +
                      (viafloat ? "the documented conversion through float (nearest-even to 24 bits, then to binary16) gives " : "round-to-nearest-even binary16 of this value is ") + h2s(expect) +
                      " [" + cls + " with respect to a single rounding]",
                  RP(fn, {hx(se, 4), hx(sig, 16)}));
}
static void one_ld(unsigned se, uint64_t sig, int what, const char* only = nullptr)
{
    g_a = se;
    g_a64 = sig;
    g_nargs = 1;
    const LD x = mkld(se, sig);
    ldref o;
    ld_oracle(se, sig, o);
    ++g_ld_cases;
    if (!o.special && sig != 0 && !ld_order_check(x, o.single))
    {
        std::printf("@@{\"t\":\"referr\",\"v\":\"long double oracle: round_mag and the order-based definition disagree on sign/exponent %04x significand %016llx\"}\n", se, (unsigned long long)sig);
        return;
    }
    const bool directed = g_fenv_mode >= 0 && g_fenv_mode != FE_TONEAREST;   // static_cast<float> follows the mode: through-float entry points not judged
    auto want = [&](const char* fn) { return !only || std::strcmp(only, fn) == 0; };
    auto put = [&](const char* fn, int sid, uint16_t got, bool viafloat) {
        ++g_eval;
        const uint16_t e = viafloat ? o.viafloat : o.single;
        if (viafloat && directed) ++g_pathonly;
        else
        {
            const bool ok = o.nan ? (href::is_nan16(got) && (got >> 15) == (e >> 15)) : (got == e);
            if (!ok) fail_ld(fn, se, sig, o, e, got, viafloat);
        }
        const uint16_t canon = href::is_nan16(got) ? uint16_t((got & 0x8000) | 0x7E00) : got;
        emit(sid, canon, got);
        if (g_verbose) std::printf("@@{\"t\":\"res\",\"fn\":\"%s\",\"v\":\"%04x\",\"expect\":\"%04x\"}\n", fn, canon, e);
    };
    if ((what & SRC_CAST) && want("ld2half_cast")) { CUR("ld2half_cast"); account(o.ri, o.single); put("ld2half_cast", S_LDF_CAST, impl_ldf_cast(x), false); ASAN_CHECK("ld2half_cast"); }
    if ((what & SRC_CTOR) && want("ld2half_ctor")) { CUR("ld2half_ctor"); put("ld2half_ctor", S_LDF_CTOR, impl_ldf_ctor(x), true); }
    if (what & SRC_THIN)
    {
        if (want("ld2half_cast_rn")) { CUR("ld2half_cast_rn"); put("ld2half_cast_rn", S_LDF_CAST_RN, impl_ldf_cast_rn(x), false); }
        if (want("ld2half_literal")) { CUR("ld2half_literal"); put("ld2half_literal", S_LDF_LIT, impl_ldf_lit(x), false); }
        if (want("ld2half_assign")) { CUR("ld2half_assign"); put("ld2half_assign", S_LDF_ASSIGN, impl_ldf_assign(x), true); }
        if (want("ld2half_mul1")) { CUR("ld2half_mul1"); put("ld2half_mul1", S_LDF_MUL1, impl_ldf_mul1(x), true); }
    }
}

static std::vector<uint64_t> ld_offsets(char set)
{
    std::vector<uint64_t> v;
    auto add = [&](uint64_t o) { if (!o) return; for (uint64_t x : v) if (x == o) return; v.push_back(o); };
    for (int j = 0; j <= 61; ++j)
    {
        const bool quick = j <= 13 || (j >= 30 && j <= 33) || (j >= 38 && j <= 42) || (j >= 50 && j <= 53);
        if (set != 't' && !quick) continue;
        add((1ull << j) - 1); add(1ull << j); add((1ull << j) + 1);
    }
    return v;
}
static void mode_srcty(char set, int shard, int nshard)
{
    const std::vector<uint64_t> off = ld_offsets(set);
    auto thin = [](uint64_t o) { return o == 1 || o == (1ull << 10) || o == (1ull << 11) || o == (1ull << 39) || o == (1ull << 40) || o == (1ull << 52); };
    long long nanch = 0;
    for (unsigned h = 0; h <= 0x7C00; ++h)
    {
        if (int(h % unsigned(nshard)) != shard) continue;
        if (set == 's' && !in512[h] && h != 0x7C00) continue;
        const dec d = DEC[h];
        uint64_t n[2];
        int e2[2], na = 0;
        if (h == 0x7C00) { n[na] = 1; e2[na++] = 16; }
        else
        {
            if (d.m) { n[na] = d.m; e2[na++] = d.e; }
            else { one_ld(0x0000, 0, SRC_ALL); one_ld(0x8000, 0, SRC_ALL); }
            n[na] = 2ull * d.m + 1; e2[na++] = d.e - 1;
        }
        for (int k = 0; k < na; ++k)
        {
            const int p = href::msb64(n[k]);
            const uint64_t sig = n[k] << (63 - p);
            const unsigned E = unsigned(p + e2[k] + 16383);
            ++nanch;
            for (unsigned sgn = 0; sgn < 2; ++sgn)
            {
                const unsigned S = sgn << 15;
                one_ld(S | E, sig, SRC_ALL);
                for (uint64_t o : off)
                {
                    const int what = thin(o) ? SRC_ALL : (SRC_CAST | SRC_CTOR);
                    uint64_t s2 = sig + o;
                    unsigned E2 = E;
                    if (s2 < sig) { s2 = (s2 >> 1) | (1ull << 63); E2 = E + 1; }          // carry out of the significand
                    one_ld(S | E2, s2, what);
                    s2 = sig - o;
                    E2 = E;
                    if (!(s2 >> 63)) { s2 <<= 1; E2 = E - 1; }                            // borrow: renormalise (exact, o <= 2^61 + 1)
                    one_ld(S | E2, s2, what);
                }
            }
        }
    }
    long long nsweep = 0;
    if (shard == 0)
    {
        const uint64_t I = 1ull << 63;
        const uint64_t pn[] = {I, I + 1, ~0ull, I + (1ull << 52), I + (1ull << 52) + 1, I + (1ull << 52) - 1, 0xFFE0000000000000ull, 0xFFF0000000000000ull, 0xFFEFFFFFFFFFFFFFull, 0xFFF0000000000001ull};
        const uint64_t p0[] = {1, 2, 1ull << 62, I - 1};                                                     // long double subnormals
        const uint64_t px[] = {I, I | 1, I | (1ull << 62), I | (1ull << 62) | 1, I | (1ull << 31), I | (1ull << 32), ~0ull, I | ((1ull << 62) - 1)};   // infinity and NaNs (valid encodings)
        const unsigned Elo = set == 's' ? 16383 - 40 : 1, Ehi = set == 's' ? 16383 + 30 : 32766;
        for (unsigned sgn = 0; sgn < 2; ++sgn)
        {
            const unsigned S = sgn << 15;
            for (unsigned E = Elo; E <= Ehi; ++E)
                for (uint64_t m : pn) { one_ld(S | E, m, SRC_ALL); ++nsweep; }
            for (uint64_t m : p0) { one_ld(S, m, SRC_ALL); ++nsweep; }
            for (uint64_t m : px) { one_ld(S | 0x7FFF, m, SRC_ALL); ++nsweep; }
        }
    }
    const std::string sfx = std::string(C08_BUILD) + g_sfx;
    vf::stat("source_type_family_long_doubles_" + sfx, g_ld_cases);
    vf::stat("source_type_family_long_double_anchors_" + sfx, nanch);
    if (nsweep) vf::stat("source_type_family_long_double_exponent_sweep_" + sfx, nsweep);
    if (g_pathonly) vf::stat("results_judged_by_path_equality_only_" + sfx, g_pathonly);
    flush_streams();
    if (shard == 0)
        std::printf("@@{\"t\":\"xs\",\"k\":\"srcty/0\",\"v\":\"half_cast<half>(long double 1+2^-11+2^-63, one long double ulp above a tie) == %s ; half_cast<half>(long double 2^-25*(1+2^-63)) == %s ; half(long double 65520-2^-48) == %s [" C08_BUILD "]\"}\n",
                    h2s(impl_ldf_cast(mkld(0x3FFF, 0x8010000000000001ull))).c_str(), h2s(impl_ldf_cast(mkld(16383 - 25, 0x8000000000000001ull))).c_str(), h2s(impl_ldf_ctor(mkld(16383 + 15, 0xFFEFFFFFFFFFFFFFull))).c_str());
}

// ------------------------------------------------------------------ information only: double -> half, integer <-> half
static void mode_info()
{
    // doubles at and next to every binary16 value and every midpoint between neighbours
    long long nd = 0, bad_cast = 0, bad_ctor = 0;
    uint64_t first_cast = 0, first_ctor = 0;
    for (unsigned h = 0; h < 0x7C00; ++h)
    {
        const double lo = href::to_double(uint16_t(h)), hi = (h + 1 == 0x7C00) ? 65536.0 : href::to_double(uint16_t(h + 1));
        const double mid = (lo + hi) / 2;   // exact
        const double cand[3] = {lo, mid, hi};
        for (double c : cand)
            for (int step = -2; step <= 2; ++step)
                for (int sgn = 0; sgn < 2; ++sgn)
                {
                    uint64_t b = dbits(c) + uint64_t(int64_t(step));
                    if (c == 0 && step < 0) continue;
                    if (sgn) b |= 1ull << 63;
                    double v;
                    std::memcpy(&v, &b, 8);
                    const uint16_t e = href::from_f64_bits(b);
                    const uint16_t r1 = bits(half_float::half_cast<H>(v));
                    H viactor(v);
                    const uint16_t r2 = bits(viactor);
                    ++nd;
                    if (!same_half(e, r1)) { if (!bad_cast) first_cast = b; ++bad_cast; }
                    if (!same_half(e, r2)) { if (!bad_ctor) first_ctor = b; ++bad_ctor; }
                }
    }
    g_info += nd * 2;
    vf::note("information only (not judged): half_cast<half>(double) on " + vf::str(nd) + " boundary doubles (every binary16 value and midpoint, +-2 double ulps): " + vf::str(bad_cast) +
             " differ from single correct rounding" + (bad_cast ? " (first: " + hx(first_cast, 16) + ")" : ""));
    vf::note("information only (not judged): half(double) converting constructor on the same doubles: " + vf::str(bad_ctor) +
             " differ from single correct rounding (documented: wider types go through float, double rounding)" + (bad_ctor ? " (first: " + hx(first_ctor, 16) + ")" : ""));
    long long ni = 0, bad_i2h = 0, bad_ictor = 0;
    for (int v = -65600; v <= 65600; ++v)
    {
        const uint16_t e = href::from_int(v);
        const uint16_t r1 = bits(half_float::half_cast<H>(v));
        H c(v);
        ++ni;
        if (!same_half(e, r1)) ++bad_i2h;
        if (!same_half(e, bits(c))) ++bad_ictor;
    }
    g_info += ni * 2;
    vf::note("information only (not judged): int -> half for all ints in [-65600, 65600]: half_cast " + vf::str(bad_i2h) + ", converting constructor " + vf::str(bad_ictor) + " differ from correct rounding");
    long long nh = 0, bad_h2i = 0;
    for (unsigned h = 0; h < 65536; ++h)
    {
        const dec d = DEC[h];
        if (d.cls >= href::C_INF) continue;
        const long long e = std::llrint(href::to_double(uint16_t(h)));   // default rounding mode: nearest even
        const long long r = half_float::half_cast<int>(mk(uint16_t(h)));
        ++nh;
        if (e != r) ++bad_h2i;
    }
    g_info += nh;
    vf::note("information only (not judged): half_cast<int>(half) for all finite halves: " + vf::str(bad_h2i) + " differ from round-to-nearest-even");
    vf::stat("info_only_evaluations", g_info);
}

// ------------------------------------------------------------------ self test of the reference (failure = harness error, never a violation)
static double twosum_round_to_odd(double a, double b)
{
    volatile double s = a + b;
    volatile double bb = s - a;
    volatile double err = (a - (s - bb)) + (b - bb);
    double sv = s, ev = err;
    if (ev == 0 || sv == 0) return sv;
    uint64_t sb = dbits(sv);
    if (sb & 1) return sv;
    // even mantissa and inexact: move one ulp towards the exact value
    const bool away = (ev > 0) == (sv > 0);
    sb = away ? sb + 1 : sb - 1;
    double r;
    std::memcpy(&r, &sb, 8);
    return r;
}
static uint16_t fma_via_double(uint16_t a, uint16_t b, uint16_t c)
{
    const double p = href::to_double(a) * href::to_double(b);   // exact (22 significant bits)
    const double z = href::to_double(c);
    if (std::isnan(p) || std::isnan(z) || std::isinf(p) || std::isinf(z)) return href::from_double(p + z);
    return href::from_double(twosum_round_to_odd(p, z));
}
static long long g_referr = 0;
static void referr(const std::string& s)
{
    if (g_referr++ < 5) std::printf("@@{\"t\":\"referr\",\"v\":\"%s\"}\n", vf::jesc(s).c_str());
}
static void mode_selftest()
{
    long long n = 0;
    for (unsigned h = 0; h < 65536; ++h)
    {
        const uint16_t a = uint16_t(h);
        const double v = href::to_double_ldexp(a);
        if (href::is_nan16(a))
        {
            if (!std::isnan(href::to_double(a)) || !std::isnan(href::to_float(a))) referr("NaN construction " + hx(a, 4));
        }
        else
        {
            if (dbits(v) != href::to_f64_bits(a)) referr("to_f64_bits vs ldexp " + hx(a, 4));
            if (fbits(float(v)) != href::to_f32_bits(a) || double(float(v)) != v) referr("to_f32_bits vs ldexp " + hx(a, 4));
            if (href::from_f32_bits(href::to_f32_bits(a)) != a) referr("float round trip " + hx(a, 4));
            if (href::from_f64_bits(href::to_f64_bits(a)) != a) referr("double round trip " + hx(a, 4));
        }
        if (!same_half(href::sqrt(DEC[a]), href::sqrt_via_double(a))) referr("sqrt " + hx(a, 4));
        n += 5;
    }
    for (uint16_t a : A4096)
        for (uint16_t b : A4096)
        {
            const dec& x = DEC[a];
            const dec& y = DEC[b];
            if (!same_half(href::add(x, y), href::add_via_double(a, b))) referr("add " + hx(a, 4) + " " + hx(b, 4));
            if (!same_half(href::sub(x, y), href::sub_via_double(a, b))) referr("sub " + hx(a, 4) + " " + hx(b, 4));
            if (!same_half(href::mul(x, y), href::mul_via_double(a, b))) referr("mul " + hx(a, 4) + " " + hx(b, 4));
            if (!same_half(href::div(x, y), href::div_via_double(a, b))) referr("div " + hx(a, 4) + " " + hx(b, 4));
            const int c = href::compare(x, y);
            const float fa = FLT[a], fb = FLT[b];
            const int cf = (std::isnan(fa) || std::isnan(fb)) ? 2 : (fa < fb ? -1 : fa > fb ? 1 : 0);
            if (c != cf) referr("compare " + hx(a, 4) + " " + hx(b, 4));
            n += 5;
        }
    for (uint16_t a : F196)
        for (uint16_t b : F196)
            for (uint16_t c : F196)
            {
                if (!same_half(href::fma(DEC[a], DEC[b], DEC[c]), fma_via_double(a, b, c))) referr("fma " + hx(a, 4) + " " + hx(b, 4) + " " + hx(c, 4));
                ++n;
            }
    uint16_t zs[16];
    for (uint16_t a : A512)
        for (uint16_t b : A512)
        {
            const int k = derived_z(a, b, zs);
            for (int j = 0; j < k; ++j)
                if (!same_half(href::fma(DEC[a], DEC[b], DEC[zs[j]]), fma_via_double(a, b, zs[j]))) referr("fma " + hx(a, 4) + " " + hx(b, 4) + " " + hx(zs[j], 4));
            n += k;
        }
    vf::stat("reference_selftest_cases", n);
    if (g_referr) std::printf("@@{\"t\":\"referr\",\"v\":\"%lld disagreements between the exact integer reference and its second opinions\"}\n", g_referr);
}

// ------------------------------------------------------------------ single case (replay)
static uint32_t parse_u(const char* s) { return uint32_t(std::strtoul(s, nullptr, 0)); }
static int run_one(int argc, char** argv, int i)
{
    g_verbose = true;
    const std::string fn = argv[i];
    const int nops = argc - i - 1;
    uint32_t v[3] = {0, 0, 0};
    for (int k = 0; k < nops && k < 3; ++k) v[k] = parse_u(argv[i + 1 + k]);
    g_a = v[0]; g_b = v[1]; g_c = v[2];
    g_nargs = nops;
    if (fn.find('(') != std::string::npos) { if (!run_one_mixed(fn, v[0], v[1])) return 3; }
    else if (fn.compare(0, 8, "ld2half_") == 0) { if (nops < 2) return 3; one_ld(v[0] & 0xFFFFu, std::strtoull(argv[i + 2], nullptr, 0), SRC_ALL, fn.c_str()); }
    else if (fn.compare(0, 11, "double2half") == 0 || fn == "longdouble2half_cast") one_double(std::strtoull(argv[i + 1], nullptr, 0), fn.c_str());
    else if (fn == "int2half_cast" || fn == "int2half_ctor" || fn == "longlong2half_cast") one_int((long long)std::strtoull(argv[i + 1], nullptr, 0), fn.c_str());
    else if (fn.compare(0, 14, "float2half_nan") == 0) one_nan_float(v[0], fn.c_str());
    else if (fn == "float2half" || fn == "float2half_assign" || fn == "float2half_cast") one_f2h(v[0], true, true);
    else if (fn == "add" || fn == "sub" || fn == "mul" || fn == "div") one_pair<true, false>(uint16_t(v[0]), uint16_t(v[1]), DEC[v[0] & 0xFFFF], DEC[v[1] & 0xFFFF]);
    else if (fn == "eq" || fn == "ne" || fn == "lt" || fn == "gt" || fn == "le" || fn == "ge" || fn == "cmp" || fn == "copysign" || fn == "hashpair")
        one_pair<false, true>(uint16_t(v[0]), uint16_t(v[1]), DEC[v[0] & 0xFFFF], DEC[v[1] & 0xFFFF]);
    else if (fn == "fma" || fn == "fma_derived") { CUR("fma"); one_fma(S_FMA, uint16_t(v[0]), uint16_t(v[1]), uint16_t(v[2])); }
    else one_unary(uint16_t(v[0]), fn == "classify" ? nullptr : fn.c_str());
    return 0;
}

// ------------------------------------------------------------------ dynamic rounding mode
static bool set_fenv(const char* name)
{
    const std::string n = name;
    int mode;
    if (n == "DAZ" || n == "FTZ" || n == "DAZ+FTZ")
    {
        // MXCSR denormal flavours: bit 6 "denormals are zero" (denormal SSE operands read as zero), bit 15 "flush to zero"
        // (denormal SSE results replaced by zero). Prior process state like the rounding direction (GCC's crtfastmath.o sets
        // both in every process that links a -ffast-math object). Set once, verified on float and double arithmetic.
        const unsigned bitsw = (n != "FTZ" ? 0x0040u : 0u) | (n != "DAZ" ? 0x8000u : 0u);
        g_fenv_name = n;
        g_sfx = "[" + n + "]";
        g_mxcsr_bits = bitsw;
        _mm_setcsr((_mm_getcsr() & ~0x8040u) | bitsw);
        volatile float fden = mkf(0x00400000u), fbig = 16777216.0f, fmin = mkf(0x00800000u), fhalf = 0.5f;
        volatile double dden = mkd(0x0008000000000000ull), dbig = 9007199254740992.0, dmin = mkd(0x0010000000000000ull), dhalf = 0.5;
        const float r1 = fden * fbig, r2 = fmin * fhalf;      // denormal operand ; denormal result
        const double r3 = dden * dbig, r4 = dmin * dhalf;
        const bool daz = (bitsw & 0x0040u) != 0, ftz = (bitsw & 0x8000u) != 0;
        if ((fbits(r1) == 0) != daz || (dbits(r3) == 0) != daz || (fbits(r2) == 0) != ftz || (dbits(r4) == 0) != ftz || (_mm_getcsr() & 0x8040u) != bitsw)
            std::printf("@@{\"t\":\"referr\",\"v\":\"MXCSR flavour %s is not in effect after _mm_setcsr\"}\n", name);
        return true;
    }
    if (n == "FE_UPWARD") mode = FE_UPWARD;
    else if (n == "FE_DOWNWARD") mode = FE_DOWNWARD;
    else if (n == "FE_TOWARDZERO") mode = FE_TOWARDZERO;
    else if (n == "FE_TONEAREST") mode = FE_TONEAREST;
    else { std::fprintf(stderr, "bad --fenv\n"); return false; }
#ifndef C08_ROUNDING_MATH
    if (mode != FE_TONEAREST) { std::fprintf(stderr, "--fenv needs the -frounding-math build\n"); return false; }
#endif
    g_fenv_name = n;
    g_fenv_mode = mode;
    g_sfx = "[" + n + "]";
    if (std::fesetround(mode) != 0) { std::printf("@@{\"t\":\"referr\",\"v\":\"fesetround(%s) failed\"}\n", name); return true; }
    // the mode must really be in effect for this process' float and double arithmetic (SSE MXCSR)
    volatile float one = 1.0f, tiny = 1e-30f;
    volatile double done_ = 1.0, dtiny = 1e-300;
    const float up = one + tiny, dn = one - tiny;
    const double dup = done_ + dtiny, ddn = done_ - dtiny;
    const bool want_up = (mode == FE_UPWARD), want_dn = (mode == FE_DOWNWARD || mode == FE_TOWARDZERO);
    if ((up > 1.0f) != want_up || (dn < 1.0f) != want_dn || (dup > 1.0) != want_up || (ddn < 1.0) != want_dn || std::fegetround() != mode)
        std::printf("@@{\"t\":\"referr\",\"v\":\"rounding mode %s is not in effect after fesetround\"}\n", name);
    return true;
}
static void end_fenv()
{
    if (g_mxcsr_bits)
    {
        if ((_mm_getcsr() & 0x8040u) != g_mxcsr_bits)
            vf::note("observation (not judged): MXCSR " + g_fenv_name + " was set at the start of the shard and the DAZ/FTZ bits are different at its end - something in the library changed them");
        _mm_setcsr(_mm_getcsr() & ~0x8040u);
        vf::stat("shards_run_under_" + g_fenv_name, 1);
        return;
    }
    if (g_fenv_mode < 0) return;
    if (std::fegetround() != g_fenv_mode)
        vf::note("observation (not judged): the dynamic rounding mode was " + g_fenv_name + " at the start of the shard and is different at its end - something in the library changed it");
    std::fesetround(FE_TONEAREST);
    vf::stat("shards_run_under_" + g_fenv_name, 1);
}

int main(int argc, char** argv)
{
    init_tables();
    install_handlers();
    std::string mode, set = "q", alpha = "q";
    int shard = 0, nshard = 1;
    for (int i = 1; i < argc; ++i)
    {
        const std::string s = argv[i];
        if (s == "--mode") mode = argv[++i];
        else if (s == "--shard") { shard = std::atoi(argv[i + 1]); nshard = std::atoi(argv[i + 2]); i += 2; }
        else if (s == "--set") set = argv[++i];
        else if (s == "--alpha") alpha = argv[++i];
        else if (s == "--dump")
        {
            // --dump <stream> <sub> <file>: write the canonical results of one stream as 64-bit words
            const std::string st = argv[i + 1];
            for (int k = 0; k < S_NSTREAM; ++k) if (st == stream_name[k]) g_dump_sid = k;
            g_dump_sub = std::atoi(argv[i + 2]);
            g_dump_file = std::fopen(argv[i + 3], "wb");
            if (g_dump_sid < 0 || !g_dump_file) { std::fprintf(stderr, "bad --dump\n"); return 3; }
            i += 3;
        }
        else if (s == "--nth")
        {
            // --nth <stream> <sub> <index>: print the operands of the index-th result of a stream
            const std::string st = argv[i + 1];
            for (int k = 0; k < S_NSTREAM; ++k) if (st == stream_name[k]) g_dump_sid = k;
            g_dump_sub = std::atoi(argv[i + 2]);
            g_nth = std::atoll(argv[i + 3]);
            if (g_dump_sid < 0) { std::fprintf(stderr, "bad --nth\n"); return 3; }
            i += 3;
        }
        else if (s == "--fenv")
        {
            if (!set_fenv(argv[++i])) return 3;
        }
        else if (s == "--one")
        {
            int rc = run_one(argc, argv, i + 1);
            end_fenv();
            vf::done();
            return rc;
        }
    }
    if (mode == "f2h") mode_f2h(shard, nshard, shard == 0);
    else if (mode == "unary") mode_unary(set == "s" ? A4096 : A_all);
    else if (mode == "pairs") mode_pairs(set[0], shard, nshard);
    else if (mode == "fma") mode_fma(alpha == "t" ? F1024 : alpha == "s" ? F64 : alpha == "m" ? F196 : A512, shard, nshard);
    else if (mode == "fmad") mode_fmad(alpha[0], shard, nshard);
    else if ((mode == "info" || mode == "selftest") && ((g_fenv_mode >= 0 && g_fenv_mode != FE_TONEAREST) || g_mxcsr_bits)) { std::fprintf(stderr, "double based modes run in the default floating-point environment only\n"); return 3; }
    else if (mode == "nanfam") mode_nanfam();
    else if (mode == "casts") mode_casts(set[0], shard, nshard);
    else if (mode == "f2hb") mode_f2hb();
    else if (mode == "srcty") mode_srcty(set[0], shard, nshard);
    else if (mode == "mixed") mode_mixed(shard, nshard, set == "s" ? A512 : set == "m" ? A4096 : A_all);
    else if (mode == "info") mode_info();
    else if (mode == "selftest") mode_selftest();
    else { std::fprintf(stderr, "unknown mode\n"); return 3; }
    if (g_dump_file) std::fclose(g_dump_file);
    end_fenv();
    vf::stat(std::string("evaluations_" C08_BUILD) + g_sfx, g_eval);
    vf::stat(std::string("nontrivial_" C08_BUILD) + g_sfx, g_nt);
    vf::stat(std::string("ties_" C08_BUILD) + g_sfx, g_ties);
    vf::stat(std::string("inexact_subnormal_results_" C08_BUILD) + g_sfx, g_subres);
    vf::stat(std::string("overflow_by_rounding_" C08_BUILD) + g_sfx, g_nearovf);
    vf::stat(std::string("special_case_results_" C08_BUILD) + g_sfx, g_special);
    vf::stat(std::string("exact_zero_results_" C08_BUILD) + g_sfx, g_exact0);
    if (g_hash_eq) vf::stat(std::string("hash_pairs_with_equal_values_" C08_BUILD) + g_sfx, g_hash_eq);
    if (g_fail_total) vf::stat(std::string("failing_results_" C08_BUILD) + g_sfx, g_fail_total);
    vf::done();
    return 0;
}
