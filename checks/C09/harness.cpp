// C09: half math functions against their documented accuracy (see DESIGN.md C09, NOTES.md in this directory).
//
// Every case is one call of the REAL half_float::<function> on one argument (pair) given by its bit pattern(s);
// the verdict comes from MPFR (correct rounding to binary16: precision 11, emin -23, emax 16, mpfr_subnormalize).
// Two further references exist only to catch an error of the reference itself (they never decide a case):
//   B  MPFR at 256 bits, unbounded exponent, rounded by the integer routine f2h<> below,
//   C  glibc long double, used when its value is clear of every binary16 rounding boundary.
// A disagreement between references is a harness error, never a violation.
//
// Every sweep runs in a forked child that publishes the case it is working on in shared memory; the parent
// attributes a crash (signal) or a hang (child CPU time passes without progress) to that case and resumes
// behind it.
#include <xtl/xhalf_float.hpp>
#include "report.hpp"

#include <mpfr.h>

#include <algorithm>
#include <cfloat>
#include <climits>
#include <cmath>
#include <csignal>
#include <cstdint>
#include <cstdio>
#include <cstdlib>
#include <cstring>
#include <ctime>
#include <string>
#include <thread>
#include <vector>

#include <sys/mman.h>
#include <sys/wait.h>
#include <unistd.h>

typedef half_float::half half;
typedef uint16_t u16;

static inline half mk(u16 b) { half h; std::memcpy(static_cast<void*>(&h), &b, 2); return h; }
static inline u16 bits(half h) { u16 b; std::memcpy(&b, &h, 2); return b; }
static_assert(sizeof(half) == 2, "half is two bytes");

// ------------------------------------------------------------------------------------------------
// binary16 written from the format definition (independent of the library)
// ------------------------------------------------------------------------------------------------
static inline bool h_isnan(u16 b) { return (b & 0x7FFF) > 0x7C00; }
static inline bool h_isinf(u16 b) { return (b & 0x7FFF) == 0x7C00; }
static inline bool h_iszero(u16 b) { return (b & 0x7FFF) == 0; }
static inline bool h_isfinite(u16 b) { return (b & 0x7FFF) < 0x7C00; }
static inline bool h_issnan(u16 b) { return h_isnan(b) && !(b & 0x200); }

static double h2d_slow(u16 b)
{
    int s = b >> 15, e = (b >> 10) & 31, m = b & 1023;
    double v;
    if (e == 31) v = m ? std::numeric_limits<double>::quiet_NaN() : std::numeric_limits<double>::infinity();
    else if (e == 0) v = std::ldexp(double(m), -24);
    else v = std::ldexp(double(m | 1024), e - 25);
    return s ? -v : v;
}
static double g_h2d[65536];
static inline double h2d(u16 b) { return g_h2d[b]; }

// The rounding style the LIBRARY was configured with for this build (HALF_ROUND_STYLE: 1 to nearest = as shipped, 0 toward zero,
// 2 toward +infinity, 3 toward -infinity).  "Correctly rounded binary16 value" is read relative to it: in a directed configuration the
// reference is the mathematical result rounded in THAT direction (MPFR_RNDZ / RNDU / RNDD, same exponent range, same subnormalisation).
static const int g_rs = HALF_ROUND_STYLE;
static_assert(HALF_ROUND_STYLE == 0 || HALF_ROUND_STYLE == 1 || HALF_ROUND_STYLE == 2 || HALF_ROUND_STYLE == 3, "HALF_ROUND_STYLE 0..3");
static const bool g_directed = (HALF_ROUND_STYLE != 1);
static inline bool rs_away(int rs, bool neg) { return (rs == 2 && !neg) || (rs == 3 && neg); }   // directed style rounds this sign away from zero

// correctly rounded conversion of a binary floating value to binary16 bits in rounding style rs (1: nearest, ties to even)
template <class T>
static u16 f2h_mode(T v, int rs)
{
    u16 s = std::signbit(v) ? 0x8000 : 0;
    if (v != v) return u16(s | 0x7E00);
    T a = std::fabs(v);
    if (a == 0) return s;
    if (std::isinf(a)) return u16(s | 0x7C00);
    bool away = rs_away(rs, s != 0);
    int e = std::ilogb(a);
    if (e > 15) return u16(s | ((rs == 1 || away) ? 0x7C00 : 0x7BFF));   // directed toward zero: overflow stops at the largest finite half
    if (e < -14) e = -14;
    T t = std::scalbn(a, 10 - e);   // exact: scaling by a power of two, no underflow (scales up for small a)
    T n = rs == 1 ? std::nearbyint(t) /* default FP environment: to nearest, ties to even */ : away ? std::ceil(t) : std::floor(t);
    unsigned long ni = (unsigned long)n;
    unsigned long r = ((unsigned long)(e + 14) << 10) + ni;   // carry of ni == 2048 moves into the exponent
    if (r >= 0x7C00) r = 0x7C00;                              // only reachable when rounding away from zero (or to nearest)
    return u16(s | r);
}
template <class T> static inline u16 f2h(T v) { return f2h_mode<T>(v, g_rs); }        // in the configured style
template <class T> static inline u16 f2h_rn(T v) { return f2h_mode<T>(v, 1); }        // to nearest (alphabet construction)

// Is the value clear of every binary16 rounding boundary (to nearest: midpoints between neighbouring halves, 2^-25 and 65520; directed
// styles: the halves themselves)?
// "Clear" means: further than 2^-26 binary16-ulp away.  A glibc result with a relative error below 2^-45 (double: < 1 ulp = 2^-52,
// long double: 2^-63) moves by less than 2^-34 binary16-ulp, so its rounding equals the rounding of the exact value.
template <class T>
static bool decisive(T L)
{
    if (L != L) return true;
    T a = std::fabs(L);
    if (a == 0 || std::isinf(a)) return true;
    if (a >= T(65536)) return true;                 // rounds to infinity, boundary 65520 is 16 away
    int e = std::ilogb(a);
    if (e < -14) e = -14;
    T t = std::scalbn(a, 10 - e);                   // in binary16 ulps, < 2048; exact
    T fr = t - std::floor(t);
    T d = g_directed ? std::min(fr, T(1) - fr) : std::fabs(fr - T(0.5));
    return d > T(1) / T(67108864);                  // 2^-26
}
static bool ld_decisive(long double L) { return decisive<long double>(L); }

static inline int hkey(u16 b) { int m = b & 0x7FFF; return (b & 0x8000) ? -m : m; }

static std::string hx(u16 b)
{
    char buf[64];
    if (h_isnan(b)) std::snprintf(buf, sizeof buf, "0x%04x(%snan)", b, (b & 0x200) ? "q" : "s");
    else std::snprintf(buf, sizeof buf, "0x%04x(%.9g)", b, h2d(b));
    return buf;
}
static std::string hexs(u16 b) { char buf[16]; std::snprintf(buf, sizeof buf, "0x%04x", b); return buf; }

static const char* cls(u16 b)
{
    bool neg = (b & 0x8000) != 0;
    int e = (b >> 10) & 31, m = b & 1023;
    if (e == 31) return m ? "nan" : (neg ? "-inf" : "+inf");
    if (e == 0) return m ? (neg ? "-sub" : "+sub") : (neg ? "-zero" : "+zero");
    if (e <= 6) return neg ? "-tiny" : "+tiny";      // |x| < 2^-8
    if (e <= 14) return neg ? "-lt1" : "+lt1";
    if (e <= 18) return neg ? "-1to16" : "+1to16";
    return neg ? "-ge16" : "+ge16";
}
static const char* cls2(u16 b)   // coarser, for pairs
{
    bool neg = (b & 0x8000) != 0;
    int e = (b >> 10) & 31, m = b & 1023;
    if (e == 31) return m ? "nan" : (neg ? "-inf" : "+inf");
    if (e == 0) return m ? (neg ? "-sub" : "+sub") : (neg ? "-zero" : "+zero");
    return neg ? "-norm" : "+norm";
}

// ------------------------------------------------------------------------------------------------
// shared progress block, counters
// ------------------------------------------------------------------------------------------------
enum { C_EVAL, C_NONTRIV, C_OFF1, C_MPFR, C_FAST, C_XCHK_B, C_XCHK_C, C_XCHK_SPECIAL, C_VIOL, C_REFERR, C_CRASH, C_SANEVAL, C_EHEVAL, C_EHSNAN, C_DIREVAL, C_N };
static const char* cnames[C_N] = {"evaluations", "distinct_nontrivial", "results_1ulp_off_allowed", "mpfr_verdicts", "fast_reference_verdicts",
                                  "refcheck_mpfr256", "refcheck_glibc_longdouble", "refcheck_special_values_glibc_float", "violating_cases",
                                  "reference_disagreements", "crashes_or_hangs", "sanitizer_build_evaluations", "errhandling_build_evaluations",
                                  "errhandling_build_snan_operand_gave_nan_accepted", "directed_rounding_build_evaluations"};
struct Shared
{
    volatile unsigned long long seq;
    volatile unsigned long long cur;     // index of the case being worked on
    volatile int phase;                  // 1 = inside the implementation, 2 = inside a reference
    volatile long long cnt[C_N];
    volatile int referr;
};
static Shared* g_sh = nullptr;
static inline void cnt(int k, long long v = 1) { g_sh->cnt[k] += v; }

static void ref_error(const std::string& what)
{
    g_sh->referr = 1;
    cnt(C_REFERR);
    if (g_sh->cnt[C_REFERR] <= 20) vf::note("REFERENCE-DISAGREEMENT (harness error, not a violation): " + what);
}

// ------------------------------------------------------------------------------------------------
// MPFR reference
// ------------------------------------------------------------------------------------------------
static const mpfr_rnd_t g_rnd = g_rs == 0 ? MPFR_RNDZ : g_rs == 2 ? MPFR_RNDU : g_rs == 3 ? MPFR_RNDD : MPFR_RNDN;
static mpfr_exp_t g_emin0, g_emax0;
static mpfr_t mx_, my_, mr_, mw_, mt_;

static void mp_init()
{
    g_emin0 = mpfr_get_emin();
    g_emax0 = mpfr_get_emax();
    mpfr_init2(mx_, 24);
    mpfr_init2(my_, 24);
    mpfr_init2(mr_, 11);
    mpfr_init2(mw_, 256);
    mpfr_init2(mt_, 256);
}
static inline void range_half() { mpfr_set_emin(-23); mpfr_set_emax(16); }
static inline void range_wide() { mpfr_set_emin(g_emin0); mpfr_set_emax(g_emax0); }

static u16 mp2h(mpfr_t r)   // r holds a value that is exactly a binary16 number, infinity or NaN
{
    if (mpfr_nan_p(r)) return 0x7E00;
    return f2h<double>(mpfr_get_d(r, MPFR_RNDN));
}
// rounds a 256-bit unbounded value to binary16 with the integer routine: take it to long double only when that is exact
// enough, otherwise decide by comparison against the two neighbouring halves and their midpoint (exact, in MPFR).
static u16 wide2h(mpfr_t w)
{
    if (mpfr_nan_p(w)) return 0x7E00;
    u16 s = mpfr_signbit(w) ? 0x8000 : 0;
    if (mpfr_inf_p(w)) return u16(s | 0x7C00);
    if (mpfr_zero_p(w)) return s;
    // find largest half magnitude <= |w| by binary search on bit patterns 0..0x7C00 (monotone)
    mpfr_abs(mt_, w, MPFR_RNDN);   // exact, same precision
    unsigned lo = 0, hi = 0x7C00;  // invariant: val(lo) <= |w| < val(hi) (val(0x7C00)=inf)
    while (hi - lo > 1)
    {
        unsigned mid = (lo + hi) / 2;
        if (mpfr_cmp_d(mt_, h2d(u16(mid))) >= 0) lo = mid; else hi = mid;
    }
    // compare |w| with midpoint of val(lo), val(hi); for hi == 0x7C00 the midpoint is 65520
    if (g_directed)
    {
        // directed styles: an exactly representable magnitude stays, anything else goes to hi (away from zero; 0x7C00 = infinity) or lo
        if (mpfr_cmp_d(mt_, h2d(u16(lo))) == 0) return u16(s | lo);
        return u16(s | (rs_away(g_rs, s != 0) ? hi : lo));
    }
    double mid = (hi == 0x7C00) ? 65520.0 : (h2d(u16(lo)) + h2d(u16(hi))) / 2;   // exact in double
    int c = mpfr_cmp_d(mt_, mid);
    unsigned r = (c > 0) ? hi : (c < 0) ? lo : ((lo & 1) ? hi : lo);
    return u16(s | r);
}

typedef int (*mp1_t)(mpfr_ptr, mpfr_srcptr, mpfr_rnd_t);
typedef int (*mp2_t)(mpfr_ptr, mpfr_srcptr, mpfr_srcptr, mpfr_rnd_t);

static int mp_lgamma(mpfr_ptr r, mpfr_srcptr x, mpfr_rnd_t rnd) { int s; return mpfr_lgamma(r, &s, x, rnd); }
static int mp_exp2(mpfr_ptr r, mpfr_srcptr x, mpfr_rnd_t rnd) { return mpfr_exp2(r, x, rnd); }
static int mp_cbrt(mpfr_ptr r, mpfr_srcptr x, mpfr_rnd_t rnd) { return mpfr_cbrt(r, x, rnd); }

struct RefOut
{
    u16 a;          // reference A: the verdict
    bool special;   // the unrestricted mathematical result is NaN, infinite or an exact zero
};

static RefOut ref1(mp1_t f, u16 x)
{
    RefOut o;
    g_sh->phase = 2;
    mpfr_set_d(mx_, h2d(x), MPFR_RNDN);   // exact (NaN, inf and signed zero carried over)
    range_half();
    int t = f(mr_, mx_, g_rnd);
    mpfr_subnormalize(mr_, t, g_rnd);
    o.a = mp2h(mr_);
    range_wide();
    f(mw_, mx_, g_rnd);   // directed styles: rounding twice in the same direction equals rounding once (tanh(89) = 1 - tiny must not become 1)
    o.special = mpfr_nan_p(mw_) || mpfr_inf_p(mw_) || mpfr_zero_p(mw_);
    u16 b = wide2h(mw_);
    cnt(C_XCHK_B);
    if (b != o.a && !(h_isnan(b) && h_isnan(o.a)))
        ref_error("unary x=" + hx(x) + " MPFR(prec 11, subnormalize)=" + hx(o.a) + " MPFR(256 bits)+integer rounding=" + hx(b));
    cnt(C_MPFR);
    return o;
}
static RefOut ref2(mp2_t f, u16 x, u16 y)
{
    RefOut o;
    g_sh->phase = 2;
    mpfr_set_d(mx_, h2d(x), MPFR_RNDN);
    mpfr_set_d(my_, h2d(y), MPFR_RNDN);
    range_half();
    int t = f(mr_, mx_, my_, g_rnd);
    mpfr_subnormalize(mr_, t, g_rnd);
    o.a = mp2h(mr_);
    range_wide();
    f(mw_, mx_, my_, g_rnd);
    o.special = mpfr_nan_p(mw_) || mpfr_inf_p(mw_) || mpfr_zero_p(mw_);
    u16 b = wide2h(mw_);
    cnt(C_XCHK_B);
    if (b != o.a && !(h_isnan(b) && h_isnan(o.a)))
        ref_error("binary x=" + hx(x) + " y=" + hx(y) + " MPFR(prec 11, subnormalize)=" + hx(o.a) + " MPFR(256 bits)+integer rounding=" + hx(b));
    cnt(C_MPFR);
    return o;
}

// reference C: glibc long double, only where decisive
static void xcheck_ld(const char* fn, long double L, u16 a, u16 x, u16 y, bool binary)
{
    if (!(L == L) || L == 0 || std::isinf(L)) return;          // special classes are cross-checked with float below
    if (fabsl(L) < LDBL_MIN) return;
    if (!ld_decisive(L)) return;
    cnt(C_XCHK_C);
    u16 c = f2h<long double>(L);
    if (c != a)
        ref_error(std::string(fn) + "(" + hx(x) + (binary ? ", " + hx(y) : std::string()) + "): MPFR=" + hx(a) + " glibc long double rounds to " + hx(c));
}
// special values: class and sign of the float function must agree with MPFR
static void xcheck_special(const char* fn, float F, u16 a, u16 x, u16 y, bool binary)
{
    cnt(C_XCHK_SPECIAL);
    bool ok;
    if (h_isnan(a)) ok = (F != F);
    else if (h_isinf(a)) ok = std::isinf(F) && (std::signbit(F) == ((a & 0x8000) != 0));
    else if (h_iszero(a)) ok = (F == 0) && (std::signbit(F) == ((a & 0x8000) != 0));
    else ok = true;
    if (!ok)
    {
        char buf[64];
        std::snprintf(buf, sizeof buf, "%.9g", double(F));
        ref_error(std::string(fn) + "(" + hx(x) + (binary ? ", " + hx(y) : std::string()) + "): special value, MPFR=" + hx(a) + " glibc float=" + buf);
    }
}

// ------------------------------------------------------------------------------------------------
// judging
// ------------------------------------------------------------------------------------------------
// returns empty string when r is acceptable, otherwise the failure kind
static std::string judge(u16 r, u16 a, int max_ulp, bool special)
{
    if (h_isnan(a)) return h_isnan(r) ? "" : "number-for-nan";
    if (h_isnan(r)) return "nan-for-number";
    if (r == a) return "";
    if (h_isinf(a) || h_isinf(r))
    {
        if (h_isinf(a) && h_isinf(r)) return "wrong-sign-of-infinity";
        // one is infinite, the other finite
        if (special || max_ulp == 0) return h_isinf(a) ? "finite-for-infinity" : "infinity-for-finite";
        // 1-ULP functions: overflow threshold; the neighbour of the largest finite number is infinity
        int d = std::abs(hkey(r) - hkey(a));
        return d <= max_ulp ? "" : (h_isinf(a) ? "finite-for-infinity" : "infinity-for-finite");
    }
    if (h_iszero(a) && h_iszero(r)) return "wrong-sign-of-zero";
    if (special) return "wrong-special-value";            // exact zero expected, something else returned
    int d = std::abs(hkey(r) - hkey(a));
    if (d <= max_ulp) return "";
    if (max_ulp == 0) return d == 1 ? "off-by-1ulp" : "off-by-more-than-1ulp";
    return "off-by-more-than-1ulp";
}

static bool g_verbose = false;
// build flavour: the library's error handling compiled in (-DHALF_ERRHANDLING_FLAGS=1 -DHALF_ERRHANDLING_ERRNO=1) or not (default)
#if HALF_ERRHANDLING
static const bool g_eh = true;
#else
static const bool g_eh = false;
#endif
static const char* const rs_names[4] = {"toward-zero", "to-nearest", "toward-pos-inf", "toward-neg-inf"};
static inline std::string flavour()   // "" for the library as shipped
{
    std::string f = g_directed ? std::string("round-") + rs_names[g_rs] : std::string();
    if (g_eh) f += (f.empty() ? "" : "+") + std::string("errhandling");
    return f;
}
static inline std::string sigroot() { std::string f = flavour(); return f.empty() ? "C09/" : "C09/" + f + ":"; }
static inline std::string rs_text() { return g_directed ? std::string(" rounded ") + rs_names[g_rs] + " (the library is configured with HALF_ROUND_STYLE=" + vf::str(g_rs) + ")" : std::string(); }
static bool g_noref = false;   // sanitizer pass: only run the implementation (ASan / UBSan-bounds / crash / hang are the oracles)

// ------------------------------------------------------------------------------------------------
// unary real functions
// ------------------------------------------------------------------------------------------------
struct Unary
{
    const char* name;
    half (*impl)(half);
    mp1_t mp;
    long double (*ld)(long double);
    float (*fl)(float);
    int max_ulp;
};
static half i_sincos_s(half x) { half s, c; half_float::sincos(x, &s, &c); return s; }
static half i_sincos_c(half x) { half s, c; half_float::sincos(x, &s, &c); return c; }

#define UI(FN) [](half x) -> half { return half_float::FN(x); }
#define LD(FN) [](long double x) -> long double { return ::FN##l(x); }
#define FL(FN) [](float x) -> float { return ::FN##f(x); }
static const Unary unaries[] = {
    {"exp", UI(exp), mpfr_exp, LD(exp), FL(exp), 0},
    {"exp2", UI(exp2), mp_exp2, LD(exp2), FL(exp2), 0},
    {"expm1", UI(expm1), mpfr_expm1, LD(expm1), FL(expm1), 1},
    {"log", UI(log), mpfr_log, LD(log), FL(log), 0},
    {"log10", UI(log10), mpfr_log10, LD(log10), FL(log10), 0},
    {"log2", UI(log2), mpfr_log2, LD(log2), FL(log2), 0},
    {"log1p", UI(log1p), mpfr_log1p, LD(log1p), FL(log1p), 1},
    {"cbrt", UI(cbrt), mp_cbrt, LD(cbrt), FL(cbrt), 0},
    {"sin", UI(sin), mpfr_sin, LD(sin), FL(sin), 0},
    {"cos", UI(cos), mpfr_cos, LD(cos), FL(cos), 0},
    {"tan", UI(tan), mpfr_tan, LD(tan), FL(tan), 0},
    {"sincos.sin", i_sincos_s, mpfr_sin, LD(sin), FL(sin), 0},
    {"sincos.cos", i_sincos_c, mpfr_cos, LD(cos), FL(cos), 0},
    {"asin", UI(asin), mpfr_asin, LD(asin), FL(asin), 0},
    {"acos", UI(acos), mpfr_acos, LD(acos), FL(acos), 0},
    {"atan", UI(atan), mpfr_atan, LD(atan), FL(atan), 0},
    {"sinh", UI(sinh), mpfr_sinh, LD(sinh), FL(sinh), 0},
    {"cosh", UI(cosh), mpfr_cosh, LD(cosh), FL(cosh), 0},
    {"tanh", UI(tanh), mpfr_tanh, LD(tanh), FL(tanh), 0},
    {"asinh", UI(asinh), mpfr_asinh, LD(asinh), FL(asinh), 0},
    {"acosh", UI(acosh), mpfr_acosh, LD(acosh), FL(acosh), 0},
    {"atanh", UI(atanh), mpfr_atanh, LD(atanh), FL(atanh), 0},
    {"erf", UI(erf), mpfr_erf, LD(erf), FL(erf), 1},
    {"erfc", UI(erfc), mpfr_erfc, LD(erfc), FL(erfc), 1},
    {"lgamma", UI(lgamma), mp_lgamma, LD(lgamma), FL(lgamma), 1},
    {"tgamma", UI(tgamma), mpfr_gamma, LD(tgamma), FL(tgamma), 1},
};
static const int n_unary = int(sizeof unaries / sizeof unaries[0]);

static void do_unary(const Unary& u, u16 x)
{
    g_sh->phase = 1;
    u16 r = bits(u.impl(mk(x)));
    if (g_noref) { g_sh->phase = 0; cnt(C_SANEVAL); return; }
    RefOut o = ref1(u.mp, x);
    if (o.special) xcheck_special(u.name, u.fl(float(h2d(x))), o.a, x, 0, false);
    else xcheck_ld(u.name, u.ld((long double)h2d(x)), o.a, x, 0, false);
    g_sh->phase = 0;
    cnt(C_EVAL);
    bool nontriv = h_isfinite(o.a) && !h_iszero(o.a) && o.a != x;
    if (nontriv) cnt(C_NONTRIV);
    std::string k = judge(r, o.a, u.max_ulp, o.special);
    if (k.empty() && r != o.a && !h_isnan(o.a)) cnt(C_OFF1);
    if (!k.empty())
    {
        cnt(C_VIOL);
        vf::violation(sigroot() + u.name + "/" + cls(x) + "/" + k,
                      std::string(u.name) + "(" + hx(x) + ") returned " + hx(r) + ", correctly rounded binary16 result (MPFR)" + rs_text() + " is " + hx(o.a) +
                          (u.max_ulp ? " and the documented tolerance is 1 ULP" : "; the function is documented as exact to rounding"),
                      {"--one", u.name, hexs(x)});
    }
    if (g_verbose) std::printf("%s(%s) = %s ref %s %s\n", u.name, hx(x).c_str(), hx(r).c_str(), hx(o.a).c_str(), k.empty() ? "ok" : k.c_str());
    if (nontriv && (x == 0x3787 || x == 0xc0ff) && (!std::strcmp(u.name, "exp") || !std::strcmp(u.name, "tgamma") || !std::strcmp(u.name, "sincos.cos")))
        vf::sample(std::string(u.name) + "(" + hx(x) + ") = " + hx(r) + " ; MPFR " + hx(o.a), 2);
}

// ------------------------------------------------------------------------------------------------
// functions that must agree with the float functions: rounding to integer, decomposition, scaling
// ------------------------------------------------------------------------------------------------
static const char* const fnames[] = {"ceil", "floor", "trunc", "round", "rint", "nearbyint", "lround", "llround", "lrint", "llrint",
                                     "frexp", "modf", "ilogb", "logb"};
static const int n_fn = int(sizeof fnames / sizeof fnames[0]);

static void fviol(const char* fn, u16 x, const std::string& kind, const std::string& got, const std::string& want)
{
    cnt(C_VIOL);
    vf::violation(sigroot() + fn + "/" + cls(x) + "/" + kind,
                  std::string(fn) + "(" + hx(x) + ") gave " + got + ", the float function (result rounded to binary16) gives " + want,
                  {"--one", fn, hexs(x)});
}
static bool same_h(u16 r, u16 e) { return (h_isnan(r) && h_isnan(e)) || r == e; }

static void do_floatlike(int fi, u16 x)
{
    const char* fn = fnames[fi];
    float xf = float(h2d(x));
    half hx_ = mk(x);
    cnt(C_EVAL);
    bool nontriv = false;
    g_sh->phase = 1;
    switch (fi)
    {
    case 0: case 1: case 2: case 3: case 4: case 5:
    {
        half r;
        float e;
        switch (fi)
        {
        case 0: r = half_float::ceil(hx_); e = ::ceilf(xf); break;
        case 1: r = half_float::floor(hx_); e = ::floorf(xf); break;
        case 2: r = half_float::trunc(hx_); e = ::truncf(xf); break;
        case 3: r = half_float::round(hx_); e = ::roundf(xf); break;
        // rint / nearbyint round in the current rounding direction; for a directed configuration that is trunc / ceil / floor
        case 4: r = half_float::rint(hx_); e = g_rs == 1 ? ::rintf(xf) : g_rs == 0 ? ::truncf(xf) : g_rs == 2 ? ::ceilf(xf) : ::floorf(xf); break;
        default: r = half_float::nearbyint(hx_); e = g_rs == 1 ? ::nearbyintf(xf) : g_rs == 0 ? ::truncf(xf) : g_rs == 2 ? ::ceilf(xf) : ::floorf(xf); break;
        }
        u16 eb = f2h<float>(e);
        nontriv = h_isfinite(x) && eb != x;
        if (!same_h(bits(r), eb)) fviol(fn, x, "wrong-value", hx(bits(r)), hx(eb));
        if (g_verbose) std::printf("%s(%s) = %s ref %s\n", fn, hx(x).c_str(), hx(bits(r)).c_str(), hx(eb).c_str());
        break;
    }
    case 6: case 7: case 8: case 9:
    {
        if (!h_isfinite(x)) { cnt(C_EVAL, -1); break; }   // C leaves the result unspecified: not a case
        long long r, e;
        switch (fi)
        {
        case 6: r = half_float::lround(hx_); e = ::lroundf(xf); break;
        case 7: r = half_float::llround(hx_); e = ::llroundf(xf); break;
        case 8: r = half_float::lrint(hx_); e = g_rs == 1 ? ::lrintf(xf) : (long long)(g_rs == 0 ? ::truncf(xf) : g_rs == 2 ? ::ceilf(xf) : ::floorf(xf)); break;
        default: r = half_float::llrint(hx_); e = g_rs == 1 ? ::llrintf(xf) : (long long)(g_rs == 0 ? ::truncf(xf) : g_rs == 2 ? ::ceilf(xf) : ::floorf(xf)); break;
        }
        nontriv = (double(e) != h2d(x));
        if (r != e) fviol(fn, x, "wrong-value", vf::str(r), vf::str(e));
        if (g_verbose) std::printf("%s(%s) = %lld ref %lld\n", fn, hx(x).c_str(), r, e);
        break;
    }
    case 10:
    {
        int re = 12345, ee = 0;
        half r = half_float::frexp(hx_, &re);
        float e = ::frexpf(xf, &ee);
        u16 eb = f2h<float>(e);
        nontriv = h_isfinite(x) && !h_iszero(x);
        if (!same_h(bits(r), eb)) fviol(fn, x, "wrong-fraction", hx(bits(r)), hx(eb));
        else if (h_isfinite(x) && re != ee) fviol(fn, x, "wrong-exponent", "exponent " + vf::str(re), "exponent " + vf::str(ee));
        if (g_verbose) std::printf("frexp(%s) = %s,%d ref %s,%d\n", hx(x).c_str(), hx(bits(r)).c_str(), re, hx(eb).c_str(), ee);
        break;
    }
    case 11:
    {
        half ip = mk(0x1234);
        half r = half_float::modf(hx_, &ip);
        float ei = 0;
        float e = ::modff(xf, &ei);
        u16 eb = f2h<float>(e), eib = f2h<float>(ei);
        nontriv = h_isfinite(x) && !h_iszero(eb) && !h_iszero(eib);
        if (!same_h(bits(r), eb)) fviol(fn, x, "wrong-fraction", hx(bits(r)), hx(eb));
        else if (!same_h(bits(ip), eib)) fviol(fn, x, "wrong-integral-part", "integral part " + hx(bits(ip)), "integral part " + hx(eib));
        if (g_verbose) std::printf("modf(%s) = %s,%s ref %s,%s\n", hx(x).c_str(), hx(bits(r)).c_str(), hx(bits(ip)).c_str(), hx(eb).c_str(), hx(eib).c_str());
        break;
    }
    case 12:
    {
        int r = half_float::ilogb(hx_), e = ::ilogbf(xf);
        nontriv = h_isfinite(x) && !h_iszero(x);
        if (r != e) fviol(fn, x, "wrong-value", vf::str(r), vf::str(e));
        if (g_verbose) std::printf("ilogb(%s) = %d ref %d\n", hx(x).c_str(), r, e);
        break;
    }
    default:
    {
        half r = half_float::logb(hx_);
        u16 eb = f2h<float>(::logbf(xf));
        nontriv = h_isfinite(x) && !h_iszero(x);
        if (!same_h(bits(r), eb)) fviol(fn, x, "wrong-value", hx(bits(r)), hx(eb));
        if (g_verbose) std::printf("logb(%s) = %s ref %s\n", hx(x).c_str(), hx(bits(r)).c_str(), hx(eb).c_str());
        break;
    }
    }
    g_sh->phase = 0;
    if (nontriv) cnt(C_NONTRIV);
    if (nontriv && x == 0x4248 && (fi == 3 || fi == 8 || fi == 10 || fi == 11)) vf::sample(std::string(fn) + "(" + hx(x) + ") agrees with " + fn + "f", 1);
}

// ldexp(half,int) / scalbn(half,int) / scalbln(half,long): all halves x an exponent alphabet in the entry point's OWN exponent type.
//   every entry point : -60..60 (every exponent for which any half gives a finite non-zero result lies in -41..40)
//   int boundaries    : INT_MIN, INT_MIN+1, -2^30, -2^16, -61, 61, 2^16, 2^30, INT_MAX-1, INT_MAX
//   scalbln only      : +-(2^31-1), +-2^31, +-(2^31+1), +-(2^32-1), +-2^32, +-(2^32+1), +-(2^32+20), +-(2^32-20), +-2^33, +-2^40, +-2^48, +-2^62,
//                       and the extremes of long: LONG_MAX, LONG_MAX-1, LONG_MAX-31, LONG_MAX-32, LONG_MIN, LONG_MIN+1, LONG_MIN+9,
//                       LONG_MIN+10, LONG_MIN+11 (before the repair 812cbf9 in /repo, `--exp` while normalising a subnormal and
//                       `exp += abs>>10` overflowed a long within 31 of LONG_MAX / 10 of LONG_MIN: scalbln(1, LONG_MAX) was 0).
// Oracle: the correctly rounded value of x * 2^e: for |e| <= 60 std::ldexp in double (exact) rounded once to binary16 (and compared
// with ldexpf); for e > 60 a finite non-zero x overflows to infinity, for e < -60 it underflows to zero, sign kept; zero, infinity
// and NaN are returned unchanged.
static const char* const sc_names[] = {"ldexp", "scalbn", "scalbln"};
static std::vector<long> exp_alphabet(int which)
{
    std::vector<long> v;
    for (long e = -60; e <= 60; ++e) v.push_back(e);
    long ib[] = {long(INT_MIN), long(INT_MIN) + 1, -(1L << 30), -(1L << 16), -61, 61, 1L << 16, 1L << 30, long(INT_MAX) - 1, long(INT_MAX)};
    for (long e : ib) v.push_back(e);
    if (which == 2)
    {
        long p31 = 1L << 31, p32 = 1L << 32;
        long lb[] = {p31 - 1, p31, p31 + 1, p32 - 1, p32, p32 + 1, p32 + 20, p32 - 20, 1L << 33, 1L << 40, 1L << 48, 1L << 62};
        for (long e : lb) { v.push_back(e); v.push_back(-e); }
        long ext[] = {LONG_MAX, LONG_MAX - 1, LONG_MAX - 31, LONG_MAX - 32, LONG_MIN, LONG_MIN + 1, LONG_MIN + 9, LONG_MIN + 10, LONG_MIN + 11};
        for (long e : ext) v.push_back(e);
    }
    return v;
}
static u16 ref_scale(u16 x, long e)
{
    if (!h_isfinite(x) || h_iszero(x)) return h_isnan(x) ? u16(0x7E00) : x;
    bool away = rs_away(g_rs, (x & 0x8000) != 0);
    if (e > 60) return u16((x & 0x8000) | ((g_rs == 1 || away) ? 0x7C00 : 0x7BFF));     // 2^-24 * 2^61 > 65520; directed toward zero: largest finite
    if (e < -60) return u16((x & 0x8000) | (away ? 1 : 0));                              // 65504 * 2^-61 < 2^-25; directed away from zero: smallest subnormal
    return f2h<double>(std::ldexp(h2d(x), int(e)));    // exact product, one rounding
}
static void do_scale(int which, u16 x, long e)
{
    half hx_ = mk(x);
    bool fits_int = e >= long(INT_MIN) && e <= long(INT_MAX);
    if (which != 2 && !fits_int) return;               // not expressible in this entry point's exponent type
    g_sh->phase = 1;
    half r = which == 0 ? half_float::ldexp(hx_, int(e)) : which == 1 ? half_float::scalbn(hx_, int(e)) : half_float::scalbln(hx_, e);
    g_sh->phase = 0;
    u16 eb = ref_scale(x, e);
    if (g_directed && (e < -60 || e > 60)) { /* glibc's own result is rounded to nearest there: nothing to compare with */ }
    else if (fits_int)
    {
        u16 ef = f2h<float>(::ldexpf(float(h2d(x)), int(e)));      // the float function, result rounded to binary16
        u16 ed = f2h<double>(std::ldexp(h2d(x), int(e)));
        if (!same_h(ef, eb) || !same_h(ed, eb)) ref_error(std::string("ldexp(") + hx(x) + "," + vf::str(e) + "): reference " + hx(eb) + ", glibc double " + hx(ed) + ", glibc float " + hx(ef));
    }
    else
    {
        u16 el = f2h<double>(::scalbln(h2d(x), e));                // glibc scalbln takes the long exponent
        if (!same_h(el, eb)) ref_error(std::string("scalbln(") + hx(x) + "," + vf::str(e) + "): reference " + hx(eb) + ", glibc scalbln " + hx(el));
    }
    cnt(C_EVAL);
    if (h_isfinite(eb) && !h_iszero(eb) && eb != x) cnt(C_NONTRIV);
    if (!same_h(bits(r), eb))
    {
        cnt(C_VIOL);
        const char* ec = e > LONG_MAX - 64 ? "exp~LONG_MAX" : e < LONG_MIN + 64 ? "exp~LONG_MIN" : e < long(INT_MIN) ? "exp<INT_MIN" : e > long(INT_MAX) ? "exp>INT_MAX" : e == INT_MIN ? "INT_MIN" : e == INT_MAX ? "INT_MAX" :
                         e < -25 ? "exp<-25" : e < 0 ? "exp<0" : e == 0 ? "exp=0" : e <= 25 ? "exp>0" : "exp>25";
        vf::violation(sigroot() + sc_names[which] + "/" + cls(x) + "," + ec + "/wrong-value",
                      std::string(sc_names[which]) + "(" + hx(x) + ", " + vf::str(e) + ") returned " + hx(bits(r)) + ", correctly rounded x*2^e" + rs_text() + " (what " +
                          (fits_int ? "ldexpf rounded to binary16" : "C's scalbln") + " gives) is " + hx(eb),
                      {"--one", sc_names[which], hexs(x), vf::str(e)});
    }
    if (g_verbose) std::printf("%s(%s,%ld) = %s ref %s\n", sc_names[which], hx(x).c_str(), e, hx(bits(r)).c_str(), hx(eb).c_str());
    if (x == 0x3555 && ((e == -17 && which == 0) || ((e == (1L << 32) || e == LONG_MAX) && which == 2)))
        vf::sample(std::string(sc_names[which]) + "(" + hx(x) + ", " + vf::str(e) + ") = " + hx(bits(r)) + " ; correctly rounded x*2^e " + hx(eb), 3);
}

// ------------------------------------------------------------------------------------------------
// binary functions
// ------------------------------------------------------------------------------------------------
enum BKind { B_HYPOT, B_POW, B_ATAN2, B_FMOD, B_REMAINDER, B_REMQUO, B_FDIM, B_FMAX, B_FMIN, B_NEXTAFTER, B_COPYSIGN, B_N };
static const char* const bnames[B_N] = {"hypot", "pow", "atan2", "fmod", "remainder", "remquo", "fdim", "fmax", "fmin", "nextafter", "copysign"};
static const int b_ulp[B_N] = {0, 1, 1, 0, 0, 0, 0, 0, 0, 0, 0};

static int mp_remquo_q;
static int mp_remquo(mpfr_ptr r, mpfr_srcptr x, mpfr_srcptr y, mpfr_rnd_t rnd) { long q = 0; int t = mpfr_remquo(r, &q, x, y, rnd); mp_remquo_q = int(q); return t; }
static int mp_pow(mpfr_ptr r, mpfr_srcptr x, mpfr_srcptr y, mpfr_rnd_t rnd) { return mpfr_pow(r, x, y, rnd); }
static const mp2_t b_mp[B_N] = {mpfr_hypot, mp_pow, mpfr_atan2, mpfr_fmod, mpfr_remainder, mp_remquo, mpfr_dim, mpfr_max, mpfr_min, nullptr, nullptr};

static inline u16 b_impl(int k, u16 x, u16 y, int* quo)
{
    half a = mk(x), b = mk(y);
    switch (k)
    {
    case B_HYPOT: return bits(half_float::hypot(a, b));
    case B_POW: return bits(half_float::pow(a, b));
    case B_ATAN2: return bits(half_float::atan2(a, b));
    case B_FMOD: return bits(half_float::fmod(a, b));
    case B_REMAINDER: return bits(half_float::remainder(a, b));
    case B_REMQUO: return bits(half_float::remquo(a, b, quo));
    case B_FDIM: return bits(half_float::fdim(a, b));
    case B_FMAX: return bits(half_float::fmax(a, b));
    case B_FMIN: return bits(half_float::fmin(a, b));
    case B_NEXTAFTER: return bits(half_float::nextafter(a, b));
    default: return bits(half_float::copysign(a, b));
    }
}

// nextafter / copysign from the definition, on bit patterns
static u16 ref_nextafter(u16 x, u16 y)
{
    if (h_isnan(x) || h_isnan(y)) return 0x7E00;
    double dx = h2d(x), dy = h2d(y);
    if (dx == dy) return y;
    if (h_iszero(x)) return u16((dy < 0 ? 0x8000 : 0) | 1);
    bool up = dy > dx;                       // towards +infinity
    bool neg = (x & 0x8000) != 0;
    return (up != neg) ? u16(x + 1) : u16(x - 1);   // away from zero increments the magnitude field
}

// fast reference for the full-pair sweep; returns false when it cannot decide (then MPFR decides)
static bool fast_ref(int k, u16 x, u16 y, u16& out)
{
    double dx = h2d(x), dy = h2d(y);
    switch (k)
    {
    case B_HYPOT:
    {
        if (h_isinf(x) || h_isinf(y)) { out = 0x7C00; return true; }
        if (h_isnan(x) || h_isnan(y)) { out = 0x7E00; return true; }
        double L = std::sqrt(dx * dx + dy * dy);      // squares exact (22 bits), no overflow/underflow in double
        if (!decisive<double>(L)) return false;
        out = f2h<double>(L);
        return true;
    }
    case B_POW:
    {
        double L = std::pow(dx, dy);
        // directed styles: a double that overflowed / underflowed no longer says on which side of the largest finite half / of zero it lies
        if (g_directed && (std::isinf(L) || L == 0)) return false;
        if (!decisive<double>(L)) return false;
        out = f2h<double>(L);
        return true;
    }
    case B_ATAN2:
    {
        double L = std::atan2(dx, dy);
        if (!decisive<double>(L)) return false;
        out = f2h<double>(L);
        return true;
    }
    case B_FMOD: out = f2h<double>(std::fmod(dx, dy)); return true;             // exact operations on exact operands
    case B_REMAINDER:
    case B_REMQUO: out = f2h<double>(std::remainder(dx, dy)); return true;
    case B_FDIM:
        if (h_isnan(x) || h_isnan(y)) { out = 0x7E00; return true; }
        out = dx > dy ? f2h<double>(dx - dy) : u16(0);                           // dx - dy is exact in double (41 bits)
        return true;
    case B_FMAX:
        if (h_isnan(x)) { out = y; return true; }
        if (h_isnan(y)) { out = x; return true; }
        out = dx > dy ? x : (dy > dx ? y : ((x & 0x8000) ? y : x));             // equal: prefer +0, sign of zero not judged
        return true;
    case B_FMIN:
        if (h_isnan(x)) { out = y; return true; }
        if (h_isnan(y)) { out = x; return true; }
        out = dx < dy ? x : (dy < dx ? y : ((x & 0x8000) ? x : y));
        return true;
    case B_NEXTAFTER: out = ref_nextafter(x, y); return true;
    default: out = u16((x & 0x7FFF) | (y & 0x8000)); return true;
    }
}

static unsigned char g_level_of[65536];   // smallest sweep level (0 alphabet 1, 1 alphabet 2, 2 full) that contains the value
static int g_level = 0;                   // level of the running pair sweep
static bool g_count_nontriv = true;       // false for the special-operand sweep (its non-NaN pairs lie inside alphabet 1)

static std::string bsig(int k, u16 x, u16 y, const std::string& kind) { return sigroot() + bnames[k] + "/" + cls2(x) + "," + cls2(y) + "/" + kind; }

// quotient bits of remquo: sign of x/y, magnitude congruent modulo 8 to the integral quotient (C99 7.12.10.3, n >= 3)
static void check_quo(u16 x, u16 y, int quo)
{
    if (!h_isfinite(x) || h_isnan(y) || h_iszero(y)) return;        // quo unspecified
    double dx = h2d(x), dy = h2d(y);
    int gq = 0;
    (void)std::remquo(dx, dy, &gq);
    // mp_remquo_q was set by the MPFR call made for the value (when one was made); glibc is used for the fast path
    unsigned want = unsigned(std::abs(gq)) & 7, got = unsigned(std::abs(quo)) & 7;
    bool neg = (std::signbit(dx) != std::signbit(dy));
    bool ok = want == got && (quo == 0 || (quo < 0) == neg);
    if (!ok)
    {
        cnt(C_VIOL);
        vf::violation(bsig(B_REMQUO, x, y, "wrong-quotient-bits"),
                      "remquo(" + hx(x) + ", " + hx(y) + ") stored quo=" + vf::str(quo) + "; the integral quotient of x/y is congruent to " + ((neg && want) ? "-" : "") + vf::str(want) +
                          " modulo 8 (glibc remquo on the exact operands gives " + vf::str(gq) + ")",
                      {"--one", "remquo", hexs(x), hexs(y)});
    }
}

// mode 0: verdict from MPFR for every pair (fast reference cross-validated); mode 1: fast reference, MPFR when undecided or on mismatch
static void do_binary(int k, u16 x, u16 y, int mode)
{
    int quo = 0;
    g_sh->phase = 1;
    u16 r = b_impl(k, x, y, &quo);
    if (g_noref) { g_sh->phase = 0; cnt(C_SANEVAL); return; }
    g_sh->phase = 2;
    u16 fr = 0;
    bool fast_ok = fast_ref(k, x, y, fr);
    RefOut o;
    bool have_mp = false;
    bool exactkind = (k == B_NEXTAFTER || k == B_COPYSIGN);
    if (!exactkind && (mode == 0 || !fast_ok))
    {
        o = ref2(b_mp[k], x, y);
        have_mp = true;
        if (fast_ok && !same_h(fr, o.a) && !(h_iszero(fr) && h_iszero(o.a) && (k == B_FMAX || k == B_FMIN)))
            ref_error(std::string(bnames[k]) + "(" + hx(x) + ", " + hx(y) + "): MPFR=" + hx(o.a) + " fast reference (glibc)=" + hx(fr));
        if (o.special && (k == B_HYPOT || k == B_POW || k == B_ATAN2))
        {
            float fx = float(h2d(x)), fy = float(h2d(y));
            xcheck_special(bnames[k], k == B_HYPOT ? ::hypotf(fx, fy) : k == B_POW ? ::powf(fx, fy) : ::atan2f(fx, fy), o.a, x, y, true);
        }
    }
    else
    {
        o.a = fr;
        o.special = false;
        cnt(C_FAST);
    }
    u16 a = o.a;
    bool zero_sign_free = (k == B_FMAX || k == B_FMIN) && h_iszero(x) && h_iszero(y);
    std::string kind;
    if (zero_sign_free) kind = h_iszero(r) ? "" : "wrong-value";
    else if (exactkind || k == B_FMAX || k == B_FMIN || k == B_FMOD || k == B_REMAINDER || k == B_REMQUO || k == B_FDIM)
    {
        if (!same_h(r, a))
            kind = h_isnan(a) ? "number-for-nan" : h_isnan(r) ? "nan-for-number" : (h_iszero(a) && h_iszero(r)) ? "wrong-sign-of-zero" : "wrong-value";
    }
    else
    {
        // hypot (0 ULP), pow / atan2 (1 ULP).  In fast mode 'special' is unknown: a mismatch is re-judged with MPFR below.
        kind = judge(r, a, b_ulp[k], have_mp ? o.special : false);
        if (!kind.empty() && !have_mp)
        {
            o = ref2(b_mp[k], x, y);
            have_mp = true;
            if (!same_h(fr, o.a)) ref_error(std::string(bnames[k]) + "(" + hx(x) + ", " + hx(y) + "): MPFR=" + hx(o.a) + " fast reference (glibc double)=" + hx(fr));
            a = o.a;
            kind = judge(r, a, b_ulp[k], o.special);
        }
        else if (kind.empty() && !have_mp && b_ulp[k] && r != a && !h_isnan(a))
        {
            // accepted as 1 ULP off by the fast reference: exact special results must be exact, so ask MPFR whether this is one
            o = ref2(b_mp[k], x, y);
            have_mp = true;
            a = o.a;
            kind = judge(r, a, b_ulp[k], o.special);
        }
    }
    if (!kind.empty() && !have_mp && !exactkind)
    {
        // exact family on the fast path: confirm with MPFR before reporting
        o = ref2(b_mp[k], x, y);
        if (!same_h(fr, o.a) && !zero_sign_free) ref_error(std::string(bnames[k]) + "(" + hx(x) + ", " + hx(y) + "): MPFR=" + hx(o.a) + " fast reference=" + hx(fr));
    }
    // With error handling compiled in, a SIGNALLING NaN operand raises FE_INVALID and yields a quiet NaN even where Annex F lets a
    // quiet NaN be ignored (documented purpose of detail::select; Annex F does not define signalling NaNs): NaN is accepted there.
    if (g_eh && !kind.empty() && h_isnan(r) && (h_issnan(x) || h_issnan(y))) { kind.clear(); cnt(C_EHSNAN); }
    g_sh->phase = 0;
    cnt(C_EVAL);
    bool nontriv = g_count_nontriv && h_isfinite(a) && !h_iszero(a) && a != x && a != y;
    // a pair already covered by a smaller sweep (both operands in its alphabet) is evaluated again but not counted again as distinct
    bool first_visit = std::max(g_level_of[x], g_level_of[y]) == g_level;
    if (nontriv && first_visit) cnt(C_NONTRIV);
    if (kind.empty() && r != a && !h_isnan(a) && !zero_sign_free && first_visit) cnt(C_OFF1);
    if (!kind.empty())
    {
        cnt(C_VIOL);
        vf::violation(bsig(k, x, y, kind),
                      std::string(bnames[k]) + "(" + hx(x) + ", " + hx(y) + ") returned " + hx(r) + ", reference" + rs_text() + " " + hx(a) +
                          (b_ulp[k] ? " (MPFR, correctly rounded; documented tolerance 1 ULP)" : " (exact / correctly rounded)"),
                      {"--one", bnames[k], hexs(x), hexs(y)});
    }
    if (k == B_REMQUO) check_quo(x, y, quo);
    if (g_verbose)
        std::printf("%s(%s, %s) = %s ref %s%s %s\n", bnames[k], hx(x).c_str(), hx(y).c_str(), hx(r).c_str(), hx(a).c_str(),
                    k == B_REMQUO ? (" quo=" + vf::str(quo)).c_str() : "", kind.empty() ? "ok" : kind.c_str());
    if (nontriv && g_level == 0 && x == 0x4155 && ((y == 0x3955 && (k == B_POW || k == B_ATAN2 || k == B_HYPOT)) || (y == 0x3AAA && k == B_REMQUO)))
        vf::sample(std::string(bnames[k]) + "(" + hx(x) + ", " + hx(y) + ") = " + hx(r) + " ; reference " + hx(a), 2);
}

// ------------------------------------------------------------------------------------------------
// alphabets
// ------------------------------------------------------------------------------------------------
static std::vector<u16> alphabet(int which)   // 1: ~1000 values, 2: ~4100 values
{
    std::vector<int> mant;
    if (which == 1)
    {
        int m[] = {0, 1, 2, 3, 0x0FF, 0x100, 0x155, 0x1FF, 0x200, 0x201, 0x2AA, 0x300, 0x3FC, 0x3FD, 0x3FE, 0x3FF};
        mant.assign(m, m + 16);
    }
    else
    {
        for (int i = 0; i < 8; ++i) { mant.push_back(i); mant.push_back(0x3F8 + i); mant.push_back(0x1FC + i); mant.push_back(0x0FC + i); mant.push_back(0x2FC + i); }
        int extra[] = {0x008, 0x010, 0x020, 0x040, 0x080, 0x00F, 0x01F, 0x03F, 0x07F, 0x155, 0x2AA, 0x333, 0x0CC, 0x248, 0x1C7, 0x36D,
                       0x3F0, 0x3E0, 0x3C0, 0x380, 0x180, 0x280, 0x0AB, 0x355};
        for (int e : extra) mant.push_back(e);
        int m1[] = {0, 1, 2, 3, 0x0FF, 0x100, 0x155, 0x1FF, 0x200, 0x201, 0x2AA, 0x300, 0x3FC, 0x3FD, 0x3FE, 0x3FF};   // alphabet 1 is a subset
        for (int e : m1) mant.push_back(e);
        std::sort(mant.begin(), mant.end());
        mant.erase(std::unique(mant.begin(), mant.end()), mant.end());
    }
    std::vector<u16> v;
    for (int s = 0; s < 2; ++s)
        for (int e = 0; e <= 30; ++e)
            for (int m : mant) v.push_back(u16((s << 15) | (e << 10) | m));
    u16 sp[] = {0x7C00, 0xFC00, 0x7E00, 0xFE00, 0x7C01, 0xFDFF, 0x7FFF, 0xFFFF};
    for (u16 b : sp) v.push_back(b);
    return v;
}

// ------------------------------------------------------------------------------------------------
// forked sweep
// ------------------------------------------------------------------------------------------------
struct Task
{
    virtual ~Task() {}
    virtual unsigned long long size() const = 0;
    virtual void run(unsigned long long i) = 0;
    virtual std::string describe(unsigned long long i, std::vector<std::string>& replay, std::string& sigbase) = 0;
};

static double child_cpu(pid_t pid)
{
    clockid_t cid;
    if (clock_getcpuclockid(pid, &cid) != 0) return -1;
    timespec ts;
    if (clock_gettime(cid, &ts) != 0) return -1;
    return ts.tv_sec + ts.tv_nsec * 1e-9;
}

static double g_hang_cpu_s = 5.0;
static int g_max_deaths = 12;

static void child_finish()
{
    vf::reporter& r = vf::reporter::get();
    for (auto& kv : r.per_sig)
        if (kv.second > 1) std::printf("@@{\"t\":\"note\",\"v\":\"%s occurred %d times in one sweep\"}\n", vf::jesc(kv.first).c_str(), kv.second);
    std::fflush(stdout);
}

static void sweep(Task& t)
{
    unsigned long long start = 0, n = t.size();
    while (start < n)
    {
        std::fflush(stdout);
        g_sh->cur = start;
        g_sh->phase = 0;
        pid_t pid = fork();
        if (pid < 0) { std::perror("fork"); std::exit(3); }
        if (pid == 0)
        {
            for (unsigned long long i = start; i < n; ++i)
            {
                g_sh->cur = i;
                g_sh->seq++;
                t.run(i);
                if (vf::take_asan())
                {
                    std::vector<std::string> rp;
                    std::string sb;
                    std::string what = t.describe(i, rp, sb);
                    cnt(C_VIOL);
                    vf::violation(sb + "/asan-report", what + ": AddressSanitizer reported a memory error during this case (report on stderr)", rp);
                }
            }
            g_sh->cur = n;
            child_finish();
            std::_Exit(0);
        }
        int status = 0;
        unsigned long long last_seq = g_sh->seq;
        double last_cpu = 0;
        bool hang = false;
        for (;;)
        {
            pid_t w = waitpid(pid, &status, WNOHANG);
            if (w == pid) break;
            usleep(20000);
            unsigned long long s = g_sh->seq;
            double c = child_cpu(pid);
            if (s != last_seq) { last_seq = s; last_cpu = c; }
            else if (c >= 0 && c - last_cpu > g_hang_cpu_s)
            {
                hang = true;
                kill(pid, SIGKILL);
                waitpid(pid, &status, 0);
                break;
            }
        }
        if (!hang && WIFEXITED(status) && WEXITSTATUS(status) == 0 && g_sh->cur >= n) return;
        // died at case g_sh->cur
        unsigned long long at = g_sh->cur;
        int phase = g_sh->phase;
        std::vector<std::string> replay;
        std::string sigbase;
        std::string what = t.describe(at, replay, sigbase);
        std::string how = hang ? "did not return (no progress in " + vf::str(int(g_hang_cpu_s)) + " s of CPU time)"
                               : WIFSIGNALED(status) ? "died with signal " + vf::str(WTERMSIG(status)) : "exited with status " + vf::str(WEXITSTATUS(status));
        if (phase == 1 || phase == 0)
        {
            cnt(C_CRASH);
            cnt(C_VIOL);
            vf::violation(sigbase + (hang ? "/hang" : "/crash"), what + ": the call " + how, replay);
        }
        else
        {
            ref_error(what + ": the REFERENCE computation " + how);
        }
        start = at + 1;
        if (--g_max_deaths <= 0 && start < n)
        {
            vf::cap("sweep abandoned after repeated crashes/hangs of the implementation; " + vf::str(n - start) + " cases of this sweep not run");
            return;
        }
    }
}

struct UnaryTask : Task
{
    int f; unsigned lo, hi;
    unsigned long long size() const override { return hi - lo; }
    void run(unsigned long long i) override { do_unary(unaries[f], u16(lo + i)); }
    std::string describe(unsigned long long i, std::vector<std::string>& rp, std::string& sb) override
    {
        u16 x = u16(lo + i);
        rp = {"--one", unaries[f].name, hexs(x)};
        sb = sigroot() + unaries[f].name + "/" + cls(x);
        return std::string(unaries[f].name) + "(" + hx(x) + ")";
    }
};
struct FloatlikeTask : Task
{
    int f;
    unsigned long long size() const override { return 65536; }
    void run(unsigned long long i) override { do_floatlike(f, u16(i)); }
    std::string describe(unsigned long long i, std::vector<std::string>& rp, std::string& sb) override
    {
        u16 x = u16(i);
        rp = {"--one", fnames[f], hexs(x)};
        sb = sigroot() + fnames[f] + "/" + cls(x);
        return std::string(fnames[f]) + "(" + hx(x) + ")";
    }
};
struct ScaleTask : Task
{
    int which; std::vector<long> ea; unsigned lo, hi;
    unsigned long long size() const override { return (unsigned long long)(hi - lo) * ea.size(); }
    void run(unsigned long long i) override { do_scale(which, u16(lo + i / ea.size()), ea[i % ea.size()]); }
    std::string describe(unsigned long long i, std::vector<std::string>& rp, std::string& sb) override
    {
        u16 x = u16(lo + i / ea.size());
        long e = ea[i % ea.size()];
        rp = {"--one", sc_names[which], hexs(x), vf::str(e)};
        sb = sigroot() + sc_names[which] + "/" + cls(x);
        return std::string(sc_names[which]) + "(" + hx(x) + ", " + vf::str(e) + ")";
    }
};
struct PairTask : Task
{
    int k, mode;
    std::vector<u16> xs;      // x values of this shard
    std::vector<u16> ys;      // all y values (empty = all 65536)
    unsigned long long ny() const { return ys.empty() ? 65536ULL : ys.size(); }
    unsigned long long size() const override { return xs.size() * ny(); }
    u16 X(unsigned long long i) const { return xs[i / ny()]; }
    u16 Y(unsigned long long i) const { return ys.empty() ? u16(i % 65536) : ys[i % ny()]; }
    void run(unsigned long long i) override { do_binary(k, X(i), Y(i), mode); }
    std::string describe(unsigned long long i, std::vector<std::string>& rp, std::string& sb) override
    {
        rp = {"--one", bnames[k], hexs(X(i)), hexs(Y(i))};
        sb = sigroot() + bnames[k] + "/" + cls2(X(i)) + "," + cls2(Y(i));
        return std::string(bnames[k]) + "(" + hx(X(i)) + ", " + hx(Y(i)) + ")";
    }
};
// ------------------------------------------------------------------------------------------------
// three-argument hypot(x, y, z): documented exact to rounding.
// Verdict: exact integer arithmetic.  Finite halves are integers in units of 2^-24 (< 2^40), the sum of the three squares
// fits an unsigned 128-bit integer (< 2^82); the correctly rounded square root is found by comparing that sum with the squares
// of binary16 magnitudes and of the midpoint between the two neighbours (ties to even).  Cross reference (harness error on
// disagreement): MPFR, sum of squares exact at 256 bits, mpfr_sqrt to precision 11 in the binary16 exponent range + subnormalize.
// Special values (C++17 [c.math.hypot3] / C99 F.9.4.3): any infinite argument gives +inf even if another one is a NaN,
// otherwise any NaN gives NaN.
// ------------------------------------------------------------------------------------------------
typedef unsigned __int128 u128;
static inline uint64_t hmag(unsigned b)   // |value| * 2^24 for a finite pattern; 2^40 for the infinity pattern 0x7C00
{
    unsigned e = (b >> 10) & 31, m = b & 1023;
    return e ? uint64_t(m | 1024) << (e - 1) : uint64_t(m);
}
static u16 round_sqrt_u128(u128 S)        // correctly rounded binary16 of sqrt(S) * 2^-24
{
    if (S == 0) return 0;
    if (S >= (u128(1) << 80)) return (g_rs == 1 || g_rs == 2) ? 0x7C00 : 0x7BFF;   // the result is positive: only to-nearest and toward +inf overflow
    unsigned lo = 0, hi = 0x7C00;          // invariant hmag(lo)^2 <= S < hmag(hi)^2
    while (hi - lo > 1)
    {
        unsigned mid = (lo + hi) / 2;
        uint64_t m = hmag(mid);
        if (u128(m) * m <= S) lo = mid; else hi = mid;
    }
    if (g_directed) return u16((u128(hmag(lo)) * hmag(lo) == S || g_rs != 2) ? lo : hi);   // exact, or toward zero / -inf: lo; toward +inf: hi
    uint64_t ms = hmag(lo) + hmag(hi);     // twice the midpoint (for hi == 0x7C00: 2 * 65520 * 2^24)
    u128 l = S << 2, r = u128(ms) * ms;
    return u16(l > r ? hi : l < r ? lo : ((lo & 1) ? hi : lo));
}
static u16 ref_hypot3_int(u16 x, u16 y, u16 z)
{
    if (h_isinf(x) || h_isinf(y) || h_isinf(z)) return 0x7C00;
    if (h_isnan(x) || h_isnan(y) || h_isnan(z)) return 0x7E00;
    uint64_t X = hmag(x & 0x7FFF), Y = hmag(y & 0x7FFF), Z = hmag(z & 0x7FFF);
    return round_sqrt_u128(u128(X) * X + u128(Y) * Y + u128(Z) * Z);
}
static mpfr_t mz_, ms_;
static u16 ref_hypot3_mp(u16 x, u16 y, u16 z)
{
    if (h_isinf(x) || h_isinf(y) || h_isinf(z)) return 0x7C00;
    if (h_isnan(x) || h_isnan(y) || h_isnan(z)) return 0x7E00;
    static bool init = false;
    if (!init) { mpfr_init2(mz_, 24); mpfr_init2(ms_, 256); init = true; }
    range_wide();
    mpfr_set_d(mx_, h2d(x), MPFR_RNDN);
    mpfr_set_d(my_, h2d(y), MPFR_RNDN);
    mpfr_set_d(mz_, h2d(z), MPFR_RNDN);
    int inex = mpfr_sqr(mw_, mx_, MPFR_RNDN);
    inex |= mpfr_sqr(ms_, my_, MPFR_RNDN);
    inex |= mpfr_add(mw_, mw_, ms_, MPFR_RNDN);
    inex |= mpfr_sqr(ms_, mz_, MPFR_RNDN);
    inex |= mpfr_add(mw_, mw_, ms_, MPFR_RNDN);
    if (inex) ref_error("hypot3: sum of squares not exact at 256 bits for " + hx(x) + ", " + hx(y) + ", " + hx(z));
    range_half();
    int t = mpfr_sqrt(mr_, mw_, g_rnd);
    mpfr_subnormalize(mr_, t, g_rnd);
    u16 a = mp2h(mr_);
    range_wide();
    cnt(C_MPFR);
    return a;
}
static const char* cls3(u16 b)
{
    unsigned e = (b >> 10) & 31, m = b & 1023;
    if (e == 31) return m ? "nan" : "inf";
    if (e == 0) return m ? "sub" : "zero";
    return "norm";
}
static unsigned char g_in_a0[65536], g_in_a1[65536], g_in_a2[65536];
enum { T_CUBE0, T_CUBE1, T_DERIVED, T_TIES };
static int g_tfamily = T_CUBE0;

// mode 0: integer verdict AND MPFR on every triple; mode 1: double pre-filter, integer arithmetic when it is not decisive,
// integer + MPFR before any mismatch is reported
static void do_hypot3(u16 x, u16 y, u16 z, int mode)
{
    g_sh->phase = 1;
    u16 r = bits(half_float::hypot(mk(x), mk(y), mk(z)));
    if (g_noref) { g_sh->phase = 0; cnt(C_SANEVAL); return; }
    g_sh->phase = 2;
    u16 a;
    bool special = !h_isfinite(x) || !h_isfinite(y) || !h_isfinite(z);
    bool decided_fast = false;
    if (mode == 1 && !special)
    {
        double dx = h2d(x), dy = h2d(y), dz = h2d(z);
        double L = std::sqrt(dx * dx + dy * dy + dz * dz);      // squares exact; relative error < 2^-51
        if (decisive<double>(L)) { a = f2h<double>(L); decided_fast = true; cnt(C_FAST); }
    }
    if (!decided_fast) a = ref_hypot3_int(x, y, z);
    bool mismatch = !same_h(r, a);
    if (mode == 0 || (mismatch && decided_fast) || mismatch)
    {
        u16 ai = ref_hypot3_int(x, y, z), am = ref_hypot3_mp(x, y, z);
        cnt(C_XCHK_B);
        if (!same_h(ai, am)) ref_error("hypot3(" + hx(x) + ", " + hx(y) + ", " + hx(z) + "): integer reference " + hx(ai) + " MPFR " + hx(am));
        if (!same_h(ai, a)) ref_error("hypot3(" + hx(x) + ", " + hx(y) + ", " + hx(z) + "): integer reference " + hx(ai) + " double pre-filter " + hx(a));
        if (mode == 0 && !special)
        {
            double dx = h2d(x), dy = h2d(y), dz = h2d(z);
            double L = std::sqrt(dx * dx + dy * dy + dz * dz);
            if (decisive<double>(L) && f2h<double>(L) != ai) ref_error("hypot3(" + hx(x) + ", " + hx(y) + ", " + hx(z) + "): integer reference " + hx(ai) + " decisive double pre-filter " + hx(f2h<double>(L)));
        }
        if (special)
        {
            float f = ::hypotf(::hypotf(float(h2d(x)), float(h2d(y))), float(h2d(z)));   // class of nested glibc hypotf obeys the same rule
            xcheck_special("hypot3", f, ai, x, y, true);
        }
        a = ai;
        mismatch = !same_h(r, a);
    }
    if (g_eh && mismatch && h_isnan(r) && (h_issnan(x) || h_issnan(y) || h_issnan(z))) { mismatch = false; cnt(C_EHSNAN); }
    g_sh->phase = 0;
    cnt(C_EVAL);
    u16 ax = x & 0x7FFF, ay = y & 0x7FFF, az = z & 0x7FFF;
    bool nontriv = g_count_nontriv && h_isfinite(a) && !h_iszero(a) && a != ax && a != ay && a != az;
    // conservative distinct count: a triple that also belongs to a smaller family is evaluated again but not counted again
    bool all0 = g_in_a0[x] && g_in_a0[y] && g_in_a0[z], all1 = g_in_a1[x] && g_in_a1[y] && g_in_a1[z];
    bool first = g_tfamily == T_CUBE0 ? true : g_tfamily == T_CUBE1 ? !all0 : g_tfamily == T_DERIVED ? !all1 : !all1;
    if (nontriv && first) cnt(C_NONTRIV);
    if (mismatch)
    {
        std::string kind = h_isnan(a) ? "number-for-nan" : h_isnan(r) ? "nan-for-number" : (h_isinf(a) && !h_isinf(r)) ? "finite-for-infinity" :
                           (h_isinf(r) && !h_isinf(a)) ? "infinity-for-finite" : (r & 0x8000) ? "negative-result" :
                           std::abs(hkey(r) - hkey(a)) == 1 ? "off-by-1ulp" : "off-by-more-than-1ulp";
        cnt(C_VIOL);
        vf::violation((sigroot() + "hypot3/") + cls3(x) + "," + cls3(y) + "," + cls3(z) + "/" + kind,
                      "hypot(" + hx(x) + ", " + hx(y) + ", " + hx(z) + ") returned " + hx(r) + ", correctly rounded sqrt(x^2+y^2+z^2)" + rs_text() + " is " + hx(a) +
                          " (exact integer arithmetic, confirmed by MPFR); the function is documented as exact to rounding",
                      {"--one", "hypot3", hexs(x), hexs(y), hexs(z)});
    }
    if (g_verbose) std::printf("hypot(%s, %s, %s) = %s ref %s %s\n", hx(x).c_str(), hx(y).c_str(), hx(z).c_str(), hx(r).c_str(), hx(a).c_str(), mismatch ? "MISMATCH" : "ok");
    if (nontriv && ((x == 0x4200 && y == 0x4400 && z == 0x4A00) || (g_tfamily == T_TIES && x == 0x05c3 && y == 0x0594 && (z == 0 || z == 1))))
        vf::sample("hypot(" + hx(x) + ", " + hx(y) + ", " + hx(z) + ") = " + hx(r) + " ; exact " + hx(a), 3);
}

// alphabet 0: every exponent field x mantissas {0,1,0x1FF,0x200,0x3FF} x sign (this includes +-0 and subnormals), +-inf, 3 NaNs
static std::vector<u16> alphabet0()
{
    std::vector<u16> v;
    int mant[] = {0, 1, 0x1FF, 0x200, 0x3FF};
    for (int s = 0; s < 2; ++s)
        for (int e = 0; e <= 30; ++e)
            for (int m : mant) v.push_back(u16((s << 15) | (e << 10) | m));
    u16 sp[] = {0x7C00, 0xFC00, 0x7E00, 0xFE00, 0x7C01};
    for (u16 b : sp) v.push_back(b);
    return v;
}

// magnitude pattern of the half nearest to |v|
static inline u16 nearest_mag(double v) { return u16(f2h_rn<double>(std::fabs(v)) & 0x7FFF); }   // alphabets are the same in every build

// z values that make the smallest square barely matter: around 2^-k * max(|x|,|y|), and the neighbouring halves
static void zlist_scaled(u16 x, u16 y, int k0, int k1, std::vector<u16>& out)
{
    u16 ax = x & 0x7FFF, ay = y & 0x7FFF;
    u16 m = ax > ay ? ax : ay;
    double base = (m >= 0x7C00 || m == 0) ? 1.0 : h2d(m);
    for (int k = k0; k <= k1; ++k)
    {
        u16 z0 = nearest_mag(std::ldexp(base, -k));
        if (z0 == 0) z0 = 1;
        out.push_back(u16(z0 - 1));
        out.push_back(z0);
        out.push_back(u16(z0 + 1));
        out.push_back(u16(z0 | 0x8000));
    }
}
static const u16 Z_SKIP = 0x7FFF;   // marks a duplicate entry of a z list (a NaN pattern that no list produces)
static void dedupe_keep_positions(std::vector<u16>& v)
{
    std::vector<bool> seen(65536, false);
    for (u16& z : v) { if (seen[z]) z = Z_SKIP; else seen[z] = true; }
}

struct TripleTask : Task
{
    int mode = 1;
    virtual bool get(unsigned long long i, u16& x, u16& y, u16& z) = 0;   // false: index is a duplicate, nothing to run
    void run(unsigned long long i) override
    {
        u16 x, y, z;
        if (get(i, x, y, z)) do_hypot3(x, y, z, mode);
    }
    std::string describe(unsigned long long i, std::vector<std::string>& rp, std::string& sb) override
    {
        u16 x = 0, y = 0, z = 0;
        get(i, x, y, z);
        rp = {"--one", "hypot3", hexs(x), hexs(y), hexs(z)};
        sb = (sigroot() + "hypot3/") + cls3(x) + "," + cls3(y) + "," + cls3(z);
        return "hypot(" + hx(x) + ", " + hx(y) + ", " + hx(z) + ")";
    }
};
struct CubeTask : TripleTask
{
    std::vector<u16> xs, vals;
    unsigned long long size() const override { return (unsigned long long)xs.size() * vals.size() * vals.size(); }
    bool get(unsigned long long i, u16& x, u16& y, u16& z) override
    {
        unsigned long long n = vals.size();
        x = xs[i / (n * n)]; y = vals[(i / n) % n]; z = vals[i % n];
        return true;
    }
};
static inline void place(int p, u16 a, u16 b, u16 t, u16& x, u16& y, u16& z)
{
    if (p == 0) { x = a; y = b; z = t; } else if (p == 1) { x = a; y = t; z = b; } else { x = t; y = a; z = b; }
}
// for all pairs (a, b) of an alphabet: z around 2^-k max(|a|,|b|), k = 10..20, in all three argument positions
struct DerivedTask : TripleTask
{
    std::vector<u16> xs, vals;
    static const int NZ = 44;
    unsigned long long cached = ~0ULL;
    std::vector<u16> zl;
    unsigned long long size() const override { return (unsigned long long)xs.size() * vals.size() * NZ * 3; }
    bool get(unsigned long long i, u16& x, u16& y, u16& z) override
    {
        unsigned long long pair = i / (NZ * 3);
        u16 a = xs[pair / vals.size()], b = vals[pair % vals.size()];
        if (pair != cached) { zl.clear(); zlist_scaled(a, b, 10, 20, zl); dedupe_keep_positions(zl); cached = pair; }
        u16 t = zl[(i / 3) % NZ];
        place(int(i % 3), a, b, t, x, y, z);
        return t != Z_SKIP;
    }
};
// special operands: every NaN bit pattern in each of the three positions x all ordered pairs of 16 special/representative values
struct NanTripleTask : TripleTask
{
    std::vector<u16> sp;
    NanTripleTask()
    {
        u16 v[] = {0x0000, 0x8000, 0x7C00, 0xFC00, 0x3C00, 0xBC00, 0x7BFF, 0xFBFF, 0x0001, 0x8001, 0x7E00, 0x7C01, 0xFE00, 0x4200, 0x3800, 0x0400};
        sp.assign(v, v + 16);
    }
    unsigned long long size() const override { return 2046ULL * 256 * 3; }
    bool get(unsigned long long i, u16& x, u16& y, u16& z) override
    {
        unsigned long long t = i / 3;
        unsigned n = unsigned(t / 256);                  // 0..2045 -> NaN patterns 0x7C01..0x7FFF, 0xFC01..0xFFFF
        u16 nan = u16(n < 1023 ? 0x7C01 + n : 0xFC01 + (n - 1023));
        place(int(i % 3), sp[(t / 16) % 16], sp[t % 16], nan, x, y, z);
        return true;
    }
};
// all (a, b) for which sqrt(a^2+b^2) is EXACTLY half way between two neighbouring halves, found with integer arithmetic
static std::vector<std::pair<u16, u16>> tie_pairs()
{
    std::vector<std::pair<u16, u16>> out;
    // inverse of hmag for exact magnitudes
    auto mag2h = [](uint64_t M, u16& h) -> bool {
        if (M == 0 || M >= (uint64_t(1) << 40)) return false;
        int top = 63 - __builtin_clzll(M);
        if (top <= 10) { h = u16(M); return true; }              // subnormals and the first normal binade: pattern == magnitude
        int sh = top - 10;
        if (M & ((uint64_t(1) << sh) - 1)) return false;
        h = u16(((sh + 1) << 10) | ((M >> sh) & 1023));
        return true;
    };
    for (unsigned d = 0; d <= 11; ++d)
        for (uint64_t a = 1024; a < 2048; ++a)
            for (uint64_t b = 1024; b < 2048; ++b)
            {
                u128 s = u128(a << d) * (a << d) + u128(b) * b;
                uint64_t r = uint64_t(sqrtl((long double)s));
                while (u128(r) * r > s) --r;
                while (u128(r + 1) * (r + 1) <= s) ++r;
                if (u128(r) * r != s) continue;
                uint64_t M = r;
                while (!(M & 1)) M >>= 1;
                if (64 - __builtin_clzll(M) != 12) continue;      // not an odd multiple of half an ulp
                // place the significand pair at every exponent where both operands are halves
                for (int sft = -10; sft <= 29; ++sft)
                {
                    uint64_t B, A;
                    if (sft >= 0) { B = b << sft; A = (a << d) << sft; }
                    else { if ((b & ((1u << -sft) - 1)) || ((a << d) & ((uint64_t(1) << -sft) - 1))) continue; B = b >> -sft; A = (a << d) >> -sft; }
                    u16 ha, hb;
                    if (!mag2h(A, ha) || !mag2h(B, hb)) continue;
                    // confirm on the actual values: exact tie between two finite neighbours
                    u128 S = u128(A) * A + u128(B) * B;
                    if (S >= (u128(1) << 80)) continue;
                    unsigned lo = 0, hi = 0x7C00;
                    while (hi - lo > 1) { unsigned mid = (lo + hi) / 2; uint64_t m = hmag(mid); if (u128(m) * m <= S) lo = mid; else hi = mid; }
                    uint64_t ms = hmag(lo) + hmag(hi);
                    if ((S << 2) != u128(ms) * ms) continue;
                    out.push_back(std::make_pair(ha, hb));
                    if (ha != hb) out.push_back(std::make_pair(hb, ha));
                }
            }
    std::sort(out.begin(), out.end());
    out.erase(std::unique(out.begin(), out.end()), out.end());
    return out;
}
// tie pairs x z: z = +-0, every subnormal, 0x0400, 0x0401, and 2^-k max for k = 1..40 with neighbours; three positions.
// full = true: position (a, b, z) takes ALL 2^16 z instead.
struct TiesTask : TripleTask
{
    std::vector<std::pair<u16, u16>> pairs;   // this shard
    bool full = false;
    std::vector<u16> fixed;
    static const int NS = 160;                 // scaled part: 40 x 4
    unsigned long long cached = ~0ULL;
    std::vector<u16> zl;
    TiesTask()
    {
        fixed.push_back(0); fixed.push_back(0x8000);
        for (unsigned z = 1; z <= 0x401; ++z) fixed.push_back(u16(z));
    }
    unsigned long long nlist() const { return fixed.size() + NS; }
    unsigned long long per_pair() const { return full ? 65536ULL + 2 * nlist() : 3 * nlist(); }
    unsigned long long size() const override { return pairs.size() * per_pair(); }
    bool get(unsigned long long i, u16& x, u16& y, u16& z) override
    {
        unsigned long long pair = i / per_pair(), j = i % per_pair();
        u16 a = pairs[pair].first, b = pairs[pair].second;
        if (pair != cached)
        {
            zl = fixed;
            zlist_scaled(a, b, 1, 40, zl);
            dedupe_keep_positions(zl);
            cached = pair;
        }
        int p;
        u16 t;
        if (full)
        {
            if (j < 65536) { p = 0; t = u16(j); }
            else { j -= 65536; p = 1 + int(j / nlist()); t = zl[j % nlist()]; }
        }
        else { p = int(j / nlist()); t = zl[j % nlist()]; }
        // the sign of an argument is irrelevant mathematically; exercise it on two of the three positions
        if (p == 1) a = u16(a | 0x8000);
        if (p == 2) b = u16(b | 0x8000);
        place(p, a, b, t, x, y, z);
        return t != Z_SKIP;
    }
};

// ------------------------------------------------------------------------------------------------
// nexttoward(half from, long double to): nextafter with a direction of the widest floating type.
// C99 7.12.11.4: "equivalent to the nextafter functions except that the second parameter has type long double and the functions
// return y converted to the type of the function if x equals y"; F.9.8.4: no requirements beyond those on nextafter.
// So: NaN if either is a NaN; `to` (its value is `from`; for zeros: the sign of `to`) when they compare equal; otherwise the binary16
// value adjacent to `from` on the side of `to` - HOWEVER small the difference is and however far outside the half/float/double
// range `to` lies.  The comparison that decides the direction is a comparison of a half with a LONG DOUBLE; every half is exact in
// long double, so the reference compares there (exact), and a second reference compares in MPFR (64-bit significand, exact).
//
// Direction alphabet, for EVERY one of the 2^16 `from` patterns:
//   absolute : +-2^k for k in NT_KS (every format boundary of binary16, binary32, binary64 and the long double format: smallest
//              denormal, smallest normal, one binade beyond the largest finite value of the next narrower format, the epsilons), the
//              largest finite half/float/double/long double, 65520, each of them also one long double ulp up and down; +-0, +-inf,
//              quiet and signalling long double NaNs of both signs
//   relative : (only for a non-NaN `from` of value v) v, -v, 2v, v/2, the neighbour of v on either side in long double, in double and
//              in float precision, the two adjacent halves, the midpoints between v and the adjacent halves and those midpoints one
//              long double ulp up and down.  For v = +-0 the "neighbours" are the smallest denormals of the three formats, for
//              v = +-inf their largest finite values.
//   halves   : every value of a half alphabet (quick: alphabet 1, thorough: all 2^16) converted exactly to long double; here the
//              result must also equal nextafter's reference.
// ------------------------------------------------------------------------------------------------
typedef long double ld_t;
static_assert(LDBL_MANT_DIG == 64 && LDBL_MAX_EXP == 16384 && sizeof(unsigned long) == 8, "this part assumes a long double wider than double (x86-64: x87 extended)");

enum { C2_MERGE_D, C2_MERGE_F, C2_MERGE_H, C2_N };
static const char* c2names[C2_N] = {"nexttoward_directions_equal_to_from_only_after_narrowing_to_double", "nexttoward_directions_equal_to_from_only_after_narrowing_to_float",
                                    "nexttoward_other_directions_with_no_half_between_from_and_to"};
struct Shared2 { volatile long long cnt[C2_N]; };
static Shared2* g_sh2 = nullptr;

static const int NT_KS[] = {-16445, -16444, -16383, -16382, -16381, -1076, -1075, -1074, -1073, -1023, -1022, -1021, -151, -150, -149, -148, -127, -126, -125,
                            -64, -63, -53, -52, -26, -25, -24, -23, -15, -14, -13, -11, -10, -1, 0, 1, 10, 11, 14, 15, 16, 17, 24, 53, 64, 126, 127, 128, 129,
                            1022, 1023, 1024, 1025, 16382, 16383};

static bool ld_same_bits(ld_t a, ld_t b) { return std::memcmp(&a, &b, 10) == 0; }   // x87 extended: 10 value bytes
static void ld_push_unique(std::vector<ld_t>& v, ld_t c, size_t from = 0)
{
    for (size_t i = from; i < v.size(); ++i) if (ld_same_bits(v[i], c)) return;
    v.push_back(c);
}
static void ld_push3(std::vector<ld_t>& v, ld_t c, size_t from = 0)
{
    ld_push_unique(v, c, from);
    ld_push_unique(v, nextafterl(c, HUGE_VALL), from);
    ld_push_unique(v, nextafterl(c, -HUGE_VALL), from);
}
static std::vector<ld_t> nt_absolute()
{
    std::vector<ld_t> v;
    ld_t sp[] = {0.0L, -0.0L, HUGE_VALL, -HUGE_VALL, __builtin_nanl(""), -__builtin_nanl(""), __builtin_nansl("1"), -__builtin_nansl("1")};
    for (ld_t s : sp) ld_push_unique(v, s);
    for (int k : NT_KS) { ld_t p = ldexpl(1.0L, k); ld_push3(v, p); ld_push3(v, -p); }       // exact, denormal range included
    ld_t mx[] = {65504.0L, 65520.0L, (ld_t)FLT_MAX, (ld_t)DBL_MAX, LDBL_MAX};
    for (ld_t m : mx) { ld_push3(v, m); ld_push3(v, -m); }
    return v;
}
// value of the half `steps` places (+1 / -1) away from x on the ordered line of binary16 values (+-0 one point, +-inf the ends)
static bool h_step(u16 x, int dir, ld_t& out)
{
    int k = hkey(x) + dir;
    if (k > 0x7C00 || k < -0x7C00) return false;
    out = (ld_t)h2d(u16(k >= 0 ? k : (0x8000 | -k)));
    return true;
}
// directions built from the value of `from`; appended to v, duplicates (against v[base..]) dropped
static void nt_relative(u16 x, std::vector<ld_t>& v, size_t base)
{
    if (h_isnan(x)) return;
    double d = h2d(x);
    ld_t lv = (ld_t)d;
    float f = (float)d;
    ld_push_unique(v, lv, base);
    ld_push_unique(v, -lv, base);
    ld_push_unique(v, lv * 2, base);
    ld_push_unique(v, lv / 2, base);
    ld_push_unique(v, nextafterl(lv, HUGE_VALL), base);
    ld_push_unique(v, nextafterl(lv, -HUGE_VALL), base);
    ld_push_unique(v, (ld_t)std::nextafter(d, HUGE_VAL), base);
    ld_push_unique(v, (ld_t)std::nextafter(d, -HUGE_VAL), base);
    ld_push_unique(v, (ld_t)nextafterf(f, HUGE_VALF), base);
    ld_push_unique(v, (ld_t)nextafterf(f, -HUGE_VALF), base);
    for (int dir = -1; dir <= 1; dir += 2)
    {
        ld_t nb;
        if (!h_step(x, dir, nb)) continue;
        ld_push_unique(v, nb, base);
        if (std::isinf(nb) || std::isinf(lv)) continue;           // no midpoint with infinity (65520 is in the absolute part)
        ld_push3(v, (lv + nb) / 2, base);                          // exact: 12 significant bits
    }
}
static const int NT_NREL = 24;   // upper bound of what nt_relative appends (checked at run time)

static std::string ld_arg(ld_t y)      // exact, parseable text of a long double (replay argument)
{
    if (y != y)
    {
        unsigned char b[16];
        std::memcpy(b, &y, 10);
        bool quiet = (b[7] & 0x40) != 0, neg = (b[9] & 0x80) != 0;
        return std::string(neg ? "-" : "") + (quiet ? "qnan" : "snan");
    }
    char buf[80];
    std::snprintf(buf, sizeof buf, "%La", y);
    return buf;
}
static ld_t ld_parse(const std::string& s)
{
    if (s == "qnan") return __builtin_nanl("");
    if (s == "-qnan") return -__builtin_nanl("");
    if (s == "snan") return __builtin_nansl("1");
    if (s == "-snan") return -__builtin_nansl("1");
    return std::strtold(s.c_str(), nullptr);
}
static std::string ld_show(ld_t y)
{
    if (y != y) return ld_arg(y);
    char buf[120];
    std::snprintf(buf, sizeof buf, "%La(%.21Lg)", y, y);
    return buf;
}
// is the float exactly a binary16 value (zero and infinity included)?  Decided on the bit pattern of the float.
static bool flt_is_half(float f, u16& h)
{
    uint32_t u;
    std::memcpy(&u, &f, 4);
    uint32_t s = (u >> 16) & 0x8000, m = u & 0x7FFFFF;
    int e = int((u >> 23) & 255);
    if (e == 255) { h = u16(s | 0x7C00); return m == 0; }
    if (e == 0) { h = u16(s); return m == 0; }                      // float denormals are far below 2^-24
    int E = e - 127;
    if (E > 15 || E < -24) return false;
    if (E >= -14) { h = u16(s | uint32_t((E + 15) << 10) | (m >> 13)); return (m & 0x1FFF) == 0; }
    uint32_t full = 0x800000 | m;                                   // value = full * 2^(E-23) = (full >> (-E-1)) * 2^-24
    int sh = -E - 1;
    h = u16(s | (full >> sh));
    return (full & ((1u << sh) - 1)) == 0;
}
static bool ld_is_half(ld_t y, u16& h)   // is y exactly a binary16 value (zero and infinity included)?
{
    if (y != y) return false;
    unsigned char raw[16];
    std::memcpy(raw, &y, 10);
    int be = ((raw[9] & 0x7F) << 8) | raw[8];
    uint64_t mant;
    std::memcpy(&mant, raw, 8);
    // outside [2^-24, 2^16) and neither zero nor infinity: not a half (and no conversion that would underflow/overflow is attempted)
    if ((be < 16383 - 24 && (be || mant)) || (be > 16383 + 15 && be != 0x7FFF)) return false;
    float f = (float)y;
    if ((ld_t)f != y) return false;
    return flt_is_half(f, h);
}
static void nt_selftest()
{
    for (unsigned b = 0; b < 65536; ++b)
    {
        if (h_isnan(u16(b))) continue;
        u16 h = 0xFFFF;
        if (!ld_is_half((ld_t)h2d(u16(b)), h) || h != b) { std::fprintf(stderr, "selftest: ld_is_half fails on %04x\n", b); std::_Exit(3); }
        ld_t up = nextafterl((ld_t)h2d(u16(b)), HUGE_VALL), fu = (ld_t)nextafterf(float(h2d(u16(b))), HUGE_VALF);
        if ((!h_isinf(u16(b)) || (b & 0x8000)) && (ld_is_half(up, h) || (ld_is_half(fu, h) && b != 0xFBFF && !(b == 0xFC00))))
        { std::fprintf(stderr, "selftest: ld_is_half accepts a neighbour of %04x\n", b); std::_Exit(3); }
        if (f2h<long double>((ld_t)h2d(u16(b))) != b) { std::fprintf(stderr, "selftest: f2h<long double> fails on %04x\n", b); std::_Exit(3); }
    }
}
// narrowest format that holds the direction exactly: tells which narrowing of `to` would still be harmless
static const char* nt_dircls(ld_t y)
{
    if (y != y) return "nan";
    if (std::isinf(y)) return y < 0 ? "-inf" : "+inf";
    if (y == 0) return std::signbit(y) ? "-zero" : "+zero";
    u16 h;
    if (ld_is_half(y, h)) return "half-valued";
    if ((ld_t)(float)y == y) return "float-valued";
    if ((ld_t)(double)y == y) return "double-valued";
    return "longdouble-only";
}

// reference A (verdict): from the definition, comparison in long double (exact: every half is a long double)
static u16 ref_nexttoward(u16 x, ld_t y)
{
    if (h_isnan(x) || y != y) return 0x7E00;
    ld_t lx = (ld_t)h2d(x);
    if (lx == y) return h_iszero(x) ? u16(std::signbit(y) ? 0x8000 : 0) : x;   // "y converted to the type of the function"
    if (h_iszero(x)) return u16((y < 0 ? 0x8000 : 0) | 1);
    bool up = y > lx, neg = (x & 0x8000) != 0;
    return (up != neg) ? u16(x + 1) : u16(x - 1);
}
// reference B (guards A): comparison in MPFR with a 64-bit significand (exact), stepping on the ordered line of binary16 values
static u16 ref_nexttoward_mp(u16 x, ld_t y)
{
    if (h_isnan(x) || y != y) return 0x7E00;
    static mpfr_t my64;
    static bool init = false;
    if (!init) { mpfr_init2(my64, LDBL_MANT_DIG); init = true; }
    range_wide();
    // decode the x87 extended format by hand (sign, 15-bit exponent, 64-bit significand with explicit integer bit): no hardware
    // long double operation takes part in this reference
    unsigned char raw[16];
    std::memcpy(raw, &y, 10);
    uint64_t mant;
    std::memcpy(&mant, raw, 8);
    int be = ((raw[9] & 0x7F) << 8) | raw[8];
    bool yneg = (raw[9] & 0x80) != 0;
    if (be == 0x7FFF) mpfr_set_inf(my64, yneg ? -1 : 1);           // NaNs were handled above
    else
    {
        if (mpfr_set_ui_2exp(my64, mant, (be ? be : 1) - 16383 - 63, MPFR_RNDN) != 0) ref_error("nexttoward: long double " + ld_show(y) + " not exact in MPFR");
        if (yneg) mpfr_neg(my64, my64, MPFR_RNDN);
    }
    int c = mpfr_cmp_d(my64, h2d(x));
    cnt(C_MPFR);
    if (c == 0) return h_iszero(x) ? u16(mpfr_signbit(my64) ? 0x8000 : 0) : x;
    int k = hkey(x) + (c > 0 ? 1 : -1);
    if (k == 0) return u16(x & 0x8000);                 // stepping onto zero keeps the sign of `from`
    return u16(k > 0 ? k : (0x8000 | -k));
}

// use_mp: guard the verdict with the MPFR comparison; count_half: a direction that is itself a half counts as a distinct case here
// (only in the half-valued sweeps, so that no (from, to) pair is counted twice)
static void do_nexttoward(u16 x, ld_t y, bool use_mp, bool count_half)
{
    g_sh->phase = 1;
    u16 r = bits(half_float::nexttoward(mk(x), y));
    if (g_noref) { g_sh->phase = 0; cnt(C_SANEVAL); return; }
    g_sh->phase = 2;
    u16 a = ref_nexttoward(x, y);
    u16 yh = 0;
    bool y_half = ld_is_half(y, yh);
    if (use_mp && !g_eh)   // the guard of the reference need not be repeated for the second build flavour (same inputs, same reference)
    {
        u16 b = ref_nexttoward_mp(x, y);
        cnt(C_XCHK_B);
        if (!same_h(a, b)) ref_error("nexttoward(" + hx(x) + ", " + ld_show(y) + "): long double comparison gives " + hx(a) + ", MPFR comparison gives " + hx(b));
    }
    if (y_half)
    {
        // a direction that is itself a half: the definition of nextafter on bit patterns must give the same
        u16 n = ref_nextafter(x, yh);
        if (!same_h(a, n)) ref_error("nexttoward(" + hx(x) + ", " + ld_show(y) + "): reference " + hx(a) + ", nextafter reference on the half " + hx(yh) + " gives " + hx(n));
    }
    if (!h_isnan(a))
    {
        // glibc's nexttowardf on the exactly converted operand must move the same way (class check of the reference)
        float fx = float(h2d(x)), g = ::nexttowardf(fx, y);
        double dr = h2d(a), dx = h2d(x);
        cnt(C_XCHK_SPECIAL);
        bool ok = (g == g) && ((g > fx) == (dr > dx)) && ((g < fx) == (dr < dx)) && (!(g == 0 && h_iszero(a)) || std::signbit(g) == ((a & 0x8000) != 0));
        if (!ok) ref_error("nexttoward(" + hx(x) + ", " + ld_show(y) + "): reference " + hx(a) + " moves differently from glibc nexttowardf (" + vf::str(double(g)) + ")");
    }
    else
    {
        float g = ::nexttowardf(float(h2d(x)), y);
        cnt(C_XCHK_SPECIAL);
        if (g == g) ref_error("nexttoward(" + hx(x) + ", " + ld_show(y) + "): reference NaN, glibc nexttowardf gives a number");
    }
    g_sh->phase = 0;
    cnt(C_EVAL);
    bool nontriv = g_count_nontriv && (count_half || !y_half) && h_isfinite(a) && !h_iszero(a) && a != x;
    if (nontriv) cnt(C_NONTRIV);
    if (!g_eh && !h_isnan(a) && (ld_t)h2d(x) != y)
    {
        // the direction differs from `from`; would a narrower format still tell them apart?  (from = +-inf with a finite |to| beyond
        // DBL_MAX / FLT_MAX and from = +-0 with |to| below the smallest denormal of the format are instances of the same thing)
        ld_t lx = (ld_t)h2d(x), up = 0, dn = 0;
        bool hu = h_step(x, 1, up), hd = h_step(x, -1, dn);
        if ((double)y == (double)lx) g_sh2->cnt[C2_MERGE_D]++;
        else if ((float)y == (float)lx) g_sh2->cnt[C2_MERGE_F]++;
        else if ((!hu || y < up) && (!hd || y > dn)) g_sh2->cnt[C2_MERGE_H]++;
    }
    std::string kind;
    if (!same_h(r, a))
    {
        ld_t nb;
        bool other = false;
        for (int dir = -1; dir <= 1; dir += 2)
            if (h_step(x, dir, nb) && !h_isnan(r) && (ld_t)h2d(r) == nb && !(h_iszero(r) && h_iszero(a))) other = true;
        kind = h_isnan(a) ? "number-for-nan" : h_isnan(r) ? "nan-for-number" : (h_iszero(a) && h_iszero(r)) ? "wrong-sign-of-zero" :
               (r == x || (h_iszero(r) && h_iszero(x))) ? "did-not-step" : other ? "stepped-to-the-other-side" : "wrong-value";
        cnt(C_VIOL);
        vf::violation(sigroot() + "nexttoward/" + cls2(x) + "," + nt_dircls(y) + "/" + kind,
                      "nexttoward(" + hx(x) + ", " + ld_show(y) + ") returned " + hx(r) + "; C's nexttoward on binary16 (NaN if either is a NaN, `to` if they compare equal, "
                      "otherwise the binary16 value adjacent to `from` on the side of `to`, compared exactly in long double) gives " + hx(a),
                      {"--one", "nexttoward", hexs(x), ld_arg(y)});
    }
    if (g_verbose) std::printf("nexttoward(%s, %s) = %s ref %s %s\n", hx(x).c_str(), ld_show(y).c_str(), hx(r).c_str(), hx(a).c_str(), kind.empty() ? "ok" : kind.c_str());
    if (kind.empty() && ((x == 0x3C00 && ld_same_bits(y, nextafterl(1.0L, 2.0L))) || (x == 0x0000 && ld_same_bits(y, -ldexpl(1.0L, -16445))) || (x == 0x7C00 && ld_same_bits(y, LDBL_MAX))))
        vf::sample("nexttoward(" + hx(x) + ", " + ld_show(y) + ") = " + hx(r) + " ; reference " + hx(a), 3);
}

// from in [lo, hi) x (absolute directions + directions relative to from)
struct NtDirTask : Task
{
    unsigned lo = 0, hi = 0;
    std::vector<ld_t> abs_;
    std::vector<ld_t> dirs;            // absolute part followed by the relative part of the cached `from`
    unsigned long long cached = ~0ULL;
    NtDirTask() : abs_(nt_absolute()) {}
    unsigned long long per() const { return abs_.size() + NT_NREL; }
    unsigned long long size() const override { return (unsigned long long)(hi - lo) * per(); }
    bool get(unsigned long long i, u16& x, ld_t& y)
    {
        unsigned long long f = i / per(), j = i % per();
        x = u16(lo + f);
        if (f != cached)
        {
            dirs = abs_;
            nt_relative(x, dirs, 0);                    // a relative direction that is already in the absolute part is dropped
            if (dirs.size() > per()) { std::fprintf(stderr, "NT_NREL too small\n"); std::_Exit(3); }
            cached = f;
        }
        if (j >= dirs.size()) return false;
        y = dirs[j];
        return true;
    }
    void run(unsigned long long i) override
    {
        u16 x; ld_t y;
        if (get(i, x, y)) do_nexttoward(x, y, true, false);
    }
    std::string describe(unsigned long long i, std::vector<std::string>& rp, std::string& sb) override
    {
        u16 x = 0; ld_t y = 0;
        get(i, x, y);
        rp = {"--one", "nexttoward", hexs(x), ld_arg(y)};
        sb = sigroot() + "nexttoward/" + cls2(x) + "," + nt_dircls(y);
        return "nexttoward(" + hx(x) + ", " + ld_show(y) + ")";
    }
};
// from in a shard of all 2^16 patterns x directions that are halves (exactly converted)
struct NtHalfTask : Task
{
    std::vector<u16> xs, ys;           // ys empty = all 65536
    bool full = false;
    unsigned long long ny() const { return ys.empty() ? 65536ULL : ys.size(); }
    unsigned long long size() const override { return xs.size() * ny(); }
    u16 X(unsigned long long i) const { return xs[i / ny()]; }
    u16 Y(unsigned long long i) const { return ys.empty() ? u16(i % 65536) : ys[i % ny()]; }
    static ld_t dir(u16 y) { return h_isnan(y) ? ((y & 0x8000) ? -__builtin_nanl("") : __builtin_nanl("")) : (ld_t)h2d(y); }
    void run(unsigned long long i) override
    {
        u16 y = Y(i);
        bool save = g_count_nontriv;
        if (full && g_in_a1[y]) g_count_nontriv = false;   // already counted by the alphabet-1 sweep, which every tier runs
        do_nexttoward(X(i), dir(y), false, true);
        g_count_nontriv = save;
    }
    std::string describe(unsigned long long i, std::vector<std::string>& rp, std::string& sb) override
    {
        ld_t y = dir(Y(i));
        rp = {"--one", "nexttoward", hexs(X(i)), ld_arg(y)};
        sb = sigroot() + "nexttoward/" + cls2(X(i)) + "," + nt_dircls(y);
        return "nexttoward(" + hx(X(i)) + ", " + ld_show(y) + ")";
    }
};

// ------------------------------------------------------------------------------------------------
// Part 10: call HISTORIES.
//
// Parts 1-9 evaluate each function in ONE sweep per function over its arguments, so whatever a call leaves behind (a cache of the last
// argument reduction, a thread_local or static variable, the error flags of the error-handling build, a lazily filled table) only ever
// meets the next call of the SAME function on the NEXT argument.  "Returns the correctly rounded value for every argument" does not
// depend on what was called before, so this part enumerates what precedes a call:
//
//   walk   for every argument x of a range and a RELATION p (partner argument: p(x) = x, -x, the next bit pattern, the neighbouring
//          binade, a constant special value), the entry points e_0 e_1 e_2 ... are called along an Eulerian circuit of the complete
//          directed graph (with loops) on the set of entry points, alternately on x and p(x).  Consecutive calls of the circuit are
//          therefore EVERY ordered pair (f, g) of entry points exactly once per lap: g(x) right after f(p(x)) and g(p(x)) right after
//          f(x).  Relations that are not involutions walk two laps with the roles of x and p(x) exchanged.
//   fresh  every entry point g on every argument of an alphabet (thorough: all 2^16) as the FIRST library call of a newly created
//          thread (the empty history in the initial state of all thread_local data).
//
// Oracle.  A table T_g[x] of every entry point over all 2^16 arguments is computed first, each g in one ascending sweep of its own - the
// very history parts 1 and 2 judge against MPFR / the float functions.  Every call of a walk is compared with the table (NaN results
// canonicalised, results C leaves unspecified masked).  A difference is NOT yet a violation (a function documented "may be 1 ULP off"
// may legitimately give another value within its tolerance): it is then judged by the independent reference exactly like parts 1, 2
// and 4 - MPFR correctly rounded binary16 with the documented tolerance, the float functions, the bit-pattern definitions - and only a
// result that fails that judgement is reported.  Differences that pass are counted.
// ------------------------------------------------------------------------------------------------
enum { HK_UNARY, HK_SINCOS, HK_FLOATLIKE, HK_BINARY };
struct HEntry
{
    std::string name;
    int kind, idx;
    u16 c;       // binary section: the constant operand
    int pos;     // binary section: 0 = b(x, c), 1 = b(c, x)
};
enum { H_CALLS, H_DIFF, H_DIFF_OK, H_FRESH, H_N };
static const char* hnames[H_N] = {"history_walk_calls_compared_with_isolated_sweep", "history_results_differing_from_isolated_sweep",
                                  "history_differences_within_documented_tolerance", "history_first_calls_in_fresh_thread"};
struct Shared3 { volatile long long cnt[H_N]; };
static Shared3* g_sh3 = nullptr;

static inline u16 canon(u16 b) { return h_isnan(b) ? u16(0x7E00) : b; }

static std::vector<HEntry> h_entries(const std::string& set)   // "u": unary + float-like; "b1" / "b2" / "b4": + sections of the binary functions
{
    std::vector<HEntry> v;
    for (int i = 0; i < n_unary; ++i)
    {
        std::string n = unaries[i].name;
        if (n == "sincos.cos") continue;
        if (n == "sincos.sin") v.push_back(HEntry{"sincos", HK_SINCOS, i, 0, 0});
        else v.push_back(HEntry{n, HK_UNARY, i, 0, 0});
    }
    for (int i = 0; i < n_fn; ++i) v.push_back(HEntry{fnames[i], HK_FLOATLIKE, i, 0, 0});
    int nc = set == "b1" ? 1 : set == "b2" ? 2 : set == "b4" ? 4 : 0;
    // constants of the sections: 3.140625 (general path of every kernel), -0.33325 (negative, below one), 1 (the identity / special-case
    // ladders), a subnormal
    static const u16 cs[4] = {0x4248, 0xB555, 0x3C00, 0x0203};
    for (int k = 0; k < B_N; ++k)
        for (int ci = 0; ci < nc; ++ci)
            for (int pos = 0; pos < 2; ++pos)
                v.push_back(HEntry{std::string(bnames[k]) + (pos ? "(" + hexs(cs[ci]) + ",.)" : "(.," + hexs(cs[ci]) + ")"), HK_BINARY, k, cs[ci], pos});
    return v;
}

// float-like family: implementation (impl) or float-function reference, packed; what C leaves unspecified is masked to 0
static uint64_t fl_packed(int fi, u16 x, bool impl)
{
    float xf = float(h2d(x));
    half a = mk(x);
    switch (fi)
    {
    case 0: return canon(impl ? bits(half_float::ceil(a)) : f2h<float>(::ceilf(xf)));
    case 1: return canon(impl ? bits(half_float::floor(a)) : f2h<float>(::floorf(xf)));
    case 2: return canon(impl ? bits(half_float::trunc(a)) : f2h<float>(::truncf(xf)));
    case 3: return canon(impl ? bits(half_float::round(a)) : f2h<float>(::roundf(xf)));
    case 4: return canon(impl ? bits(half_float::rint(a)) : f2h<float>(g_rs == 1 ? ::rintf(xf) : g_rs == 0 ? ::truncf(xf) : g_rs == 2 ? ::ceilf(xf) : ::floorf(xf)));
    case 5: return canon(impl ? bits(half_float::nearbyint(a)) : f2h<float>(g_rs == 1 ? ::nearbyintf(xf) : g_rs == 0 ? ::truncf(xf) : g_rs == 2 ? ::ceilf(xf) : ::floorf(xf)));
    case 6: case 7: case 8: case 9:
    {
        if (!h_isfinite(x)) return 0;    // C leaves the result unspecified: not called, not a case
        long long r;
        if (impl) r = fi == 6 ? half_float::lround(a) : fi == 7 ? half_float::llround(a) : fi == 8 ? half_float::lrint(a) : half_float::llrint(a);
        else if (fi == 6) r = ::lroundf(xf);
        else if (fi == 7) r = ::llroundf(xf);
        else r = g_rs == 1 ? (fi == 8 ? (long long)::lrintf(xf) : ::llrintf(xf)) : (long long)(g_rs == 0 ? ::truncf(xf) : g_rs == 2 ? ::ceilf(xf) : ::floorf(xf));
        return uint64_t(r);
    }
    case 10:
    {
        int e = 0;
        u16 f;
        if (impl) f = bits(half_float::frexp(a, &e)); else f = f2h<float>(::frexpf(xf, &e));
        return (uint64_t(canon(f)) << 32) | (h_isfinite(x) ? uint32_t(e) : 0u);
    }
    case 11:
    {
        u16 f, ib;
        if (impl) { half ip = mk(0x1234); f = bits(half_float::modf(a, &ip)); ib = bits(ip); }
        else { float ei = 0; f = f2h<float>(::modff(xf, &ei)); ib = f2h<float>(ei); }
        return (uint64_t(canon(f)) << 16) | canon(ib);
    }
    case 12: return uint32_t(impl ? half_float::ilogb(a) : ::ilogbf(xf));
    default: return canon(impl ? bits(half_float::logb(a)) : f2h<float>(::logbf(xf)));
    }
}

static inline bool quo_specified(u16 x, u16 y) { return h_isfinite(x) && !h_isnan(y) && !h_iszero(y); }

// one call of the real function; result packed, NaNs canonicalised
static uint64_t h_call(const HEntry& e, u16 x)
{
    switch (e.kind)
    {
    case HK_UNARY: return canon(bits(unaries[e.idx].impl(mk(x))));
    case HK_SINCOS: { half s, c; half_float::sincos(mk(x), &s, &c); return (uint64_t(canon(bits(s))) << 16) | canon(bits(c)); }
    case HK_FLOATLIKE: return fl_packed(e.idx, x, true);
    default:
    {
        u16 a = e.pos ? e.c : x, b = e.pos ? x : e.c;
        int quo = 0;
        u16 r = canon(b_impl(e.idx, a, b, &quo));
        if (e.idx == B_REMQUO) return (uint64_t(r) << 32) | (quo_specified(a, b) ? uint32_t(quo) : 0u);
        return r;
    }
    }
}

static std::string h_show(const HEntry& e, uint64_t v)
{
    char buf[96];
    switch (e.kind)
    {
    case HK_UNARY: return hx(u16(v));
    case HK_SINCOS: return "sin=" + hx(u16(v >> 16)) + " cos=" + hx(u16(v));
    case HK_FLOATLIKE:
        if (e.idx <= 5 || e.idx == 13) return hx(u16(v));
        if (e.idx <= 9) { std::snprintf(buf, sizeof buf, "%lld", (long long)v); return buf; }
        if (e.idx == 10) return hx(u16(v >> 32)) + " exponent " + vf::str(int(uint32_t(v)));
        if (e.idx == 11) return "fraction " + hx(u16(v >> 16)) + " integral part " + hx(u16(v));
        return vf::str(int(uint32_t(v)));
    default:
        if (e.idx == B_REMQUO) return hx(u16(v >> 32)) + " quo " + vf::str(int(uint32_t(v)));
        return hx(u16(v));
    }
}

// the independent judgement of a result r of entry e on argument x: "" = acceptable under the statement, otherwise the failure kind
static std::string h_judge(const HEntry& e, u16 x, uint64_t r, std::string& want)
{
    g_sh->phase = 2;
    std::string kind;
    switch (e.kind)
    {
    case HK_UNARY:
    {
        const Unary& u = unaries[e.idx];
        RefOut o = ref1(u.mp, x);
        kind = judge(u16(r), o.a, u.max_ulp, o.special);
        want = "correctly rounded binary16 result (MPFR)" + rs_text() + " is " + hx(o.a) + (u.max_ulp ? ", documented tolerance 1 ULP" : ", documented exact to rounding");
        break;
    }
    case HK_SINCOS:
    {
        RefOut s = ref1(mpfr_sin, x), c = ref1(mpfr_cos, x);
        kind = judge(u16(r >> 16), s.a, 0, s.special);
        if (kind.empty()) kind = judge(u16(r), c.a, 0, c.special);
        want = "correctly rounded binary16 results (MPFR)" + rs_text() + " are sin=" + hx(s.a) + " cos=" + hx(c.a) + ", documented exact to rounding";
        break;
    }
    case HK_FLOATLIKE:
    {
        uint64_t a = fl_packed(e.idx, x, false);
        if (a != r) kind = "wrong-value";
        want = "the float function (result rounded to binary16) gives " + h_show(e, a);
        break;
    }
    default:
    {
        int k = e.idx;
        u16 ax = e.pos ? e.c : x, ay = e.pos ? x : e.c;
        u16 rv = k == B_REMQUO ? u16(r >> 32) : u16(r);
        bool exactkind = (k == B_NEXTAFTER || k == B_COPYSIGN), special = false;
        u16 a;
        if (exactkind) a = k == B_NEXTAFTER ? ref_nextafter(ax, ay) : u16((ax & 0x7FFF) | (ay & 0x8000));
        else { RefOut o = ref2(b_mp[k], ax, ay); a = o.a; special = o.special; }
        bool zero_sign_free = (k == B_FMAX || k == B_FMIN) && h_iszero(ax) && h_iszero(ay);
        if (zero_sign_free) kind = h_iszero(rv) ? "" : "wrong-value";
        else if (k == B_HYPOT || k == B_POW || k == B_ATAN2) kind = judge(rv, a, b_ulp[k], special);
        else if (!same_h(rv, a)) kind = h_isnan(a) ? "number-for-nan" : h_isnan(rv) ? "nan-for-number" : (h_iszero(a) && h_iszero(rv)) ? "wrong-sign-of-zero" : "wrong-value";
        if (g_eh && !kind.empty() && h_isnan(rv) && (h_issnan(ax) || h_issnan(ay))) kind.clear();   // see do_binary
        want = "reference" + rs_text() + " " + hx(a) + (b_ulp[k] ? " (MPFR, correctly rounded; documented tolerance 1 ULP)" : " (exact / correctly rounded)");
        if (kind.empty() && k == B_REMQUO && quo_specified(ax, ay))
        {
            int quo = int(uint32_t(r)), gq = 0;
            double dx = h2d(ax), dy = h2d(ay);
            (void)std::remquo(dx, dy, &gq);
            unsigned w = unsigned(std::abs(gq)) & 7, got = unsigned(std::abs(quo)) & 7;
            bool neg = (std::signbit(dx) != std::signbit(dy));
            if (!(w == got && (quo == 0 || (quo < 0) == neg)))
            {
                kind = "wrong-quotient-bits";
                want = "the integral quotient is congruent to " + std::string((neg && w) ? "-" : "") + vf::str(w) + " modulo 8 (glibc remquo gives " + vf::str(gq) + ")";
            }
        }
        break;
    }
    }
    g_sh->phase = 1;
    return kind;
}

struct HRel
{
    std::string name;
    int kind;    // 0 same argument, 1 xor mask, 2 next bit pattern, 3 constant
    u16 v;
    int laps;
    u16 partner(u16 x) const { return kind == 0 ? x : kind == 1 ? u16(x ^ v) : kind == 2 ? u16(x + 1) : v; }
};
static bool h_rel(const std::string& s, HRel& r)
{
    r.name = s;
    if (s == "same") { r.kind = 0; r.v = 0; r.laps = 1; return true; }
    if (s == "neg") { r.kind = 1; r.v = 0x8000; r.laps = 1; return true; }
    if (s.compare(0, 4, "xor:") == 0) { r.kind = 1; r.v = u16(std::strtoul(s.c_str() + 4, nullptr, 16)); r.laps = 1; return r.v != 0; }
    if (s == "next") { r.kind = 2; r.v = 0; r.laps = 2; return true; }
    if (s.compare(0, 6, "const:") == 0) { r.kind = 3; r.v = u16(std::strtoul(s.c_str() + 6, nullptr, 16)); r.laps = 2; return true; }
    return false;
}

// Eulerian circuit of the complete directed graph with loops on n vertices (Hierholzer): n*n + 1 vertices, first == last, every ordered
// pair (a, b) appears exactly once as two consecutive vertices.  Verified after construction.
static std::vector<int> h_circuit(int n)
{
    std::vector<int> next_out(n, 0), stack, out;
    stack.push_back(0);
    while (!stack.empty())
    {
        int v = stack.back();
        if (next_out[v] < n) { int w = (v + 1 + next_out[v]) % n; ++next_out[v]; stack.push_back(w); }   // edge v -> w; the loop v -> v comes last
        else { out.push_back(v); stack.pop_back(); }
    }
    std::reverse(out.begin(), out.end());
    std::vector<char> seen(size_t(n) * n, 0);
    size_t distinct = 0;
    for (size_t i = 0; i + 1 < out.size(); ++i)
    {
        char& s = seen[size_t(out[i]) * n + out[i + 1]];
        if (!s) { s = 1; ++distinct; }
    }
    if (out.size() != size_t(n) * n + 1 || distinct != size_t(n) * n || out.front() != out.back())
    {
        std::fprintf(stderr, "history: circuit construction failed (%zu vertices, %zu distinct pairs, n=%d)\n", out.size(), distinct, n);
        std::exit(3);
    }
    return out;
}

struct HistBase : Task
{
    std::string set;
    std::vector<HEntry> es;
    std::vector<std::vector<uint64_t>> tab;      // tab[e][x]: entry e in an ascending sweep of its own
    bool ready = false;
    void init(const std::string& s) { set = s; es = h_entries(s); }
    void tables()
    {
        if (ready) return;
        g_sh->phase = 1;
        tab.assign(es.size(), std::vector<uint64_t>(65536));
        for (size_t e = 0; e < es.size(); ++e)
            for (unsigned x = 0; x < 65536; ++x) tab[e][x] = h_call(es[e], u16(x));
        ready = true;
    }
    // compare one result with the isolated sweep; on a difference ask the independent reference.  Returns the failure kind ("" = fine).
    std::string differs(int ei, u16 arg, uint64_t r, std::string& want)
    {
        if (r == tab[ei][arg]) return std::string();
        g_sh3->cnt[H_DIFF]++;
        std::string kind = h_judge(es[ei], arg, r, want);
        if (kind.empty()) g_sh3->cnt[H_DIFF_OK]++;
        return kind;
    }
    void report(int ei, u16 arg, uint64_t r, const std::string& kind, const std::string& want, const std::string& sigmid, const std::string& context, const std::vector<std::string>& rp)
    {
        cnt(C_VIOL);
        vf::violation(sigroot() + "history:" + es[ei].name + "/" + sigmid + "/" + cls(arg) + "/" + kind,
                      es[ei].name + " on " + hx(arg) + " returned " + h_show(es[ei], r) + " " + context + "; in an argument sweep of " + es[ei].name +
                          " alone the same call returns " + h_show(es[ei], tab[ei][arg]) + "; " + want + ". The result of a call must not depend on the calls made before it",
                      rp);
    }
    // the two-call history f(farg), g(garg) in a newly created thread (initial state of all thread_local data); returns g's result
    uint64_t pair_in_fresh_thread(int fi, u16 farg, int gi, u16 garg)
    {
        uint64_t r = 0;
        const HEntry &f = es[fi], &g = es[gi];
        std::thread t([&r, &f, &g, farg, garg] { (void)h_call(f, farg); r = h_call(g, garg); });
        t.join();
        return r;
    }
    int find(const std::string& n) const { for (size_t i = 0; i < es.size(); ++i) if (es[i].name == n) return int(i); return -1; }
};

struct HistWalkTask : HistBase
{
    HRel rel;
    unsigned lo, hi;
    unsigned only = 0x10000;        // replay: report for this argument only (the one before it is walked to recreate the state)
    std::vector<int> circ;
    unsigned long long size() const override { return hi - lo; }
    void walk(u16 x, bool report)
    {
        u16 p = rel.partner(x);
        int prev = -1;
        u16 prevarg = 0;
        for (int lap = 0; lap < rel.laps; ++lap)
            for (size_t j = 0; j < circ.size(); ++j)
            {
                int ei = circ[j];
                u16 arg = ((j + lap) & 1) ? p : x;
                uint64_t r = h_call(es[ei], arg);
                if (report)
                {
                    g_sh3->cnt[H_CALLS]++;
                    cnt(C_EVAL);
                    if (r != tab[ei][arg])
                    {
                        std::string want, kind = differs(ei, arg, r, want);
                        if (!kind.empty()) blame(x, p, lap, j, ei, arg, r, prev, prevarg, kind, want);
                    }
                    if (g_verbose && r != tab[ei][arg]) std::printf("walk %s step %zu: %s(%s) = %s, isolated %s\n", hexs(x).c_str(), j, es[ei].name.c_str(), hx(arg).c_str(), h_show(es[ei], r).c_str(), h_show(es[ei], tab[ei][arg]).c_str());
                }
                prev = ei;
                prevarg = arg;
            }
    }
    // A violating call was found at a step of the walk.  The state that made it fail may have been left by ANY earlier call of the walk,
    // not necessarily by the immediate predecessor, so the history is minimised inside the enumerated space before it is reported: the
    // two-call histories f(a), g(arg) for every entry point f and a in {arg, the partner argument} are run in a newly created thread
    // (immediate predecessor first, then culprits found earlier, then all); the first one that reproduces the failing result names
    // the signature and is the replay.  If none does, the walk itself is the replay ("after-longer-history").
    std::vector<std::pair<int, int>> memo;     // (f, 0 same argument / 1 the other argument) that reproduced before
    int budget = 60;                           // full searches per process
    std::string relname(bool same_arg, u16 arg, u16 x) const { return same_arg ? "same" : (arg == x || rel.laps == 1) ? rel.name : rel.name + "-inverse"; }
    void blame(u16 x, u16 p, int lap, size_t j, int ei, u16 arg, uint64_t r, int prev, u16 prevarg, const std::string& kind, const std::string& want)
    {
        u16 other = arg == x ? p : x;
        std::vector<std::pair<int, int>> cand;
        if (prev >= 0) cand.push_back(std::make_pair(prev, prevarg == arg ? 0 : 1));
        for (auto& m : memo) cand.push_back(m);
        size_t cheap = cand.size();
        if (budget > 0)
            for (size_t f = 0; f < es.size(); ++f) { cand.push_back(std::make_pair(int(f), 0)); if (other != arg) cand.push_back(std::make_pair(int(f), 1)); }
        for (size_t c = 0; c < cand.size(); ++c)
        {
            if (c == cheap) --budget;
            int fi = cand[c].first;
            u16 farg = cand[c].second ? other : arg;
            if (cand[c].second && other == arg) continue;
            uint64_t r2 = pair_in_fresh_thread(fi, farg, ei, arg);
            if (r2 != r) continue;
            if (std::find(memo.begin(), memo.end(), cand[c]) == memo.end()) memo.push_back(cand[c]);
            std::string mid = "after-" + es[fi].name + "," + relname(farg == arg, arg, x);
            report(ei, arg, r, kind, want, mid, "when called right after " + es[fi].name + " on " + hx(farg) + " (two-call history in a newly created thread; found in the walk of all entry points on " + hexs(x) + ", relation '" + rel.name + "')",
                   {"--history", "pair", set, es[fi].name, hexs(farg), es[ei].name, hexs(arg), mid});
            return;
        }
        std::string ctx = prev < 0 ? std::string("as the first call of the walk on this argument")
                                   : "in the walk of all entry points on " + hexs(x) + " (relation '" + rel.name + "', lap " + vf::str(lap) + " step " + vf::str(j) + "), the call before it being " + es[prev].name + " on " + hx(prevarg) +
                                         "; no two-call history reproduces it";
        report(ei, arg, r, kind, want, "after-longer-history," + rel.name, ctx, {"--history", "one", set, rel.name, hexs(x), vf::str(lo)});
    }
    void run(unsigned long long i) override
    {
        tables();
        g_sh->phase = 1;
        u16 x = u16(lo + i);
        walk(x, only == 0x10000 || x == only);
        g_sh->phase = 0;
    }
    std::string describe(unsigned long long i, std::vector<std::string>& rp, std::string& sb) override
    {
        u16 x = u16(lo + i);
        rp = {"--history", "one", set, rel.name, hexs(x), vf::str(lo)};
        sb = sigroot() + "history:walk," + rel.name + "/" + cls(x);
        return "walk of all entry points (relation '" + rel.name + "') on " + hx(x);
    }
};

struct HistFreshTask : HistBase
{
    std::vector<u16> xs;
    int only_e = -1;
    unsigned long long size() const override { return es.size() * xs.size(); }
    void run(unsigned long long i) override
    {
        tables();
        g_sh->phase = 1;
        int ei = int(i / xs.size());
        u16 x = xs[i % xs.size()];
        uint64_t r = 0;
        const HEntry& e = es[ei];
        std::thread t([&r, &e, x] { r = h_call(e, x); });
        t.join();
        g_sh3->cnt[H_FRESH]++;
        cnt(C_EVAL);
        std::string want, kind = differs(ei, x, r, want);
        if (!kind.empty()) report(ei, x, r, kind, want, "first-call-in-fresh-thread", "as the first library call of a newly created thread", {"--history", "fresh1", set, e.name, hexs(x)});
        g_sh->phase = 0;
    }
    std::string describe(unsigned long long i, std::vector<std::string>& rp, std::string& sb) override
    {
        int ei = int(i / xs.size());
        u16 x = xs[i % xs.size()];
        rp = {"--history", "fresh1", set, es[ei].name, hexs(x)};
        sb = sigroot() + "history:" + es[ei].name + "/first-call-in-fresh-thread/" + cls(x);
        return es[ei].name + " on " + hx(x) + " as the first call of a new thread";
    }
};

struct HistPairTask : HistBase
{
    int fi, gi;
    u16 farg, garg;
    std::string mid;
    unsigned long long size() const override { return 1; }
    void run(unsigned long long) override
    {
        tables();
        g_sh->phase = 1;
        uint64_t r = pair_in_fresh_thread(fi, farg, gi, garg);
        cnt(C_EVAL);
        std::string want, kind = differs(gi, garg, r, want);
        std::printf("%s on %s right after %s on %s (new thread) = %s, isolated sweep %s: %s\n", es[gi].name.c_str(), hx(garg).c_str(), es[fi].name.c_str(), hx(farg).c_str(), h_show(es[gi], r).c_str(),
                    h_show(es[gi], tab[gi][garg]).c_str(), kind.empty() ? "ok" : kind.c_str());
        if (!kind.empty())
            report(gi, garg, r, kind, want, mid, "when called right after " + es[fi].name + " on " + hx(farg) + " (two-call history in a newly created thread)",
                   {"--history", "pair", set, es[fi].name, hexs(farg), es[gi].name, hexs(garg), mid});
        g_sh->phase = 0;
    }
    std::string describe(unsigned long long, std::vector<std::string>& rp, std::string& sb) override
    {
        rp = {"--history", "pair", set, es[fi].name, hexs(farg), es[gi].name, hexs(garg), mid};
        sb = sigroot() + "history:" + es[gi].name + "/" + mid + "/" + cls(garg);
        return es[fi].name + " on " + hx(farg) + " then " + es[gi].name + " on " + hx(garg);
    }
};

struct OneTask : Task
{
    std::vector<std::string> a;
    unsigned long long size() const override { return 1; }
    void run(unsigned long long) override
    {
        g_verbose = true;
        const std::string& fn = a[0];
        u16 x = u16(std::strtoul(a[1].c_str(), nullptr, 16));
        for (int i = 0; i < n_unary; ++i) if (fn == unaries[i].name) { do_unary(unaries[i], x); return; }
        for (int i = 0; i < n_fn; ++i) if (fn == fnames[i]) { do_floatlike(i, x); return; }
        for (int i = 0; i < 3; ++i) if (fn == sc_names[i]) { do_scale(i, x, std::strtol(a.at(2).c_str(), nullptr, 10)); return; }
        if (fn == "nexttoward") { do_nexttoward(x, ld_parse(a.at(2)), true, true); return; }
        if (fn == "hypot3") { do_hypot3(x, u16(std::strtoul(a.at(2).c_str(), nullptr, 16)), u16(std::strtoul(a.at(3).c_str(), nullptr, 16)), 0); return; }
        for (int i = 0; i < B_N; ++i) if (fn == bnames[i]) { do_binary(i, x, u16(std::strtoul(a.at(2).c_str(), nullptr, 16)), 0); return; }
        std::printf("unknown function %s\n", fn.c_str());
        std::_Exit(4);
    }
    std::string describe(unsigned long long, std::vector<std::string>& rp, std::string& sb) override
    {
        rp = {"--one"};
        for (auto& s : a) rp.push_back(s);
        u16 x = u16(std::strtoul(a[1].c_str(), nullptr, 16));
        sb = sigroot() + a[0] + "/";
        bool binary = false;
        for (int i = 0; i < B_N; ++i) if (a[0] == bnames[i]) binary = true;
        if (a[0] == "nexttoward") sb += std::string(cls2(x)) + "," + nt_dircls(ld_parse(a.at(2)));
        else if (a[0] == "hypot3") sb += std::string(cls3(x)) + "," + cls3(u16(std::strtoul(a.at(2).c_str(), nullptr, 16))) + "," + cls3(u16(std::strtoul(a.at(3).c_str(), nullptr, 16)));
        else if (binary) sb += std::string(cls2(x)) + "," + cls2(u16(std::strtoul(a.at(2).c_str(), nullptr, 16)));
        else sb += cls(x);
        std::string w = a[0] + "(" + a[1];
        for (size_t i = 2; i < a.size(); ++i) w += ", " + a[i];
        return w + ")";
    }
};

static int find(const char* const* names, int n, const std::string& s)
{
    for (int i = 0; i < n; ++i) if (s == names[i]) return i;
    return -1;
}

int main(int argc, char** argv)
{
    g_sh = (Shared*)mmap(nullptr, sizeof(Shared), PROT_READ | PROT_WRITE, MAP_SHARED | MAP_ANONYMOUS, -1, 0);
    if (g_sh == MAP_FAILED) { std::perror("mmap"); return 3; }
    std::memset((void*)g_sh, 0, sizeof(Shared));
    g_sh2 = (Shared2*)mmap(nullptr, sizeof(Shared2), PROT_READ | PROT_WRITE, MAP_SHARED | MAP_ANONYMOUS, -1, 0);
    if (g_sh2 == MAP_FAILED) { std::perror("mmap"); return 3; }
    std::memset((void*)g_sh2, 0, sizeof(Shared2));
    g_sh3 = (Shared3*)mmap(nullptr, sizeof(Shared3), PROT_READ | PROT_WRITE, MAP_SHARED | MAP_ANONYMOUS, -1, 0);
    if (g_sh3 == MAP_FAILED) { std::perror("mmap"); return 3; }
    std::memset((void*)g_sh3, 0, sizeof(Shared3));
    mp_init();
    for (unsigned b = 0; b < 65536; ++b) g_h2d[b] = h2d_slow(u16(b));
    std::vector<std::string> a(argv + 1, argv + argc);
    if (!a.empty() && a[0] == "--noref") { g_noref = true; a.erase(a.begin()); }
    if (a.empty()) { std::fprintf(stderr, "usage: see check.py\n"); return 3; }
    std::string label;
    for (u16 v : alphabet0()) g_in_a0[v] = 1;
    for (u16 v : alphabet(1)) g_in_a1[v] = 1;
    for (u16 v : alphabet(2)) g_in_a2[v] = 1;
    for (unsigned v = 0; v < 65536; ++v) if (g_in_a0[v] && !g_in_a1[v]) { std::fprintf(stderr, "alphabet 0 is not a subset of alphabet 1: %04x\n", v); return 3; }
    if (a[0] == "--one")
    {
        OneTask t;
        t.a.assign(a.begin() + 1, a.end());
        if (t.a.size() < 2) return 3;
        sweep(t);
    }
    else if (a[0] == "--unary")            // --unary <name> <lo> <hi>
    {
        UnaryTask t;
        t.f = -1;
        for (int i = 0; i < n_unary; ++i) if (a.at(1) == unaries[i].name) t.f = i;
        if (t.f < 0) return 3;
        t.lo = unsigned(std::strtoul(a.at(2).c_str(), nullptr, 0));
        t.hi = unsigned(std::strtoul(a.at(3).c_str(), nullptr, 0));
        sweep(t);
        label = a[1];
    }
    else if (a[0] == "--floatlike")        // --floatlike <name>
    {
        FloatlikeTask t;
        t.f = find(fnames, n_fn, a.at(1));
        if (t.f < 0) return 3;
        sweep(t);
        label = a[1];
    }
    else if (a[0] == "--scale")            // --scale <name> <lo> <hi>
    {
        ScaleTask t;
        t.which = find(sc_names, 3, a.at(1));
        if (t.which < 0) return 3;
        t.ea = exp_alphabet(t.which);
        t.lo = unsigned(std::strtoul(a.at(2).c_str(), nullptr, 0));
        t.hi = unsigned(std::strtoul(a.at(3).c_str(), nullptr, 0));
        sweep(t);
        label = a[1];
    }
    else if (a[0] == "--pairs")            // --pairs <name> alpha1|alpha2|full <mode 0|1> <shard> <nshards>
    {
        PairTask t;
        t.k = find(bnames, B_N, a.at(1));
        if (t.k < 0) return 3;
        t.mode = std::atoi(a.at(3).c_str());
        unsigned shard = unsigned(std::atoi(a.at(4).c_str())), ns = unsigned(std::atoi(a.at(5).c_str()));
        std::vector<u16> all;
        std::memset(g_level_of, 2, sizeof g_level_of);
        for (u16 v : alphabet(2)) g_level_of[v] = 1;
        for (u16 v : alphabet(1)) g_level_of[v] = 0;
        g_level = a[2] == "full" ? 2 : a[2] == "alpha1" ? 0 : 1;
        if (a[2] == "full") { for (unsigned x = 0; x < 65536; ++x) all.push_back(u16(x)); }
        else if (a[2] == "spec")
        {
            // special operands: alphabet 0 (every exponent, +-0, subnormals, +-inf) and EVERY NaN bit pattern, quiet and signalling
            all = alphabet0();
            for (unsigned n = 0x7C01; n <= 0x7FFF; ++n) { all.push_back(u16(n)); all.push_back(u16(n | 0x8000)); }
            std::sort(all.begin(), all.end());
            all.erase(std::unique(all.begin(), all.end()), all.end());
            t.ys = all;
            g_count_nontriv = false;
            g_level = 2;
        }
        else { all = alphabet(a[2] == "alpha1" ? 1 : 2); t.ys = all; }
        // contiguous blocks of x: shard s gets [s*N/ns, (s+1)*N/ns)
        size_t lo = all.size() * shard / ns, hi = all.size() * (shard + 1) / ns;
        t.xs.assign(all.begin() + lo, all.begin() + hi);
        sweep(t);
        label = a[1] + std::string("/") + a[2];
        if (shard == 0) vf::note(std::string("alphabet ") + a[2] + " has " + vf::str(all.size()) + " values");
    }
    else if (a[0] == "--triples")          // --triples cube0|cube1 <mode> <shard> <n> | derived alpha1|alpha2 <shard> <n> | ties list|full <shard> <n>
    {
        const std::string& what = a.at(1);
        if (what == "cube0" || what == "cube1")
        {
            CubeTask t;
            g_tfamily = what == "cube0" ? T_CUBE0 : T_CUBE1;
            t.vals = what == "cube0" ? alphabet0() : alphabet(1);
            t.mode = std::atoi(a.at(2).c_str());
            unsigned shard = unsigned(std::atoi(a.at(3).c_str())), ns = unsigned(std::atoi(a.at(4).c_str()));
            size_t lo = t.vals.size() * shard / ns, hi = t.vals.size() * (shard + 1) / ns;
            t.xs.assign(t.vals.begin() + lo, t.vals.begin() + hi);
            sweep(t);
            if (shard == 0) vf::note("hypot3 " + what + ": alphabet of " + vf::str(t.vals.size()) + " values, all ordered triples");
        }
        else if (what == "derived")
        {
            DerivedTask t;
            g_tfamily = T_DERIVED;
            t.vals = alphabet(a.at(2) == "alpha1" ? 1 : 2);
            unsigned shard = unsigned(std::atoi(a.at(3).c_str())), ns = unsigned(std::atoi(a.at(4).c_str()));
            size_t lo = t.vals.size() * shard / ns, hi = t.vals.size() * (shard + 1) / ns;
            t.xs.assign(t.vals.begin() + lo, t.vals.begin() + hi);
            sweep(t);
        }
        else if (what == "nans")
        {
            NanTripleTask t;
            g_tfamily = T_DERIVED;
            g_count_nontriv = false;
            sweep(t);
        }
        else if (what == "ties")
        {
            TiesTask t;
            g_tfamily = T_TIES;
            t.full = a.at(2) == "full";
            std::vector<std::pair<u16, u16>> all = tie_pairs();
            unsigned shard = unsigned(std::atoi(a.at(3).c_str())), ns = unsigned(std::atoi(a.at(4).c_str()));
            size_t lo = all.size() * shard / ns, hi = all.size() * (shard + 1) / ns;
            t.pairs.assign(all.begin() + lo, all.begin() + hi);
            sweep(t);
            if (shard == 0) vf::note("hypot3 ties: " + vf::str(all.size()) + " ordered positive pairs (x,y) with sqrt(x^2+y^2) exactly half way between two halves (found with integer arithmetic)");
        }
        else return 3;
        label = "hypot3/" + what + (what == "cube0" || what == "cube1" || what == "nans" ? std::string() : "/" + a.at(2));
    }
    else if (a[0] == "--nexttoward")       // --nexttoward dirs <lo> <hi> | halves alpha1|alpha2|full <shard> <n> | list
    {
        const std::string& what = a.at(1);
        nt_selftest();
        if (what == "list")
        {
            std::vector<ld_t> v = nt_absolute();
            for (ld_t y : v) std::printf("%-14s %s\n", nt_dircls(y), ld_show(y).c_str());
            std::printf("%zu absolute directions\n", v.size());
            for (unsigned x : {0x3C00u, 0x0000u, 0x7C00u, 0x0001u, 0xFBFFu})
            {
                std::vector<ld_t> r;
                nt_relative(u16(x), r, 0);
                std::printf("relative to %s: %zu\n", hx(u16(x)).c_str(), r.size());
                for (ld_t y : r) std::printf("  %-14s %s\n", nt_dircls(y), ld_show(y).c_str());
            }
            return 0;
        }
        else if (what == "dirs")
        {
            NtDirTask t;
            t.lo = unsigned(std::strtoul(a.at(2).c_str(), nullptr, 0));
            t.hi = unsigned(std::strtoul(a.at(3).c_str(), nullptr, 0));
            sweep(t);
            if (t.lo == 0) vf::note("nexttoward: " + vf::str(t.abs_.size()) + " absolute long double directions + up to " + vf::str(NT_NREL) + " directions relative to each from (duplicates dropped)");
        }
        else if (what == "halves")
        {
            NtHalfTask t;
            t.full = a.at(2) == "full";
            if (!t.full) t.ys = alphabet(a.at(2) == "alpha1" ? 1 : 2);
            unsigned shard = unsigned(std::atoi(a.at(3).c_str())), ns = unsigned(std::atoi(a.at(4).c_str()));
            for (unsigned x = 65536u * shard / ns; x < 65536u * (shard + 1) / ns; ++x) t.xs.push_back(u16(x));
            sweep(t);
        }
        else return 3;
        label = "nexttoward/" + what + (what == "halves" ? "-" + a.at(2) : std::string());
    }
    else if (a[0] == "--history")          // --history walk <set> <relation> <lo> <hi> | fresh <set> alpha1|alpha2|full <shard> <n> | one <set> <relation> <x> <lo> | pair <set> <f> <farg> <g> <garg> <sigmid> | fresh1 <set> <entry> <x> | list <set>
    {
        const std::string& what = a.at(1);
        if (what == "list")
        {
            std::vector<HEntry> es = h_entries(a.at(2));
            for (auto& e : es) std::printf("%s\n", e.name.c_str());
            std::printf("%zu entry points, circuit of %zu calls\n", es.size(), h_circuit(int(es.size())).size());
            return 0;
        }
        if (what == "walk" || what == "one")
        {
            HistWalkTask t;
            t.init(a.at(2));
            if (!h_rel(a.at(3), t.rel)) return 3;
            t.circ = h_circuit(int(t.es.size()));
            if (what == "walk")
            {
                t.lo = unsigned(std::strtoul(a.at(4).c_str(), nullptr, 0));
                t.hi = unsigned(std::strtoul(a.at(5).c_str(), nullptr, 0));
            }
            else
            {
                unsigned x = unsigned(std::strtoul(a.at(4).c_str(), nullptr, 16)), lo = unsigned(std::strtoul(a.at(5).c_str(), nullptr, 0));
                g_verbose = true;
                t.only = x;
                t.lo = x > lo ? x - 1 : x;      // the walk on the preceding argument recreates the state the sweep was in
                t.hi = x + 1;
            }
            sweep(t);
            if (what == "walk" && t.lo == 0)
                vf::note("history walk, entry set '" + t.set + "': " + vf::str(t.es.size()) + " entry points, all " + vf::str(t.es.size() * t.es.size()) +
                         " ordered pairs (f, g) as consecutive calls of an Eulerian circuit (" + vf::str(t.circ.size()) + " calls per lap and argument)");
            if (what == "walk") label = "history/walk-" + t.set + "-" + t.rel.name;
            if (what == "walk" && t.lo == 0) vf::stat("history_ordered_function_pairs:" + t.set + "," + t.rel.name + (flavour().empty() ? "" : "," + flavour()), (long long)(t.es.size() * t.es.size()));
        }
        else if (what == "pair")               // --history pair <set> <f> <farg> <g> <garg> <signature middle>
        {
            HistPairTask t;
            t.init(a.at(2));
            t.fi = t.find(a.at(3));
            t.gi = t.find(a.at(5));
            if (t.fi < 0 || t.gi < 0) return 3;
            t.farg = u16(std::strtoul(a.at(4).c_str(), nullptr, 16));
            t.garg = u16(std::strtoul(a.at(6).c_str(), nullptr, 16));
            t.mid = a.at(7);
            sweep(t);
        }
        else if (what == "fresh" || what == "fresh1")
        {
            HistFreshTask t;
            t.init(a.at(2));
            if (what == "fresh")
            {
                unsigned shard = unsigned(std::atoi(a.at(4).c_str())), ns = unsigned(std::atoi(a.at(5).c_str()));
                std::vector<u16> all;
                if (a.at(3) == "full") { for (unsigned x = 0; x < 65536; ++x) all.push_back(u16(x)); }
                else all = alphabet(a.at(3) == "alpha1" ? 1 : 2);
                size_t lo = all.size() * shard / ns, hi = all.size() * (shard + 1) / ns;
                t.xs.assign(all.begin() + lo, all.begin() + hi);
                label = "history/fresh-thread-" + t.set + "-" + a.at(3);
            }
            else
            {
                g_verbose = true;
                std::vector<HEntry> one;
                for (auto& e : t.es) if (e.name == a.at(3)) one.push_back(e);
                if (one.size() != 1) return 3;
                t.es = one;
                t.xs.push_back(u16(std::strtoul(a.at(4).c_str(), nullptr, 16)));
            }
            sweep(t);
        }
        else return 3;
    }
    else if (a[0] == "--alphabet-size") { std::printf("%zu %zu\n", alphabet(1).size(), alphabet(2).size()); return 0; }
    else return 3;

    if (g_noref)
    {
        // the sanitizer pass repeats cases of the main pass: count them separately
        g_sh->cnt[C_SANEVAL] += g_sh->cnt[C_EVAL];
        g_sh->cnt[C_EVAL] = g_sh->cnt[C_NONTRIV] = g_sh->cnt[C_OFF1] = g_sh->cnt[C_MPFR] = g_sh->cnt[C_FAST] = 0;
        g_sh->cnt[C_XCHK_B] = g_sh->cnt[C_XCHK_C] = g_sh->cnt[C_XCHK_SPECIAL] = 0;
    }
    if (g_directed && !g_noref)
    {
        // further build configurations (HALF_ROUND_STYLE 0 / 2 / 3, with or without error handling): executions of different library
        // code against the reference rounded in the same direction; counted as evaluations, (conservatively) not again as distinct cases
        g_sh->cnt[C_DIREVAL] = g_sh->cnt[C_EVAL];
        g_sh->cnt[C_NONTRIV] = 0;
        if (!label.empty()) label = flavour() + ":" + label;
    }
    else if (g_eh && !g_noref)
    {
        // second build configuration: the cases are executions of different library code and are counted as evaluations,
        // but (conservatively) not again as distinct non-trivial cases
        g_sh->cnt[C_EHEVAL] = g_sh->cnt[C_EVAL];
        g_sh->cnt[C_NONTRIV] = 0;
        if (!label.empty()) label = "errhandling:" + label;
    }
    for (int i = 0; i < C_N; ++i)
        if (g_sh->cnt[i]) vf::stat(cnames[i], g_sh->cnt[i]);
    for (int i = 0; i < H_N; ++i)
        if (g_sh3->cnt[i]) vf::stat(hnames[i], g_sh3->cnt[i]);
    for (int i = 0; i < C2_N; ++i)
        if (g_sh2->cnt[i] && !g_eh && !g_directed) vf::stat(c2names[i], g_sh2->cnt[i]);
    if (!label.empty() && !g_noref)
    {
        vf::stat("evaluations:" + label, g_sh->cnt[C_EVAL]);
        if (g_sh->cnt[C_OFF1]) vf::stat("results_1ulp_off_allowed:" + label, g_sh->cnt[C_OFF1]);
    }
    if (g_sh->referr)
    {
        // a reference disagreement is a harness error: end without the "done" record
        vf::reporter& r = vf::reporter::get();
        for (auto& kv : r.stats) std::printf("@@{\"t\":\"stat\",\"k\":\"%s\",\"v\":%lld}\n", vf::jesc(kv.first).c_str(), kv.second);
        std::printf("REFERENCE DISAGREEMENT: harness error\n");
        return 5;
    }
    vf::done();
    return 0;
}
