"""C09 half math functions meet their documented accuracy: exhaustive enumeration of arguments, MPFR correctly rounded binary16 reference.

See NOTES.md in this directory for what is enumerated, the oracle and what is deliberately not judged.
"""
import os
import threading
import time

import vlib

LEVEL = "exploration"
HERE = os.path.dirname(os.path.abspath(__file__))
SRC = os.path.join(HERE, "harness.cpp")

UNARY = ["exp", "exp2", "expm1", "log", "log10", "log2", "log1p", "cbrt", "sin", "cos", "tan", "sincos.sin", "sincos.cos",
         "asin", "acos", "atan", "sinh", "cosh", "tanh", "asinh", "acosh", "atanh", "erf", "erfc", "lgamma", "tgamma"]
UNARY_HEAVY = {"erfc": 8, "lgamma": 8, "tgamma": 8, "erf": 2, "atan": 2, "asinh": 2, "log10": 2}     # number of input ranges (MPFR cost)
FLOATLIKE = ["ceil", "floor", "trunc", "round", "rint", "nearbyint", "lround", "llround", "lrint", "llrint", "frexp", "modf", "ilogb", "logb"]
SCALE = ["ldexp", "scalbn", "scalbln"]
# cheap ones first: if the thorough deadline cuts the full-pair sweep short, the cut falls on as few functions as possible
BINARY = ["copysign", "nextafter", "fmax", "fmin", "fdim", "fmod", "remainder", "remquo", "atan2", "hypot", "pow"]
FULL_CHUNKS = 256            # chunks of 256 x-values x all 65536 y-values
# further library configurations: HALF_ROUND_STYLE 0 (toward zero), 2 (toward +inf), 3 (toward -inf) x error handling off / on.
# "correctly rounded" is read relative to the configured style: the reference is MPFR rounding in the same direction.
DIRECTED_ALL = ["rs0", "rs0eh", "rs2", "rs2eh", "rs3", "rs3eh"]
DIRECTED_QUICK = ["rs3eh", "rs0eh", "rs2"]      # every style once, both copies of the rounding helpers; the full cross product is thorough
EH_DEFINES = ["HALF_ERRHANDLING_FLAGS=1", "HALF_ERRHANDLING_ERRNO=1"]
LIBS = ["-lmpfr", "-lgmp", "-pthread"]      # -pthread: part 10 evaluates first calls in newly created threads
# Part 10, call histories: (build, entry set, relation, number of argument-range shards).  Entry sets: "u" = the 25 unary + 14 float-like
# entry points (39); "b1" / "b2" / "b4" = u + both sections b(x,c), b(c,x) of the 11 binary functions for the first 1 / 2 / 4 constants
# c of {3.140625, -0.33325, 1, subnormal 0x0203} (61 / 83 / 127 entry points).  Relations: partner argument p(x) = x ("same"), -x ("neg"),
# the next bit pattern ("next"), the neighbouring binade ("xor:0400"), the neighbouring mantissa ("xor:0001"), a constant ("const:<bits>").
# Every walk covers ALL ordered pairs of its entry set on ALL 2^16 arguments.
HIST_QUICK = [("fast", "b1", "same", 8), ("fast", "b1", "neg", 8), ("fast", "u", "next", 4), ("fast", "u", "const:7e00", 4),
              ("eh", "u", "same", 2), ("eh", "u", "const:7d00", 4)]
HIST_QUICK_DIRECTED = [("u", "same", 2)]
HIST_THOROUGH = ([("fast", "b4", r, 32) for r in ("same", "neg")] +
                 [("fast", "b2", r, 16) for r in ("next", "xor:0400", "xor:0001")] +
                 [("fast", "u", "const:" + c, 4) for c in ("7e00", "7d00", "7c00", "fc00", "0000", "8000", "3c00", "0001", "7bff")] +
                 [("eh", "b2", r, 16) for r in ("same", "neg")] + [("eh", "u", "next", 4)] +
                 [("eh", "u", "const:" + c, 4) for c in ("7e00", "7d00", "7c00", "fc00", "0000", "8000", "3c00", "0001", "7bff")])
HIST_THOROUGH_DIRECTED = [("b1", "same", 8), ("b1", "neg", 8), ("u", "next", 4)]


def build(kind):
    if kind == "fast":
        return vlib.compile_cxx(SRC, "c09", std="c++14", opt="-O2", san="none", libs=LIBS)
    if kind.startswith("rs"):
        defs = ["HALF_ROUND_STYLE=" + kind[2]] + (EH_DEFINES if kind.endswith("eh") else [])
        return vlib.compile_cxx(SRC, "c09" + kind, std="c++14", opt="-O2", san="none", libs=LIBS, defines=defs)
    if kind == "eh":
        # the library's error handling compiled in: detail::raise/select/rounded/... take their `#if HALF_ERRHANDLING` branches
        return vlib.compile_cxx(SRC, "c09eh", std="c++14", opt="-O2", san="none", libs=LIBS,
                                defines=["HALF_ERRHANDLING_FLAGS=1", "HALF_ERRHANDLING_ERRNO=1"])
    return vlib.compile_cxx(SRC, "c09asan", std="c++14", opt="-O1", san="asan", libs=LIBS)


def ranges(n):
    step = 65536 // n
    return [(i * step, (i + 1) * step) for i in range(n)]


def run(ctx):
    quick = ctx.tier == "quick"
    bins = {}

    def b(kind):
        bins[kind] = build(kind)
    directed = DIRECTED_QUICK if quick else DIRECTED_ALL
    kinds = ["fast", "asan", "eh"] + directed
    vlib.parallel([(lambda k=k: b(k)) for k in kinds], workers=len(kinds))
    fast, asan, eh = bins["fast"], bins["asan"], bins["eh"]

    # soft deadline: no new harness process is started after it; whatever was not started is reported as a cap
    # (quick: 170 s counted from the END of the builds - on a heavily loaded machine six cold builds alone used to consume the whole
    #  allowance and every group was reported as "not started" - but never later than 75 s before the tier's deadline)
    soft = min(ctx.deadline - 75, (time.time() + 170) if quick else (ctx.t0 + 1560))
    skipped = {}
    all_samples = []
    lock = threading.Lock()

    def job(group, binary, args, tag):
        def f():
            if time.time() > soft:
                with lock:
                    skipped[group] = skipped.get(group, 0) + 1
                return
            recs = ctx.run_harness(binary, args, tag=tag)
            with lock:
                ctx.stat("sweeps_completed:" + group, 1)
                all_samples.extend(r["v"] for r in recs if r.get("t") == "sample")
        return f

    jobs = []
    # 1. every unary function on all 2^16 inputs, verdict MPFR
    for fn in UNARY:
        for lo, hi in ranges(UNARY_HEAVY.get(fn, 1)):
            jobs.append(job("unary", fast, ["--unary", fn, str(lo), str(hi)], "c09"))
    # 2. rounding / decomposition functions on all 2^16 inputs against the float functions
    for fn in FLOATLIKE:
        jobs.append(job("floatlike", fast, ["--floatlike", fn], "c09"))
    # 10. call histories (scheduled early: cheap, no MPFR unless a result differs from the isolated sweep).  All ordered pairs (f, g) of
    #     entry points as consecutive calls on related arguments, on all 2^16 arguments, each result compared with g's own isolated
    #     ascending sweep and, when different, judged by the independent reference; first calls in newly created threads.
    hist = list(HIST_QUICK if quick else HIST_THOROUGH)
    for kind in directed:
        hist += [(kind, s, r, n) for s, r, n in (HIST_QUICK_DIRECTED if quick else HIST_THOROUGH_DIRECTED)]
    for kind, hset, rel, n in hist:
        tag = {"fast": "c09", "eh": "c09-eh"}.get(kind, "c09-" + kind)
        for lo, hi in ranges(n):
            jobs.append(job("history:" + kind, bins[kind], ["--history", "walk", hset, rel, str(lo), str(hi)], tag))
    if quick:
        for k in range(4):
            jobs.append(job("history:fresh-thread", fast, ["--history", "fresh", "u", "alpha1", str(k), "4"], "c09"))
    else:
        for k in range(64):
            jobs.append(job("history:fresh-thread", fast, ["--history", "fresh", "u", "full", str(k), "64"], "c09"))
        for k in range(8):
            jobs.append(job("history:fresh-thread", fast, ["--history", "fresh", "b2", "alpha2", str(k), "8"], "c09"))
    # 3. ldexp / scalbn / scalbln: all halves x {-60..60, INT_MIN, INT_MAX}
    for fn in SCALE:
        for lo, hi in ranges(2):
            jobs.append(job("scale", fast, ["--scale", fn, str(lo), str(hi)], "c09"))
    # 4. binary functions, alphabet 1 squared, every pair decided by MPFR (and the fast reference validated against it)
    for fn in BINARY:
        n = 8 if fn in ("atan2", "pow", "hypot") else 2
        for k in range(n):
            jobs.append(job("pairs-alpha1", fast, ["--pairs", fn, "alpha1", "0", str(k), str(n)], "c09"))
    # 5. binary functions, alphabet 2 squared, fast reference with MPFR for undecided / mismatching pairs
    for fn in BINARY:
        n = 8 if fn in ("atan2", "pow", "hypot") else 2
        for k in range(n):
            jobs.append(job("pairs-alpha2", fast, ["--pairs", fn, "alpha2", "1", str(k), str(n)], "c09"))
    # 6. sanitizer build (ASan recover mode + UBSan bounds; crashes and hangs are attributed to the input by the forked sweep)
    for fn in UNARY:
        jobs.append(job("sanitizer", asan, ["--noref", "--unary", fn, "0", "65536"], "c09-asan"))
    for fn in FLOATLIKE:
        jobs.append(job("sanitizer", asan, ["--noref", "--floatlike", fn], "c09-asan"))
    for fn in SCALE:
        jobs.append(job("sanitizer", asan, ["--noref", "--scale", fn, "0", "8192"], "c09-asan"))
    for fn in BINARY:
        jobs.append(job("sanitizer", asan, ["--noref", "--pairs", fn, "alpha1", "1", "0", "1"], "c09-asan"))
    jobs.append(job("sanitizer", asan, ["--noref", "--triples", "cube0", "1", "0", "1"], "c09-asan"))
    # 6a. special operands in the default build: alphabet 0 + EVERY NaN bit pattern (quiet and signalling), all ordered pairs of every
    #     binary function; every NaN pattern in each position of hypot(x,y,z)
    for fn in BINARY:
        jobs.append(job("special-operands", fast, ["--pairs", fn, "spec", "1", "0", "1"], "c09"))
    jobs.append(job("special-operands", fast, ["--triples", "nans"], "c09"))
    # 6c. second build flavour: error handling compiled in (-DHALF_ERRHANDLING_FLAGS=1 -DHALF_ERRHANDLING_ERRNO=1), SAME oracle:
    #     returned values must not depend on whether error reporting is compiled in
    for fn in UNARY:
        for lo, hi in ranges(UNARY_HEAVY.get(fn, 1)):
            jobs.append(job("errhandling", eh, ["--unary", fn, str(lo), str(hi)], "c09-eh"))
    for fn in FLOATLIKE:
        jobs.append(job("errhandling", eh, ["--floatlike", fn], "c09-eh"))
    for fn in SCALE:
        jobs.append(job("errhandling", eh, ["--scale", fn, "0", "65536"], "c09-eh"))
    for fn in BINARY:
        jobs.append(job("errhandling", eh, ["--pairs", fn, "spec", "1", "0", "1"], "c09-eh"))
        jobs.append(job("errhandling", eh, ["--pairs", fn, "alpha1", "1", "0", "1"], "c09-eh"))
    jobs.append(job("errhandling", eh, ["--triples", "nans"], "c09-eh"))
    for k in range(4):
        jobs.append(job("errhandling", eh, ["--triples", "cube0", "1", str(k), "4"], "c09-eh"))
    # 8. nexttoward(half, long double) - the long double-direction form of nextafter: all 2^16 `from` x a direction alphabet of long
    #    doubles (absolute: every format boundary of binary16/32/64 and x87 extended, each +-1 long double ulp, +-0, +-inf, NaNs;
    #    relative to `from`: its neighbours in long double, double and float precision, the adjacent halves, midpoints, -v, 2v, v/2),
    #    and all 2^16 `from` x half-valued directions (alphabet 1; thorough: all 2^16). Default, error-handling and sanitizer builds.
    for lo, hi in ranges(4):
        jobs.append(job("nexttoward", fast, ["--nexttoward", "dirs", str(lo), str(hi)], "c09"))
    for k in range(2):
        jobs.append(job("nexttoward", fast, ["--nexttoward", "halves", "alpha1", str(k), "2"], "c09"))
    for lo, hi in ranges(4):
        jobs.append(job("errhandling", eh, ["--nexttoward", "dirs", str(lo), str(hi)], "c09-eh"))
    for k in range(2):
        jobs.append(job("errhandling", eh, ["--nexttoward", "halves", "alpha1", str(k), "2"], "c09-eh"))
    for lo, hi in ranges(2):
        jobs.append(job("sanitizer", asan, ["--noref", "--nexttoward", "dirs", str(lo), str(hi)], "c09-asan"))
    if not quick:
        for k in range(64):
            jobs.append(job("nexttoward-halves-full", fast, ["--nexttoward", "halves", "full", str(k), "64"], "c09"))
    # 9. directed rounding configurations (HALF_ROUND_STYLE 0 / 2 / 3, with and without error handling), reference rounded in the same
    #    direction: every unary function on all 2^16 inputs, the float-like and scaling parts, the alphabet-1 pairs and the special
    #    operands of the 11 binary functions, hypot(x,y,z) cube 0 and NaN triples.  Quick: three of the six builds, fast reference with
    #    MPFR on undecided / mismatching cases; thorough: all six, MPFR on every pair and every triple.
    for kind in directed:
        dbin, tag, grp = bins[kind], "c09-" + kind, "directed:" + kind
        for fn in UNARY:
            for lo, hi in ranges(UNARY_HEAVY.get(fn, 1)):
                jobs.append(job(grp, dbin, ["--unary", fn, str(lo), str(hi)], tag))
        for fn in FLOATLIKE:
            jobs.append(job(grp, dbin, ["--floatlike", fn], tag))
        for fn in SCALE:
            jobs.append(job(grp, dbin, ["--scale", fn, "0", "65536"], tag))
        for fn in BINARY:
            jobs.append(job(grp, dbin, ["--pairs", fn, "spec", "1", "0", "1"], tag))
            if quick:
                jobs.append(job(grp, dbin, ["--pairs", fn, "alpha1", "1", "0", "1"], tag))
            else:
                n = 4 if fn in ("atan2", "pow", "hypot") else 1
                for k in range(n):
                    jobs.append(job(grp, dbin, ["--pairs", fn, "alpha1", "0", str(k), str(n)], tag))
        jobs.append(job(grp, dbin, ["--triples", "nans"], tag))
        for k in range(4):
            jobs.append(job(grp, dbin, ["--triples", "cube0", "1" if quick else "0", str(k), "4"], tag))
    # 6b. three-argument hypot: alphabet-0 cube with integer verdict + MPFR on every triple; derived family (z around 2^-k max(|x|,|y|),
    #     k = 10..20, three positions) over all alphabet-1 pairs; all exact-tie pairs of sqrt(x^2+y^2) x tiny z
    for k in range(16):
        jobs.append(job("hypot3-cube0", fast, ["--triples", "cube0", "0", str(k), "16"], "c09"))
    if quick:
        for k in range(8):
            jobs.append(job("hypot3-derived", fast, ["--triples", "derived", "alpha1", str(k), "8"], "c09"))
        for k in range(8):
            jobs.append(job("hypot3-ties", fast, ["--triples", "ties", "list", str(k), "8"], "c09"))
    else:
        for k in range(64):
            jobs.append(job("hypot3-ties-full", fast, ["--triples", "ties", "full", str(k), "64"], "c09"))
        for k in range(64):
            jobs.append(job("hypot3-derived-alpha2", fast, ["--triples", "derived", "alpha2", str(k), "64"], "c09"))
        for k in range(64):
            jobs.append(job("hypot3-cube1", fast, ["--triples", "cube1", "1", str(k), "64"], "c09"))
    # 7. thorough: ALL 2^32 ordered pairs of every binary function
    if not quick:
        for fn in BINARY:
            for k in range(FULL_CHUNKS):
                jobs.append(job("pairs-full:" + fn, fast, ["--pairs", fn, "full", "1", str(k), str(FULL_CHUNKS)], "c09"))

    vlib.parallel(jobs, workers=min(16, vlib.NCPU))

    # samples: ctx keeps the first 12 it sees (completion order); show one or two of every kind of case instead
    picked = []
    for prefix, n in (("exp(", 1), ("tgamma(", 2), ("sincos.cos(", 1), ("round(", 1), ("modf(", 1), ("lrint(", 1), ("ldexp(", 1), ("scalbln(", 1), ("pow(", 1), ("atan2(", 1),
                      ("remquo(", 1), ("hypot(", 4), ("nexttoward(", 3)):
        picked += sorted(set(x for x in all_samples if x.startswith(prefix)))[:n]
    if picked:
        ctx.samples[:] = picked

    for group, n in sorted(skipped.items()):
        ctx.cap("deadline: %d harness run(s) of group '%s' not started (%d completed)" % (n, group, ctx.stats.get("sweeps_completed:" + group, 0)))
    if not quick:
        done_full = [fn for fn in BINARY if ctx.stats.get("sweeps_completed:pairs-full:" + fn, 0) == FULL_CHUNKS]
        ctx.note("all 2^32 ordered pairs completed for: %s" % (", ".join(done_full) if done_full else "(none)"))

    ctx.rule = (
        "one case = one call of the real half_float function on argument bit pattern(s). Enumerated: (1) all 2^16 inputs of each of 26 unary entry points "
        "(exp exp2 expm1 log log10 log2 log1p cbrt sin cos tan sincos(both outputs) asin acos atan sinh cosh tanh asinh acosh atanh erf erfc lgamma tgamma), verdict = MPFR correctly rounded to binary16 "
        "(precision 11, emin -23, emax 16, mpfr_subnormalize), 0 ULP for functions documented exact to rounding, <= 1 ULP for those documented possibly 1 ULP off (expm1 log1p erf erfc lgamma tgamma pow atan2), "
        "NaN/infinity/exact-zero results exact; (2) all 2^16 inputs of ceil floor trunc round rint nearbyint frexp modf ilogb logb and all finite inputs of lround llround lrint llrint against the float functions; "
        "(3) ldexp scalbn scalbln on all halves x an exponent alphabet in each entry point's own exponent type: -60..60, INT_MIN, INT_MIN+1, -2^30, -2^16, +-61, 2^16, 2^30, INT_MAX-1, INT_MAX, and for scalbln(half,long) also "
        "+-(2^31-1), +-2^31, +-(2^31+1), +-(2^32-1), +-2^32, +-(2^32+1), +-(2^32+-20), +-2^33, +-2^40, +-2^48, +-2^62 and the extremes LONG_MAX, LONG_MAX-1, LONG_MAX-31, LONG_MAX-32, LONG_MIN, LONG_MIN+1, LONG_MIN+9, LONG_MIN+10, LONG_MIN+11, oracle = correctly rounded x*2^e; (4) hypot pow atan2 fmod remainder remquo fdim fmax fmin nextafter copysign on all ordered pairs of a 1000-value boundary alphabet "
        "(every exponent x 16 mantissas x sign + inf/NaNs) with MPFR deciding every pair, and of a 3976-value alphabet (every exponent x 64 mantissas x sign + inf/NaNs) with an exact/long-double reference and MPFR "
        "for every pair within 2^-26 ulp of a rounding boundary, every mismatch and every accepted 1-ULP difference; "
        "(4c) three-argument hypot(x,y,z), verdict = correctly rounded sqrt(x^2+y^2+z^2) by exact 128-bit integer arithmetic (cross-checked with MPFR): all ordered triples of a 315-value alphabet "
        "(every exponent x mantissas {0,1,0x1FF,0x200,0x3FF} x sign, +-inf, NaNs), " +
        ("for all ordered pairs of the 1000-value alphabet z = the halves around 2^-k max(|x|,|y|), k = 10..20 (z0-1, z0, z0+1, -z0) in all three argument positions, and for all 43558 ordered pairs (x,y) whose "
         "sqrt(x^2+y^2) is exactly half way between two halves (found by integer search) z in {+-0, all subnormals, 0x0400, 0x0401, halves around 2^-k max, k = 1..40} in all three positions" if quick else
         "all ordered triples of the 1000-value alphabet, the derived family (z around 2^-k max(|x|,|y|), k = 10..20, three positions) over all ordered pairs of the 3976-value alphabet, and for all 43558 exact-tie pairs "
         "(x,y) ALL 2^16 z in position (x,y,z) plus the tiny-z list in the other two positions") +
        ("" if quick else "; (5) ALL 2^32 ordered pairs of each of these 11 binary functions, same fast reference + MPFR scheme") +
        "; (6) special operands: all ordered pairs over {315-value alphabet + EVERY NaN bit pattern} for the 11 binary functions and every NaN pattern in each position of hypot(x,y,z); "
        "(7) a second build with the library's error handling compiled in (HALF_ERRHANDLING_FLAGS=1, HALF_ERRHANDLING_ERRNO=1) re-runs parts 1-3, the alphabet-1 pairs, the special operands and the 315-value hypot3 cube against the SAME oracle "
        "(a signalling-NaN operand may give NaN there; counted as evaluations, not again as distinct); "
        "(8) nexttoward(half from, long double to), the long double-direction form of nextafter (C99 7.12.11.4, F.9.8.4): all 2^16 from x a direction alphabet of long doubles = "
        "354 absolute values (+-2^k for 54 exponents k covering the smallest denormal, smallest normal, epsilon and one binade beyond the largest finite value of binary16, binary32, binary64 and x87 extended; "
        "65504, 65520, FLT_MAX, DBL_MAX, LDBL_MAX; each of these also one long double ulp up and down; both signs; +-0, +-inf, quiet and signalling NaNs of both signs) + up to 18 values relative to the value v of from "
        "(v, -v, 2v, v/2, the neighbour of v on either side in long double, double and float precision, the two adjacent halves, the midpoints to them and those midpoints +-1 long double ulp; for v = +-0 the smallest denormals, "
        "for v = +-inf the largest finite values of the three formats), and all 2^16 from x every value of the 1000-value half alphabet as an exactly converted direction" +
        ("" if quick else " and ALL 2^32 (from, half-valued to) pairs") +
        "; oracle = C's nexttoward on binary16 written from the definition (NaN if either is a NaN; to - i.e. from, for zeros the sign of to - if they compare equal; otherwise the binary16 value adjacent to from on the side of to, "
        "however small the difference), comparison exact in long double, guarded by an exact MPFR comparison of the hand-decoded long double, by the nextafter reference for half-valued directions and by the direction glibc nexttowardf moves in; "
        "re-run in the error-handling build (absolute+relative directions, 1000-value half alphabet) and the sanitizer build (absolute+relative directions); "
        "(9) CONFIGURATION dimension: the library built with HALF_ROUND_STYLE = 0 (toward zero), 2 (toward +infinity), 3 (toward -infinity), each without and with error handling (" +
        ("quick tier: the three builds style 3 + error handling, style 0 + error handling, style 2 without; the thorough tier runs all six" if quick else "all six builds") +
        "). 'Correctly rounded binary16 value' is read relative to the configured style: the reference is MPFR rounding in the SAME direction (MPFR_RNDZ / RNDU / RNDD, precision 11, emin -23, emax 16, mpfr_subnormalize in that direction; overflow "
        "toward zero stops at 65504, underflow away from zero at 2^-24), 0 ULP for the functions documented exact to rounding, <= 1 ULP on the ordered line of halves for the eight 1-ULP functions, special values exact. Per build: all 2^16 inputs of the 26 unary entry points, "
        "the float-like functions (rint nearbyint lrint llrint against trunc / ceil / floor of the float, the others unchanged), ldexp scalbn scalbln on all halves x the exponent alphabet, the 11 binary functions on all ordered pairs of the 1000-value alphabet and of the special-operand set, "
        "hypot(x,y,z) on the 315-value cube (directed integer square root) and the NaN triples" +
        (" (fast reference rounded in that direction, MPFR on undecided and mismatching cases)" if quick else " (MPFR on every pair and every triple)") +
        "; counted as evaluations, not again as distinct; "
        "(10) CALL-HISTORY dimension: the result of a call must not depend on the calls made before it. Entry points: the 25 unary functions (sincos with both outputs) + the 14 float-like functions (set u, 39), "
        "plus both sections b(x,c) and b(c,x) of the 11 binary functions for constants c from {3.140625, -0.33325, 1, subnormal 0x0203} (sets b1 / b2 / b4 = 61 / 83 / 127 entry points). For a set and a relation p between arguments "
        "(same: p(x)=x; neg: -x; next: the next bit pattern; xor:0400 / xor:0001: neighbouring binade / mantissa; const:c: a fixed special value such as a quiet or signalling NaN, infinity, zero) and for EVERY one of the 2^16 arguments x, "
        "all entry points are called along an Eulerian circuit of the complete directed graph with loops on the set, alternately on x and p(x), so that every ordered pair (f, g) occurs exactly once per lap as two consecutive calls "
        "f(p(x)), g(x) resp. f(x), g(p(x)) (relations that are not involutions walk a second lap with the roles exchanged). Oracle: every call is compared with the value the same entry point returns in an ascending sweep of its own over all 2^16 arguments "
        "(the history parts 1, 2, 4 judge against MPFR / the float functions; NaNs canonicalised, values C leaves unspecified masked); a differing result is then judged by the independent reference of parts 1, 2, 4 (MPFR correctly rounded with the documented "
        "tolerance, float functions, bit-pattern definitions) and reported only if it fails that judgement; before it is reported the history is minimised to a two-call history f(a), g(x) executed in a newly created thread, which is the replay. "
        "Also every entry point on every argument of an alphabet as the FIRST library call of a newly created thread (empty history, initial thread_local state). " +
        ("Quick tier: default build b1 x {same, neg}, u x {next, const:7e00}; error-handling build u x {same, const:7d00 (signalling NaN, raises the library's FE_INVALID flag)}; the three directed builds u x same; fresh-thread calls of set u on the 1000-value alphabet"
         if quick else
         "Thorough tier: default build b4 x {same, neg}, b2 x {next, xor:0400, xor:0001}, u x const:{7e00, 7d00, 7c00, fc00, 0000, 8000, 3c00, 0001, 7bff}; error-handling build b2 x {same, neg}, u x next, u x the nine constants; all six directed builds b1 x {same, neg}, u x next; "
         "fresh-thread calls of set u on all 2^16 arguments and of set b2 on the 3976-value alphabet") +
        "; counted as evaluations (history_walk_calls_compared_with_isolated_sweep), not as distinct. distinct_nontrivial = cases whose reference result is finite, non-zero and different from the argument(s) (for integer-valued results: different from the argument); every (function, argument) is visited once, so cases are distinct by construction; "
        "the alphabet sweeps overlap each other (and the full sweep) by design and are counted as evaluated.")
    ctx.assumptions += [
        "MPFR 4.2 / GMP are the reference; it is cross-checked on every MPFR-decided case against MPFR at 256 bits rounded by an independent integer routine, and where decisive against glibc long double; special values against glibc float. A reference disagreement is a harness error",
        "library configurations: as shipped (HALF_ROUND_STYLE = to nearest, no HALF_ARITHMETIC_TYPE, HALF_ERRHANDLING off, software conversions) for everything, plus HALF_ERRHANDLING_FLAGS=1 + HALF_ERRHANDLING_ERRNO=1 for the parts listed in rule, "
        "plus HALF_ROUND_STYLE 0 / 2 / 3 (x error handling off / on) for part 9; "
        "only returned values are judged, never the exception flags / errno themselves; HALF_ERRHANDLING_FENV and the THROW_* macros are not built",
        "with error handling compiled in, a signalling NaN operand that Annex F would let a quiet NaN be ignored for (fmax fmin hypot pow) yields NaN by design of detail::select; Annex F does not define signalling NaNs, NaN is accepted there",
        "NaN results are judged as 'is a NaN' (sign and payload free); the sign of fmax/fmin(+-0, -+0) is free (C leaves it open)",
        "remquo: value judged exactly, quo judged for sign and the low 3 bits as C requires; not judged when C leaves quo unspecified (x infinite/NaN, y zero/NaN)",
        "lround/llround/lrint/llrint only on finite inputs (C leaves the rest unspecified); frexp exponent only for finite inputs",
        "three-argument hypot is decided over alphabets and derived families (stated in rule), not over all 2^48 triples; a triple that belongs to several families is evaluated in each but counted once (conservatively) in distinct_nontrivial",
        "nexttoward(half, long double) is judged as the long double-direction overload of nextafter ('nextafter steps to the adjacent binary16 value'; it lies inside the anchored block 3597-3771 and C defines it as "
        "'equivalent to nextafter except that the second parameter has type long double'); long double is the x87 80-bit extended format (LDBL_MANT_DIG 64, static_assert in the harness); directions are enumerated over the stated "
        "alphabet, not over all 2^80 long doubles; pseudo-denormal/unnormal/pseudo-NaN encodings (not values of the type) are not passed",
        "reading of the statement under a configured rounding style: 'the correctly rounded binary16 value of the mathematical result' is that result rounded in the configured direction (the library documents these functions as 'exact to rounding for all rounding modes'); "
        "all function groups were measured on the unmodified tree in all six directed builds before being judged (0 deviations, also for the 1-ULP functions against the directed reference), so none is left out; "
        "nexttoward, the three-argument hypot families beyond cube 0, the 3976-value pair alphabet and the full 2^32 pair sweep are not repeated in the directed builds",
        "call histories (part 10): 'returns the correctly rounded value for every argument' is read as a statement about every call, whatever was called before on the same thread; histories are bounded to the walks stated in rule "
        "(every ordered pair of entry points adjacent once per relation and argument, arguments of adjacent calls related by the stated relations); the state before a walk is whatever the walks on the preceding arguments left; "
        "binary functions take part through sections with a constant operand only; concurrent calls from several threads (data races) are not enumerated, only first calls in a new thread",
        "fma and sqrt are not part of this check (C08)",
        "g++ 12 -O2 on x86-64 (plus an ASan/UBSan-bounds -O1 build over all unary inputs and the alphabet-1 pairs)",
    ]
    if quick:
        ctx.assumptions.append("quick tier: binary functions over the two alphabets only; the thorough tier enumerates all 2^32 pairs")


def replay(ctx, rec):
    h = rec.get("harness") or ""
    kind = {"c09-asan": "asan", "c09-eh": "eh"}.get(h, h[4:] if h.startswith("c09-rs") else "fast")
    ctx.run_harness(build(kind), rec["args"], tag=rec.get("harness") or "c09")
