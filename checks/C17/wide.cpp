// C17 parts G and H: complete registration HISTORIES up to a length bound (no merging of states, no state cap).
//   G  `--wide ident{2,2-static_cast,1,1-static_cast}`: TYPE IDENTITY - functor_dispatcher over basic_dispatcher whose type alphabet
//      contains two DISTINCT classes with the same (mangled) name: `Widget` in the unnamed namespace of this translation unit and of
//      ident_tu2.cpp, both derived from IShape, both registered on ONE dispatcher, plus the external-linkage class Ext.
//   H  `--wide fast5{,-dynamic_cast}`: basic_fast_dispatcher with two dispatched arguments over a hierarchy of FIVE classes.
// Every history of 1..L operations is executed on a fresh dispatcher (H: after resetting the per-class static indices); after the
// LAST operation dispatch is called for ALL argument tuples and judged against the model map (histories are prefix-closed, so every
// intermediate step is the last step of a shorter enumerated history).
#define C17_TU 1
#include "ident_tu.hpp"
#include "report.hpp"

#include <chrono>
#include <map>
#include <memory>
#include <stdexcept>
#include <string>
#include <typeindex>

using vf::str;

std::vector<ICall> g_icalls;
C17TuApi c17_tu2_api();

static double now_s() { return std::chrono::duration<double>(std::chrono::steady_clock::now().time_since_epoch()).count(); }
static double g_t0 = 0, g_deadline = 1e18;
static std::string g_inst, g_cur;   // current history (for crash attribution)

static std::string hist_s(const std::vector<int>& h) { std::string s; for (size_t i = 0; i < h.size(); ++i) s += (i ? "," : "") + str(h[i]); return s; }
static std::vector<int> parse_hist(const std::string& s)
{
    std::vector<int> h; size_t p = 0;
    while (p < s.size()) { size_t q = s.find(',', p); if (q == std::string::npos) q = s.size(); h.push_back(atoi(s.substr(p, q - p).c_str())); p = q + 1; }
    return h;
}

struct Outcome { bool threw; std::string what; int ret; };

// common oracle. exp_handler < 0: nothing registered for the tuple
static void judge(const std::string& part, const std::string& hist_text, const std::vector<int>& hist, const std::string& who, int exp_handler,
                  const int* exp_tags, const IShape* const* exp_addr, int K, const Outcome& o, const char* (*tname)(int))
{
    std::vector<std::string> rp = {"--wide-replay", g_inst, hist_s(hist)};
    std::string sig = "C17/" + part + "/" + g_inst;
    std::string pre = "[" + hist_text + "]: " + who;
    vf::stat(part + "_dispatch_calls_judged");
    vf::stat("wide_dispatch_calls_judged");
    if (vf::take_asan()) vf::violation(sig + "/sanitizer", pre + ": sanitizer report during the call", rp);
    if (exp_handler < 0)
    {
        if (!g_icalls.empty())
        {
            std::string reg; for (int i = 0; i < K; ++i) reg += (i ? "," : "") + std::string(tname(g_icalls[0].tags[i]));
            vf::violation(sig + "/wrong-handler-ran", pre + " has no registered handler but handler " + str(g_icalls[0].handler) + " ran (registered for <" + reg + ">)", rp);
        }
        else if (!o.threw) vf::violation(sig + "/no-error", pre + " has no registered handler but the call returned normally without reporting an error", rp);
        return;
    }
    vf::stat(part + "_dispatch_calls_to_registered_tuples");
    if (o.threw) { vf::violation(sig + "/registered-not-found", pre + " is registered with handler " + str(exp_handler) + " but the call threw (" + o.what + ")", rp); return; }
    if (g_icalls.size() != 1) { vf::violation(sig + "/handler-count", pre + " ran " + str(g_icalls.size()) + " handlers", rp); return; }
    const ICall& c = g_icalls[0];
    if (c.handler != exp_handler || o.ret != exp_handler)
        vf::violation(sig + "/wrong-handler", pre + " ran handler " + str(c.handler) + " (returned " + str(o.ret) + "), registered is " + str(exp_handler), rp);
    for (int i = 0; i < K; ++i)
    {
        if (c.tags[i] != exp_tags[i]) vf::violation(sig + "/argument-type", pre + ": argument " + str(i) + " reached the handler as " + tname(c.tags[i]), rp);
        if (c.addr[i] != exp_addr[i]) vf::violation(sig + "/argument-identity", pre + ": argument " + str(i) + " is not the object that was passed (order or identity changed)", rp);
    }
}

template <class F>
static Outcome guarded(F f)
{
    Outcome o{false, "", -1};
    g_icalls.clear();
    try { o.ret = f(); }
    catch (const std::exception& e) { o.threw = true; o.what = e.what(); }
    catch (...) { o.threw = true; o.what = "non-std exception"; }
    return o;
}

// enumerate all op sequences of length 1..L over nops operations (first op restricted to the shard), run(history) for each
template <class R>
static bool enumerate(int nops, int L, int shard, int nshards, const std::string& part, R run)
{
    for (int len = 1; len <= L; ++len)
    {
        std::vector<int> h(len, 0);
        for (;;)
        {
            if (h[0] % nshards == shard)
            {
                if (now_s() - g_t0 > g_deadline)
                {
                    vf::cap("deadline: " + g_inst + " stopped inside length " + str(len) + " of " + str(L) + " after " + str(vf::reporter::get().stats[part + "_histories"]) + " histories");
                    return false;
                }
                g_cur = hist_s(h);
                run(h);
                vf::stat(part + "_histories");
                vf::stat("wide_histories");
            }
            int i = len - 1;
            while (i >= 0 && ++h[i] == nops) { h[i] = 0; --i; }
            if (i < 0) break;
        }
    }
    vf::smax(part + "_history_length", L);
    return true;
}

// ------------------------------------------------------------------------------------------------ G: type identity
static C17TuApi g_api[2];
static IShape* g_iobj[3];
static Ext g_ext;
static const char* iname(int t) { return t == 0 ? "Widget#1" : t == 1 ? "Widget#2" : t == 2 ? "Ext" : "-"; }

// op code (2 arguments): bit0 = erase, bit1 = l1, bit2 = l0, bit3 = executing TU; (1 argument): bit0 = erase, bit1 = l0, bit2 = TU
struct IOp { int tu, l0, l1; bool erase; int g0, g1; };
static IOp iop(int code, int K)
{
    IOp o;
    o.erase = code & 1;
    if (K == 2) { o.l1 = (code >> 1) & 1; o.l0 = (code >> 2) & 1; o.tu = (code >> 3) & 1; }
    else { o.l1 = 0; o.l0 = (code >> 1) & 1; o.tu = (code >> 2) & 1; }
    o.g0 = o.l0 ? 2 : o.tu;
    o.g1 = K == 2 ? (o.l1 ? 2 : o.tu) : -1;
    return o;
}
static std::string iop_s(const IOp& o, int K, int h)
{
    std::string t = std::string("<") + iname(o.g0) + (K == 2 ? std::string(",") + iname(o.g1) : "") + ">";
    return (o.erase ? "erase" + t : "insert" + t + "(h" + str(h) + ")") + " in TU" + str(o.tu + 1);
}

template <class D> static int call(const D& d, int a, int b, std::integral_constant<int, 2>) { return d.dispatch(*g_iobj[a], *g_iobj[b]); }
template <class D> static int call(const D& d, int a, int, std::integral_constant<int, 1>) { return d.dispatch(*g_iobj[a]); }

template <class D, int K>
static void ident_run(int kind, const std::vector<int>& h)
{
    std::unique_ptr<D> d(new D());
    std::map<std::pair<int, int>, int> m;
    std::string text;
    for (size_t s = 0; s < h.size(); ++s)
    {
        IOp o = iop(h[s], K);
        int hid = int(s) + 1;
        text += (s ? "; " : "") + iop_s(o, K, hid);
        if (o.erase) { g_api[o.tu].erase(d.get(), kind, o.l0, o.l1); m.erase({o.g0, o.g1}); }
        else { g_api[o.tu].insert(d.get(), kind, o.l0, o.l1, hid); m[{o.g0, o.g1}] = hid; }
    }
    const D& cd = *d;
    for (int a = 0; a < 3; ++a)
        for (int b = 0; b < (K == 2 ? 3 : 1); ++b)
        {
            int tags[2] = {a, K == 2 ? b : -1};
            const IShape* addr[2] = {g_iobj[a], K == 2 ? g_iobj[b] : nullptr};
            auto it = m.find({tags[0], tags[1]});
            Outcome o = guarded([&]() { return call(cd, a, b, std::integral_constant<int, K>()); });
            std::string who = std::string("dispatch(") + iname(a) + (K == 2 ? std::string(",") + iname(b) : "") + ")";
            judge("ident", text, h, who, it == m.end() ? -1 : it->second, tags, addr, K, o, iname);
        }
}

static bool ident_probe()
{
    g_api[0] = tu_api();
    g_api[1] = c17_tu2_api();
    g_iobj[0] = g_api[0].widget; g_iobj[1] = g_api[1].widget; g_iobj[2] = &g_ext;
    // capability probe, independent of xtl: does this compiler/runtime keep the two unnamed-namespace classes apart?
    const std::type_info& t1 = *g_api[0].ti;
    const std::type_info& t2 = *g_api[1].ti;
    bool distinct = t1 != t2 && std::type_index(t1) != std::type_index(t2) && typeid(*g_iobj[0]) == t1 && typeid(*g_iobj[1]) == t2 && typeid(*g_iobj[0]) != typeid(*g_iobj[1])
                    && (t1.before(t2) != t2.before(t1)) && dynamic_cast<Widget*>(g_iobj[1]) == nullptr && dynamic_cast<Widget*>(g_iobj[0]) != nullptr;
    vf::smax("ident_same_name_classes_have_equal_name_text", std::string(t1.name()[0] == '*' ? t1.name() + 1 : t1.name()) == std::string(t2.name()[0] == '*' ? t2.name() + 1 : t2.name()));
    vf::smax("ident_same_name_classes_have_equal_hash_code", t1.hash_code() == t2.hash_code());
    if (!distinct)
    {
        vf::stat("ident_runs_skipped_compiler_does_not_distinguish_the_classes");
        vf::note("part G not judged: with this compiler typeid of the two unnamed-namespace classes `Widget` of two translation units compare equal (or their objects' dynamic types do), "
                 "so 'distinct dynamic types' cannot be produced this way");
    }
    return distinct;
}

// ------------------------------------------------------------------------------------------------ H: fast dispatcher, five classes
struct P0 : IShape { XTL_IMPLEMENT_INDEXABLE_CLASS() };
struct P1 : IShape { XTL_IMPLEMENT_INDEXABLE_CLASS() };
struct P2 : IShape { XTL_IMPLEMENT_INDEXABLE_CLASS() };
struct P3 : IShape { XTL_IMPLEMENT_INDEXABLE_CLASS() };
struct P4 : IShape { XTL_IMPLEMENT_INDEXABLE_CLASS() };
namespace
{
    template <> struct itag<P0> { static const int v = 10; };
    template <> struct itag<P1> { static const int v = 11; };
    template <> struct itag<P2> { static const int v = 12; };
    template <> struct itag<P3> { static const int v = 13; };
    template <> struct itag<P4> { static const int v = 14; };
}
static const int NP = 5;
static P0 g_p0; static P1 g_p1; static P2 g_p2; static P3 g_p3; static P4 g_p4;
static IShape* g_pobj[NP] = {&g_p0, &g_p1, &g_p2, &g_p3, &g_p4};
static const char* pname(int t) { static const char* n[] = {"P0", "P1", "P2", "P3", "P4"}; return t >= 10 && t < 10 + NP ? n[t - 10] : t >= 0 && t < NP ? n[t] : "-"; }
static void reset_indices()
{
    IShape::get_class_static_index() = SIZE_MAX;
    P0::get_class_static_index() = SIZE_MAX; P1::get_class_static_index() = SIZE_MAX; P2::get_class_static_index() = SIZE_MAX;
    P3::get_class_static_index() = SIZE_MAX; P4::get_class_static_index() = SIZE_MAX;
}
using F2sta = xtl::functor_dispatcher<xtl::mpl::vector<IShape, IShape>, int, xtl::mpl::vector<>, xtl::static_caster, xtl::basic_fast_dispatcher>;
using F2dyn = xtl::functor_dispatcher<xtl::mpl::vector<IShape, IShape>, int, xtl::mpl::vector<>, xtl::dynamic_caster, xtl::basic_fast_dispatcher>;

template <class D, class X> static void fins_y(D& d, int j, int h)
{
    switch (j)
    {
    case 0: d.template insert<X, P0>(IH{h}); break; case 1: d.template insert<X, P1>(IH{h}); break; case 2: d.template insert<X, P2>(IH{h}); break;
    case 3: d.template insert<X, P3>(IH{h}); break; default: d.template insert<X, P4>(IH{h}); break;
    }
}
template <class D> static void fins(D& d, int i, int j, int h)
{
    switch (i)
    {
    case 0: fins_y<D, P0>(d, j, h); break; case 1: fins_y<D, P1>(d, j, h); break; case 2: fins_y<D, P2>(d, j, h); break;
    case 3: fins_y<D, P3>(d, j, h); break; default: fins_y<D, P4>(d, j, h); break;
    }
}

template <class D>
static void fast_run(const std::vector<int>& h)
{
    reset_indices();
    std::unique_ptr<D> d(new D());
    std::map<std::pair<int, int>, int> m;
    std::string text;
    for (size_t s = 0; s < h.size(); ++s)
    {
        int i = h[s] / NP, j = h[s] % NP, hid = int(s) + 1;
        text += (s ? "; " : "") + std::string("insert<") + pname(i) + "," + pname(j) + ">(h" + str(hid) + ")";
        fins(*d, i, j, hid);
        m[{i, j}] = hid;
    }
    std::string idx = " (indices";
    std::size_t iv[NP] = {P0::get_class_static_index(), P1::get_class_static_index(), P2::get_class_static_index(), P3::get_class_static_index(), P4::get_class_static_index()};
    for (int i = 0; i < NP; ++i) idx += std::string(" ") + pname(i) + "=" + (iv[i] == SIZE_MAX ? std::string("-") : str(iv[i]));
    idx += ")";
    const D& cd = *d;
    for (int a = 0; a < NP; ++a)
        for (int b = 0; b < NP; ++b)
        {
            int tags[2] = {10 + a, 10 + b};
            const IShape* addr[2] = {g_pobj[a], g_pobj[b]};
            auto it = m.find({a, b});
            Outcome o = guarded([&]() { return cd.dispatch(*g_pobj[a], *g_pobj[b]); });
            judge("fast5", text, h, std::string("dispatch(") + pname(a) + "," + pname(b) + ")" + idx, it == m.end() ? -1 : it->second, tags, addr, 2, o, pname);
        }
}

// ------------------------------------------------------------------------------------------------ main
int main(int argc, char** argv)
{
    vf::install_crash_handler();
    g_t0 = now_s();
    int L = 2, shard = 0, nshards = 1;
    std::string replay;
    bool is_replay = false;
    for (int i = 1; i < argc; ++i)
    {
        std::string a = argv[i];
        if (a == "--wide" && i + 1 < argc) g_inst = argv[++i];
        else if (a == "--wide-replay" && i + 2 < argc) { g_inst = argv[++i]; replay = argv[++i]; is_replay = true; }
        else if (a == "--len" && i + 1 < argc) L = atoi(argv[++i]);
        else if (a == "--shard" && i + 2 < argc) { shard = atoi(argv[++i]); nshards = atoi(argv[++i]); }
        else if (a == "--deadline" && i + 1 < argc) g_deadline = atof(argv[++i]);
    }
    std::string part = g_inst.compare(0, 5, "ident") == 0 ? "ident" : "fast5";
    vf::crash_hook() = [part](const char* what) {
        vf::violation("C17/" + part + "/" + g_inst + "/crash", "history (op codes) [" + g_cur + "]: " + what + " while executing the history or dispatching after it", {"--wide-replay", g_inst, g_cur});
    };
    std::function<void(const std::vector<int>&)> run;
    int nops = 0;
    if (part == "ident")
    {
        if (!ident_probe()) { vf::done(); return 0; }
        if (g_inst == "ident2") { run = [](const std::vector<int>& h) { ident_run<ID2dyn, 2>(0, h); }; nops = 16; }
        else if (g_inst == "ident2-static_cast") { run = [](const std::vector<int>& h) { ident_run<ID2sta, 2>(1, h); }; nops = 16; }
        else if (g_inst == "ident1") { run = [](const std::vector<int>& h) { ident_run<ID1dyn, 1>(2, h); }; nops = 8; }
        else if (g_inst == "ident1-static_cast") { run = [](const std::vector<int>& h) { ident_run<ID1sta, 1>(3, h); }; nops = 8; }
    }
    else if (g_inst == "fast5") { run = [](const std::vector<int>& h) { fast_run<F2sta>(h); }; nops = NP * NP; }
    else if (g_inst == "fast5-dynamic_cast") { run = [](const std::vector<int>& h) { fast_run<F2dyn>(h); }; nops = NP * NP; }
    if (!run) { std::fprintf(stderr, "unknown instantiation '%s'\n", g_inst.c_str()); return 2; }
    if (is_replay)
    {
        std::vector<int> h = parse_hist(replay);
        for (int c : h) if (c < 0 || c >= nops) { std::fprintf(stderr, "bad op code\n"); return 2; }
        // like the enumeration: judge after every prefix, so a replay of a longer history also shows the earlier steps
        g_cur = replay;
        if (!h.empty()) run(h);
        vf::done();
        return 0;
    }
    vf::smax(part + "_operation_alphabet", nops);
    enumerate(nops, L, shard, nshards, part, run);
    vf::done();
    return 0;
}
