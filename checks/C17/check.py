"""C17 multimethods and visitors: registration histories (E2) + generated static_dispatcher instantiations + visitor subsets (E3)
+ dispatcher objects as values (E2: dispatch calls, copies, moves, swaps and relocations as operations of the history)."""
import itertools
import os
import vlib

LEVEL = "model_checking"
HERE = os.path.dirname(os.path.abspath(__file__))
SRC = os.path.join(HERE, "harness.cpp")
GEN = os.path.join(vlib.BUILD, "c17gen")


def ordered_sublists():
    out = []
    for r in (1, 2, 3):
        for sub in itertools.combinations("ABC", r):
            for perm in itertools.permutations(sub):
                out.append(perm)
    return out   # 15 ordered sub-lists of the type list


def generate():
    os.makedirs(GEN, exist_ok=True)
    lists = ordered_sublists()
    lines = []
    for ll in lists:
        for rl in lists:
            lines.append("SCASE(%s, %s, antisymmetric_dispatch)" % (" COMMA ".join(ll), " COMMA ".join(rl)))
        # symmetric dispatch uses one list for both sides
        lines.append("SCASE(%s, %s, symmetric_dispatch)" % (" COMMA ".join(ll), " COMMA ".join(ll)))
    path = os.path.join(GEN, "static_cases.inc")
    txt = "\n".join(lines) + "\n"
    if not os.path.exists(path) or open(path).read() != txt:
        open(path, "w").write(txt)
    return len(lines)


def build(tier="quick"):
    """four binaries built in parallel: A dispatcher histories, B generated static_dispatcher instantiations, C visitors
    (thorough: all 512 subsets of the nine handler bases instead of 128), D dispatcher objects as values"""
    n = generate()
    def one(part, opt):
        defs = ["PART_A=%d" % (part == "A"), "PART_B=%d" % (part == "B"), "PART_C=%d" % (part == "C"), "PART_D=%d" % (part == "D")]
        if part == "C" and tier == "thorough":
            defs.append("VIS_FULL=1")
        return vlib.compile_cxx(SRC, "c17" + part, std="c++14", opt=opt, san="asan", flags=["-I" + GEN], defines=defs)
    bins = vlib.parallel([lambda: one("A", "-O1"), lambda: one("B", "-O0"), lambda: one("C", "-O0"), lambda: one("D", "-O1")])
    return {"A": bins[0], "B": bins[1], "C": bins[2], "D": bins[3]}, n


def which(args):
    if "--static-only" in args:
        return "B"
    if "--visitors-only" in args:
        return "C"
    for flag in ("--inst", "--replay"):
        if flag in args and args[args.index(flag) + 1].startswith("val-"):
            return "D"
    return "A"


def plan(tier):
    if tier == "quick":
        return [["--inst", "basic1"], ["--inst", "fast1"],
                ["--inst", "basic2", "--depth", "4", "--max-states", "30000"], ["--inst", "basic2-static_cast", "--depth", "3"], ["--inst", "fast2", "--depth", "4", "--max-states", "30000"], ["--inst", "fast2-dynamic_cast", "--depth", "3"],
                ["--inst", "basic2-extra", "--depth", "2"], ["--inst", "fast2-extra", "--depth", "2"],
                ["--inst", "basic3", "--depth", "2"], ["--inst", "fast3", "--depth", "2"],
                ["--inst", "val-basic2", "--depth", "4"], ["--inst", "val-basic1", "--depth", "4"], ["--inst", "val-basic2x1", "--depth", "3"],
                ["--inst", "val-fast1"], ["--inst", "val-fast2", "--depth", "3"],
                ["--static-only"], ["--visitors-only"]]
    return [["--inst", "basic1"], ["--inst", "fast1"],
            ["--inst", "basic2", "--depth", "5", "--max-states", "60000"], ["--inst", "basic2-static_cast", "--depth", "4", "--max-states", "60000"],
            ["--inst", "fast2", "--depth", "5", "--max-states", "60000"], ["--inst", "fast2-dynamic_cast", "--depth", "4", "--max-states", "60000"],
            ["--inst", "basic2-extra", "--depth", "3"], ["--inst", "fast2-extra", "--depth", "3"],
            ["--inst", "basic3", "--depth", "3", "--max-states", "30000"], ["--inst", "fast3", "--depth", "4", "--max-states", "30000"],
            ["--inst", "val-basic2", "--depth", "5", "--trail", "2", "--max-states", "120000"], ["--inst", "val-basic1", "--depth", "5", "--trail", "2", "--max-states", "120000"],
            ["--inst", "val-basic2x1", "--depth", "4", "--trail", "2"],
            ["--inst", "val-fast1", "--trail", "2"], ["--inst", "val-fast2", "--depth", "4", "--trail", "2", "--max-states", "120000"],
            ["--static-only"], ["--visitors-only"]]


def run(ctx):
    b, n = build(ctx.tier)
    dl = str(int(max(60, ctx.time_left() - 30)))
    vlib.parallel([(lambda a=a: ctx.run_harness(b[which(a)], a + ["--deadline", dl], tag="c17")) for a in plan(ctx.tier)])
    ctx.stats["generated_static_dispatcher_instantiations"] = n
    ctx.stats["evaluations"] = ctx.stats.get("transitions", 0) + ctx.stats.get("static_dispatch_cases", 0) + ctx.stats.get("visitor_cases", 0)
    ctx.stats["distinct_nontrivial"] = ctx.stats.get("states", 0)
    ctx.note("part D (dispatcher objects as values): %d states, %d transitions of which %d dispatch operations and %d copy/move/swap/relocation/self-assignment/fresh operations; part C: %d visitor classes, %d accept calls "
             "(%d with the own handler present, %d where only handlers of another flavour exist for the visited type)" % (
                 ctx.stats.get("value_world_states", 0), ctx.stats.get("value_world_transitions", 0), ctx.stats.get("dispatch_transitions", 0), ctx.stats.get("copy_move_swap_relocate_transitions", 0),
                 ctx.stats.get("visitor_classes", 0), ctx.stats.get("visitor_cases", 0), ctx.stats.get("visitor_cases_own_handler_present", 0), ctx.stats.get("visitor_cases_only_foreign_handlers_for_visited_type", 0)))
    ctx.rule = ("(A) BFS over registration/erasure histories of functor_dispatcher over basic_dispatcher (dynamic and static casting) and basic_fast_dispatcher, with 1, 2 and 3 dispatched arguments and with an undispatched "
                "extra argument: insert<D...>(h) for EVERY type tuple over {A,B,C} and h in {h1,h2}, erase<D...> for every tuple (basic only); every history is replayed on a fresh dispatcher after resetting the "
                "per-class static indices, so registration order determines the lazily assigned indices and table shapes; after EVERY transition dispatch is called on ALL 3^k argument tuples: registered => exactly that "
                "handler once, arguments by identity in registered order, extra argument by identity; unregistered (never, erased, only a permutation registered) => an exception and no handler ran. "
                "State = (handler map, index assignment). (B) static_dispatcher instantiated for every pair of the 15 ordered sub-lists of (A,B,C) (antisymmetric) and every sub-list (symmetric), all 9 argument pairs each. "
                "(C) acyclic visitors: a concrete visitor carries, per visited class T, any subset of three handler bases - own = visitor<T,int,c> (c = constness of the visited hierarchy), "
                "other-constness = visitor<T,int,!c>, other-return-type = visitor<T,long,c>; every subset of the six own/other-constness bases x {none, all three} other-return-type bases (128 visitor classes; "
                "thorough: all 512 subsets of the nine bases) x every visited type x {default, throwing} catch-all x {const, non-const} hierarchy: own handler present => exactly visit(T) of the own flavour once on the "
                "object passed; absent => the catch-all policy and NO handler ran (a handler of another flavour is 'some other handler'); cyclic visitor. "
                "(D) dispatcher objects as values: BFS over histories of S heap-allocated functor_dispatcher objects (S=2 over basic_dispatcher with 1 argument over {A,B,C} and 2 arguments over {A,B}; "
                "S=1 over basic_dispatcher 2 arguments {A,B,C} and over basic_fast_dispatcher 1 and 2 arguments {A,B,C}) whose alphabet has, besides d<i>.insert<tuple>(h1|h2) (handler ids encode the object they "
                "were registered through) and d<i>.erase<tuple>, the call d<i>.dispatch(tuple) for EVERY tuple as an operation (judged when executed), self assignment, relocation by copy/move construction (old object "
                "destroyed), round trips through a copied/moved temporary, and for S=2 copy assignment, copy construction, move assignment, move construction and swap between the objects and replacement by a fresh D(); "
                "model: one handler map per object, a copy/move target gets the source's map and is independent afterwards, a moved-from object is only used as an assignment/construction target; after EVERY transition "
                "every live object dispatches ALL tuples against its own map (same oracle as A). State = per object (moved-from, handler map, trail of the last 1 (thorough 2) dispatched tuples, following copies and moves) + index assignment. "
                "distinct_nontrivial = dispatcher states")
    ctx.assumptions += [
        "one fast dispatcher per hierarchy (the per-class index is process-global state, reset by the harness before every replay)",
        "the hierarchy has leaf classes only: base-before-derived ordering effects of the dynamic_cast chain are outside the statement",
        "2-argument histories are depth-bounded (quick 3, thorough 5 with a state cap); 3^9 handler maps x index orders cannot be exhausted",
        "(D) only val-fast1 reaches fixpoint; the other value worlds are depth-bounded (quick 4/3, thorough 5/4 with a state cap). Nothing is demanded of a moved-from dispatcher. The fast dispatcher worlds hold ONE object "
        "(relocated, self-assigned, round-tripped): two fast dispatchers on one hierarchy are outside the quantifier. The trail in the state key is an abstraction of 'what was dispatched recently' chosen by the "
        "harness: hidden state that depends on older dispatches than the trail length can be merged away",
        "(C) for a hierarchy base_visitable<R, c, ...> the handler registered for T is visitor<T, R, c>::visit; visitor<T, R, !c> and visitor<T, R', c> bases of the same visitor object are handlers for other hierarchies",
    ]


def replay(ctx, rec):
    b, _ = build(ctx.tier)
    ctx.run_harness(b[which(rec["args"])], rec["args"], tag="c17")
