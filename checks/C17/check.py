"""C17 multimethods and visitors: registration histories (E2) + generated static_dispatcher instantiations + visitor subsets (E3)
+ dispatcher objects as values (E2: dispatch calls, copies, moves, swaps and relocations as operations of the history)
+ module context (E: a plugin shared object with its own copy of the header-only hierarchy, loaded with dlopen)
+ visitor object shapes x histories of accept calls, every history in a fresh process (F)."""
import itertools
import os
import vlib

LEVEL = "model_checking"
HERE = os.path.dirname(os.path.abspath(__file__))
SRC = os.path.join(HERE, "harness.cpp")
SRC_MOD = os.path.join(HERE, "modules.cpp")
SRC_VH = os.path.join(HERE, "vishist.cpp")
SRC_W = os.path.join(HERE, "wide.cpp")
SRC_W2 = os.path.join(HERE, "ident_tu2.cpp")
HIERS = ["nonconst/default_catch_all", "nonconst/throwing_catch_all", "const/default_catch_all", "const/throwing_catch_all"]
GEN = os.path.join(vlib.BUILD, "c17gen")


def ordered_sublists():
    out = []
    for r in (1, 2, 3):
        for sub in itertools.combinations("ABC", r):
            for perm in itertools.permutations(sub):
                out.append(perm)
    return out   # 15 ordered sub-lists of the type list


def generate():
    os.makedirs(GEN, exist_ok=True)
    lists = ordered_sublists()
    lines = []
    for ll in lists:
        for rl in lists:
            lines.append("SCASE(%s, %s, antisymmetric_dispatch)" % (" COMMA ".join(ll), " COMMA ".join(rl)))
        # symmetric dispatch uses one list for both sides
        lines.append("SCASE(%s, %s, symmetric_dispatch)" % (" COMMA ".join(ll), " COMMA ".join(ll)))
    path = os.path.join(GEN, "static_cases.inc")
    txt = "\n".join(lines) + "\n"
    if not os.path.exists(path) or open(path).read() != txt:
        open(path, "w").write(txt)
    return len(lines)


def build(tier="quick"):
    """binaries built in parallel: A dispatcher histories, B generated static_dispatcher instantiations, C visitors
    (thorough: all 512 subsets of the nine handler bases instead of 128), D dispatcher objects as values,
    E module context: modules.cpp built twice - the host program (not linked with -rdynamic) and the plugin, a shared object
    (-fPIC -shared, default visibility) that the host loads with dlopen; both land in the build cache next to each other,
    F visitor shapes x accept histories (vishist.cpp)"""
    n = generate()
    def one(part, opt):
        defs = ["PART_A=%d" % (part == "A"), "PART_B=%d" % (part == "B"), "PART_C=%d" % (part == "C"), "PART_D=%d" % (part == "D")]
        if part == "C" and tier == "thorough":
            defs.append("VIS_FULL=1")
        return vlib.compile_cxx(SRC, "c17" + part, std="c++14", opt=opt, san="asan", flags=["-I" + GEN], defines=defs)
    def host():
        return vlib.compile_cxx(SRC_MOD, "c17E", std="c++14", opt="-O1", san="asan", defines=["C17_PLUGIN=0"], libs=["-ldl"])
    def plugin():
        return vlib.compile_cxx(SRC_MOD, "c17Eplugin", std="c++14", opt="-O1", san="asan", defines=["C17_PLUGIN=1"], flags=["-fPIC", "-shared"])
    def vh():
        return vlib.compile_cxx(SRC_VH, "c17F", std="c++14", opt="-O0", san="asan")
    def wide():
        # parts G and H: two translation units (wide.cpp + ident_tu2.cpp), each with its own unnamed-namespace class `Widget`
        return vlib.compile_cxx(SRC_W, "c17W", std="c++14", opt="-O1", san="asan", extra_srcs=[SRC_W2], flags=["-I" + HERE])
    bins = vlib.parallel([lambda: one("A", "-O1"), lambda: one("B", "-O0"), lambda: one("C", "-O0"), lambda: one("D", "-O1"), host, plugin, vh, wide])
    return {"A": bins[0], "B": bins[1], "C": bins[2], "D": bins[3], "E": bins[4], "Eplugin": bins[5], "F": bins[6], "W": bins[7]}, n


def which(args):
    if "--static-only" in args:
        return "B"
    if "--visitors-only" in args:
        return "C"
    if "--vis-hist" in args or "--vis-replay" in args:
        return "F"
    if "--wide" in args or "--wide-replay" in args:
        return "W"
    for flag in ("--inst", "--replay"):
        if flag in args and args[args.index(flag) + 1].startswith("val-"):
            return "D"
        if flag in args and args[args.index(flag) + 1].startswith("mod-"):
            return "E"
    return "A"


def full_args(b, a):
    """the module part needs the path of the plugin built for this tree (never stored in a replay file)"""
    return a + ["--plugin", b["Eplugin"]] if which(a) == "E" else a


def module_plan(tier):
    q = tier == "quick"
    d2, d3, df = ("2", "1", "3") if q else ("3", "2", "4")
    return [["--inst", "mod-basic1"],
            ["--inst", "mod-basic2", "--depth", d2], ["--inst", "mod-basic2-static_cast", "--depth", d2], ["--inst", "mod-basic2-extra", "--depth", d2],
            ["--inst", "mod-basic3", "--depth", d3],
            ["--inst", "mod-fast1@host"], ["--inst", "mod-fast1@plugin"],
            ["--inst", "mod-fast2@host", "--depth", df], ["--inst", "mod-fast2@plugin", "--depth", df],
            ["--inst", "mod-fast2-dynamic_cast@host", "--depth", df], ["--inst", "mod-fast2-dynamic_cast@plugin", "--depth", df],
            ["--inst", "mod-tables"]]


def vishist_plan(tier):
    """every history of exactly L accept calls over the call alphabet of the pool, each in a fresh process; sharded by first call"""
    out = []
    for h in HIERS:
        for s in range(4):
            out.append(["--vis-hist", h, "--len", "2", "--pool", "2", "--shard", str(s), "4"])
        if tier != "quick":
            for s in range(8):
                out.append(["--vis-hist", h, "--len", "3", "--pool", "1", "--shard", str(s), "8"])
    return out


def wide_plan(tier):
    """parts G (type identity: same-named unnamed-namespace classes of two translation units on one basic dispatcher) and
    H (fast dispatcher over five classes): ALL histories of 1..L operations, each on a fresh dispatcher"""
    q = tier == "quick"
    L = "3" if q else "4"
    out = [["--wide", i, "--len", L] for i in ("ident2", "ident2-static_cast")]
    out += [["--wide", i, "--len", "4" if q else "5"] for i in ("ident1", "ident1-static_cast")]
    for i in ("fast5", "fast5-dynamic_cast"):
        if q:
            out.append(["--wide", i, "--len", "3"])
        else:
            out += [["--wide", i, "--len", "4", "--shard", str(s), "5"] for s in range(5)]
    return out


def plan(tier):
    return base_plan(tier) + module_plan(tier) + vishist_plan(tier) + wide_plan(tier)


def base_plan(tier):
    if tier == "quick":
        return [["--inst", "basic1"], ["--inst", "fast1"],
                ["--inst", "basic2", "--depth", "4", "--max-states", "30000"], ["--inst", "basic2-static_cast", "--depth", "3"], ["--inst", "fast2", "--depth", "4", "--max-states", "30000"], ["--inst", "fast2-dynamic_cast", "--depth", "3"],
                ["--inst", "basic2-extra", "--depth", "2"], ["--inst", "fast2-extra", "--depth", "2"],
                ["--inst", "basic3", "--depth", "2"], ["--inst", "fast3", "--depth", "2"],
                ["--inst", "val-basic2", "--depth", "4"], ["--inst", "val-basic1", "--depth", "4"], ["--inst", "val-basic2x1", "--depth", "3"],
                ["--inst", "val-fast1"], ["--inst", "val-fast2", "--depth", "3"],
                ["--static-only"], ["--visitors-only"]]
    return [["--inst", "basic1"], ["--inst", "fast1"],
            ["--inst", "basic2", "--depth", "5", "--max-states", "60000"], ["--inst", "basic2-static_cast", "--depth", "4", "--max-states", "60000"],
            ["--inst", "fast2", "--depth", "5", "--max-states", "60000"], ["--inst", "fast2-dynamic_cast", "--depth", "4", "--max-states", "60000"],
            ["--inst", "basic2-extra", "--depth", "3"], ["--inst", "fast2-extra", "--depth", "3"],
            ["--inst", "basic3", "--depth", "3", "--max-states", "30000"], ["--inst", "fast3", "--depth", "4", "--max-states", "30000"],
            ["--inst", "val-basic2", "--depth", "5", "--trail", "2", "--max-states", "120000"], ["--inst", "val-basic1", "--depth", "5", "--trail", "2", "--max-states", "120000"],
            ["--inst", "val-basic2x1", "--depth", "4", "--trail", "2"],
            ["--inst", "val-fast1", "--trail", "2"], ["--inst", "val-fast2", "--depth", "4", "--trail", "2", "--max-states", "120000"],
            ["--static-only"], ["--visitors-only"]]


def run(ctx):
    b, n = build(ctx.tier)
    dl = str(int(max(60, ctx.time_left() - 30)))
    vlib.parallel([(lambda a=a: ctx.run_harness(b[which(a)], full_args(b, a) + ["--deadline", dl], tag="c17")) for a in plan(ctx.tier)])
    # several harness runs can report the same signature (shards of one hierarchy): keep the report deterministic
    ctx.viols.sort(key=lambda v: (v["sig"], len(v["msg"]), v["msg"]))
    ctx.stats["generated_static_dispatcher_instantiations"] = n
    ctx.stats["evaluations"] = (ctx.stats.get("transitions", 0) + ctx.stats.get("static_dispatch_cases", 0) + ctx.stats.get("visitor_cases", 0)
                                + ctx.stats.get("module_static_dispatch_cases", 0) + ctx.stats.get("module_visitor_cases", 0) + ctx.stats.get("vis_hist_accept_calls_judged", 0)
                                + ctx.stats.get("wide_dispatch_calls_judged", 0))
    ctx.stats["distinct_nontrivial"] = ctx.stats.get("states", 0)
    ctx.note("part D (dispatcher objects as values): %d states, %d transitions of which %d dispatch operations and %d copy/move/swap/relocation/self-assignment/fresh operations; part C: %d visitor classes, %d accept calls "
             "(%d with the own handler present, %d where only handlers of another flavour exist for the visited type)" % (
                 ctx.stats.get("value_world_states", 0), ctx.stats.get("value_world_transitions", 0), ctx.stats.get("dispatch_transitions", 0), ctx.stats.get("copy_move_swap_relocate_transitions", 0),
                 ctx.stats.get("visitor_classes", 0), ctx.stats.get("visitor_cases", 0), ctx.stats.get("visitor_cases_own_handler_present", 0), ctx.stats.get("visitor_cases_only_foreign_handlers_for_visited_type", 0)))
    ctx.note("part E (module context, plugin loaded with dlopen): %d states, %d transitions, %d dispatch calls of which %d cross a module boundary (an argument object, the registration and the call site are "
             "not all in one module; %d of those to registered tuples); static_dispatcher %d cases (%d cross-module), acyclic visitors %d cases (%d cross-module). "
             "part F (visitor shapes x accept histories): %d hierarchies x %d visitor objects of %d shapes (%d objects with several base_visitor entries, %d entry sub-objects) -> call alphabet %d per hierarchy; "
             "%d histories (max length %d), each in a fresh process, %d accept calls judged" % (
                 ctx.stats.get("module_world_states", 0), ctx.stats.get("module_world_transitions", 0), ctx.stats.get("module_dispatch_calls", 0), ctx.stats.get("module_dispatch_calls_crossing_modules", 0),
                 ctx.stats.get("module_dispatch_calls_crossing_modules_to_registered_tuples", 0), ctx.stats.get("module_static_dispatch_cases", 0), ctx.stats.get("module_static_dispatch_cases_cross_module", 0),
                 ctx.stats.get("module_visitor_cases", 0), ctx.stats.get("module_visitor_cases_cross_module", 0),
                 ctx.stats.get("vis_hist_hierarchies", 0), ctx.maxes.get("vis_hist_visitor_objects_per_hierarchy", 0), ctx.maxes.get("vis_hist_shapes", 0), ctx.maxes.get("vis_hist_visitor_objects_with_several_entries", 0),
                 ctx.maxes.get("vis_hist_entry_subobjects_per_hierarchy", 0), ctx.maxes.get("vis_hist_call_alphabet", 0), ctx.stats.get("vis_hist_histories_each_in_a_fresh_process", 0),
                 ctx.maxes.get("vis_hist_history_length", 0), ctx.stats.get("vis_hist_accept_calls_judged", 0)))
    ctx.note("part G (type identity: two distinct classes with one mangled name, unnamed-namespace `Widget` of two translation units, + Ext, on one basic dispatcher): %d histories (max length %d), "
             "%d dispatch calls judged, %d of them to registered tuples; the two classes have equal name text: %d, equal hash_code: %d; runs skipped because the compiler does not keep the classes apart: %d. "
             "part H (fast dispatcher, two arguments over FIVE classes): %d histories (max length %d, alphabet %d insertions), %d dispatch calls judged, %d to registered tuples" % (
                 ctx.stats.get("ident_histories", 0), ctx.maxes.get("ident_history_length", 0), ctx.stats.get("ident_dispatch_calls_judged", 0), ctx.stats.get("ident_dispatch_calls_to_registered_tuples", 0),
                 ctx.maxes.get("ident_same_name_classes_have_equal_name_text", 0), ctx.maxes.get("ident_same_name_classes_have_equal_hash_code", 0),
                 ctx.stats.get("ident_runs_skipped_compiler_does_not_distinguish_the_classes", 0),
                 ctx.stats.get("fast5_histories", 0), ctx.maxes.get("fast5_history_length", 0), ctx.maxes.get("fast5_operation_alphabet", 0),
                 ctx.stats.get("fast5_dispatch_calls_judged", 0), ctx.stats.get("fast5_dispatch_calls_to_registered_tuples", 0)))
    ctx.rule = ("(A) BFS over registration/erasure histories of functor_dispatcher over basic_dispatcher (dynamic and static casting) and basic_fast_dispatcher, with 1, 2 and 3 dispatched arguments and with an undispatched "
                "extra argument: insert<D...>(h) for EVERY type tuple over {A,B,C} and h in {h1,h2}, erase<D...> for every tuple (basic only); every history is replayed on a fresh dispatcher after resetting the "
                "per-class static indices, so registration order determines the lazily assigned indices and table shapes; after EVERY transition dispatch is called on ALL 3^k argument tuples: registered => exactly that "
                "handler once, arguments by identity in registered order, extra argument by identity; unregistered (never, erased, only a permutation registered) => an exception and no handler ran. "
                "State = (handler map, index assignment). (B) static_dispatcher instantiated for every pair of the 15 ordered sub-lists of (A,B,C) (antisymmetric) and every sub-list (symmetric), all 9 argument pairs each. "
                "(C) acyclic visitors: a concrete visitor carries, per visited class T, any subset of three handler bases - own = visitor<T,int,c> (c = constness of the visited hierarchy), "
                "other-constness = visitor<T,int,!c>, other-return-type = visitor<T,long,c>; every subset of the six own/other-constness bases x {none, all three} other-return-type bases (128 visitor classes; "
                "thorough: all 512 subsets of the nine bases) x every visited type x {default, throwing} catch-all x {const, non-const} hierarchy: own handler present => exactly visit(T) of the own flavour once on the "
                "object passed; absent => the catch-all policy and NO handler ran (a handler of another flavour is 'some other handler'); cyclic visitor. "
                "(D) dispatcher objects as values: BFS over histories of S heap-allocated functor_dispatcher objects (S=2 over basic_dispatcher with 1 argument over {A,B,C} and 2 arguments over {A,B}; "
                "S=1 over basic_dispatcher 2 arguments {A,B,C} and over basic_fast_dispatcher 1 and 2 arguments {A,B,C}) whose alphabet has, besides d<i>.insert<tuple>(h1|h2) (handler ids encode the object they "
                "were registered through) and d<i>.erase<tuple>, the call d<i>.dispatch(tuple) for EVERY tuple as an operation (judged when executed), self assignment, relocation by copy/move construction (old object "
                "destroyed), round trips through a copied/moved temporary, and for S=2 copy assignment, copy construction, move assignment, move construction and swap between the objects and replacement by a fresh D(); "
                "model: one handler map per object, a copy/move target gets the source's map and is independent afterwards, a moved-from object is only used as an assignment/construction target; after EVERY transition "
                "every live object dispatches ALL tuples against its own map (same oracle as A). State = per object (moved-from, handler map, trail of the last 1 (thorough 2) dispatched tuples, following copies and moves) + index assignment. "
                "(E) MODULE CONTEXT: the harness is built twice, as a host program (not linked with -rdynamic) and as a plugin shared object (-fPIC -shared, default visibility) loaded with dlopen(RTLD_NOW|RTLD_LOCAL); "
                "each module carries its own copy of the header-only hierarchy Shape <- A,B,C, i.e. its own vtables, type_info objects and per-class static indices (checked at start-up: different addresses, equal names; "
                "otherwise the run is a harness error). BFS over registration/erasure histories of ONE functor_dispatcher over basic_dispatcher (1 argument; 2 arguments with dynamic and static casting and with an "
                "undispatched extra argument; 3 arguments) in which every insert<tuple>(h1|h2) and erase<tuple> is executed EITHER in the host OR in the plugin (handler ids encode the registering module); after EVERY "
                "transition dispatch is called for ALL 3^k tuples x ALL 2^k origins of the argument objects (created in the host / in the plugin) x the module executing the dispatch call; expected: exactly the "
                "single-module result - one handler map keyed by the tuple of types whichever module registered, created or called (the last insert for a tuple wins, an erase from either module removes it), same "
                "oracle as (A). 1 argument to fixpoint, 2 arguments depth 2 (thorough 3), 3 arguments depth 1 (thorough 2). basic_fast_dispatcher (1 and 2 arguments, static and dynamic casting) in module-homogeneous "
                "configurations: all registrations executed in module M and all argument objects created in M, M = host and M = plugin, dispatcher object in the host, dispatch called from both modules (depth 3, "
                "thorough 4; 1 argument to fixpoint). static_dispatcher instantiated in the host and in the plugin (antisymmetric and symmetric over (A,B,C), symmetric over (C,B,A), antisymmetric (A,B)x(B,C)) x 4 "
                "argument origins x 9 pairs; acyclic visitors {non-const/throwing, const/default} x visitor object created in host/plugin x visited object created in host/plugin x visited class. "
                "(F) VISITOR OBJECT SHAPES x HISTORIES of accept calls: six shapes of visitor objects per hierarchy - single base_visitor; two parts that each derive from base_visitor (handler base before and after "
                "it); three parts (one without handlers); two parts sharing one VIRTUAL base_visitor; one virtual + one non-virtual base_visitor; two parts with a VIRTUAL visitor<A> handler base overridden in the "
                "composite - two objects of each (thorough length-3 run: one), a call = visited class {A,B,C} x visitor object x entry sub-object (the base_visitor reference of one of its parts): 72 calls per hierarchy; "
                "ALL histories of exactly 2 calls (72^2 per hierarchy; thorough also all 36^3 of length 3 over the one-object pool) x 4 hierarchies, nothing merged, EVERY history in its own process forked from a "
                "parent that never calls accept (a cache inside accept is hidden static/thread_local state); every call of every history judged: handled => exactly visit(T&) once, running on the "
                "visitor<T,int,c> base OF THE OBJECT PASSED (address obtained by static_cast from the complete object), on the visited object, returning its value; unhandled (C) => no handler ran and the catch-all "
                "policy answered; a child that dies is attributed to the call it was executing. "
                "(G) TYPE IDENTITY: the type alphabet {Widget#1, Widget#2, Ext} contains two DISTINCT classes with the same mangled name - `Widget` declared in the unnamed namespace of each of the two translation "
                "units of the harness, both derived from the common base, objects of both dispatched through ONE functor_dispatcher over basic_dispatcher (1 and 2 arguments, dynamic and static casting) - and the "
                "external-linkage class Ext. Operations: insert<tuple>(h) / erase<tuple> for every tuple that can be written in a translation unit (over {Widget#i, Ext}, executed in TU i; tuples of Ext only from both TUs): "
                "16 (2 arguments) / 8 (1 argument) operations; ALL histories of 1..L operations (2 arguments L = 3, thorough 4; 1 argument L = 4, thorough 5), handler id = step number, every history on a fresh dispatcher, "
                "after it dispatch of ALL 3^k tuples of objects (including (Widget#1,Widget#2) and (Widget#2,Widget#1), which no translation unit can register): distinct dynamic types are distinct keys - same oracle as (A). "
                "Judged only if a start-up probe that uses nothing of xtl (type_info ==, before, type_index, typeid of the objects, dynamic_cast) shows that the compiler keeps the two classes apart (g++ does). "
                "(H) basic_fast_dispatcher (static and dynamic casting), two dispatched arguments over a hierarchy of FIVE leaf classes P0..P4: ALL histories of 1..L insert<Pi,Pj>(h) operations over the 25 ordered pairs "
                "(L = 3: 16 275 histories; thorough L = 4: 406 900), handler id = step number, per-class static indices reset and a fresh dispatcher for every history (no state merging, no state cap), after it dispatch of "
                "ALL 25 argument pairs, same oracle as (A); hierarchies of 1-4 classes are the histories that mention only those classes. "
                "distinct_nontrivial = dispatcher states")
    ctx.assumptions += [
        "one fast dispatcher per hierarchy (the per-class index is process-global state, reset by the harness before every replay)",
        "the hierarchy has leaf classes only: base-before-derived ordering effects of the dynamic_cast chain are outside the statement",
        "2-argument histories are depth-bounded (quick 3, thorough 5 with a state cap); 3^9 handler maps x index orders cannot be exhausted",
        "(D) only val-fast1 reaches fixpoint; the other value worlds are depth-bounded (quick 4/3, thorough 5/4 with a state cap). Nothing is demanded of a moved-from dispatcher. The fast dispatcher worlds hold ONE object "
        "(relocated, self-assigned, round-tripped): two fast dispatchers on one hierarchy are outside the quantifier. The trail in the state key is an abstraction of 'what was dispatched recently' chosen by the "
        "harness: hidden state that depends on older dispatches than the trail length can be merged away",
        "(C) for a hierarchy base_visitable<R, c, ...> the handler registered for T is visitor<T, R, c>::visit; visitor<T, R, !c> and visitor<T, R', c> bases of the same visitor object are handlers for other hierarchies",
        "(E) type identity across modules is identity by name (type_info::operator== / std::type_index / dynamic_cast of libstdc++), which is what the unchanged basic_dispatcher, static_dispatcher and accept_impl use; the "
        "classes have external linkage and default visibility. basic_fast_dispatcher identifies a class by the static index inside an inline function that XTL_IMPLEMENT_INDEXABLE_CLASS() adds to the USER'S class; a module "
        "that cannot see the host's symbols has its own copy of that variable (verified: the addresses differ), so 'registered in one module, object from the other' is two different index variables by construction of the "
        "user's build and not a question about xtl: fast dispatchers are enumerated in module-homogeneous configurations only. The dispatcher object always lives in the host; one plugin; no dlclose",
        "(G) two translation units of one program, classes with internal linkage and the same name; compiler g++ (the build's compiler) - a compiler whose typeid does not distinguish the two classes is not judged. "
        "(H) histories of at most 3 (thorough 4) registrations over 5 classes, two dispatched arguments; an index collision that needs a sixth class, a fifth registration or three dispatched arguments over more than "
        "three classes is not reached",
        "(F) every handler base is a unique public base of the visitor (an ambiguous or inaccessible visitor<T,R,c> base is not 'the handler registered for T'); histories are bounded at length 2 (thorough 3): hidden "
        "state that needs three (four) accept calls in one process to show is not reached; one thread; visitor objects are created before the first accept call and never destroyed during a history",
    ]


def replay(ctx, rec):
    b, _ = build(ctx.tier)
    ctx.run_harness(b[which(rec["args"])], full_args(b, rec["args"]), tag="c17")
