"""C17 multimethods and visitors: registration histories (E2) + generated static_dispatcher instantiations + visitor subsets (E3)."""
import itertools
import os
import vlib

LEVEL = "model_checking"
HERE = os.path.dirname(os.path.abspath(__file__))
SRC = os.path.join(HERE, "harness.cpp")
GEN = os.path.join(vlib.BUILD, "c17gen")


def ordered_sublists():
    out = []
    for r in (1, 2, 3):
        for sub in itertools.combinations("ABC", r):
            for perm in itertools.permutations(sub):
                out.append(perm)
    return out   # 15 ordered sub-lists of the type list


def generate():
    os.makedirs(GEN, exist_ok=True)
    lists = ordered_sublists()
    lines = []
    for ll in lists:
        for rl in lists:
            lines.append("SCASE(%s, %s, antisymmetric_dispatch)" % (" COMMA ".join(ll), " COMMA ".join(rl)))
        # symmetric dispatch uses one list for both sides
        lines.append("SCASE(%s, %s, symmetric_dispatch)" % (" COMMA ".join(ll), " COMMA ".join(ll)))
    path = os.path.join(GEN, "static_cases.inc")
    txt = "\n".join(lines) + "\n"
    if not os.path.exists(path) or open(path).read() != txt:
        open(path, "w").write(txt)
    return len(lines)


def build():
    """three binaries built in parallel: A dispatcher histories, B generated static_dispatcher instantiations, C visitors"""
    n = generate()
    def one(part, opt):
        defs = ["PART_A=%d" % (part == "A"), "PART_B=%d" % (part == "B"), "PART_C=%d" % (part == "C")]
        return vlib.compile_cxx(SRC, "c17" + part, std="c++14", opt=opt, san="asan", flags=["-I" + GEN], defines=defs)
    bins = vlib.parallel([lambda: one("A", "-O1"), lambda: one("B", "-O0"), lambda: one("C", "-O0")])
    return {"A": bins[0], "B": bins[1], "C": bins[2]}, n


def which(args):
    return "B" if "--static-only" in args else "C" if "--visitors-only" in args else "A"


def plan(tier):
    if tier == "quick":
        return [["--inst", "basic1"], ["--inst", "fast1"],
                ["--inst", "basic2", "--depth", "4", "--max-states", "30000"], ["--inst", "basic2-static_cast", "--depth", "3"], ["--inst", "fast2", "--depth", "4", "--max-states", "30000"], ["--inst", "fast2-dynamic_cast", "--depth", "3"],
                ["--inst", "basic2-extra", "--depth", "2"], ["--inst", "fast2-extra", "--depth", "2"],
                ["--inst", "basic3", "--depth", "2"], ["--inst", "fast3", "--depth", "2"],
                ["--static-only"], ["--visitors-only"]]
    return [["--inst", "basic1"], ["--inst", "fast1"],
            ["--inst", "basic2", "--depth", "5", "--max-states", "60000"], ["--inst", "basic2-static_cast", "--depth", "4", "--max-states", "60000"],
            ["--inst", "fast2", "--depth", "5", "--max-states", "60000"], ["--inst", "fast2-dynamic_cast", "--depth", "4", "--max-states", "60000"],
            ["--inst", "basic2-extra", "--depth", "3"], ["--inst", "fast2-extra", "--depth", "3"],
            ["--inst", "basic3", "--depth", "3", "--max-states", "30000"], ["--inst", "fast3", "--depth", "4", "--max-states", "30000"],
            ["--static-only"], ["--visitors-only"]]


def run(ctx):
    b, n = build()
    dl = str(int(max(60, ctx.time_left() - 30)))
    vlib.parallel([(lambda a=a: ctx.run_harness(b[which(a)], a + ["--deadline", dl], tag="c17")) for a in plan(ctx.tier)])
    ctx.stats["generated_static_dispatcher_instantiations"] = n
    ctx.stats["evaluations"] = ctx.stats.get("transitions", 0) + ctx.stats.get("static_dispatch_cases", 0) + ctx.stats.get("visitor_cases", 0)
    ctx.stats["distinct_nontrivial"] = ctx.stats.get("states", 0)
    ctx.rule = ("(A) BFS over registration/erasure histories of functor_dispatcher over basic_dispatcher (dynamic and static casting) and basic_fast_dispatcher, with 1, 2 and 3 dispatched arguments and with an undispatched "
                "extra argument: insert<D...>(h) for EVERY type tuple over {A,B,C} and h in {h1,h2}, erase<D...> for every tuple (basic only); every history is replayed on a fresh dispatcher after resetting the "
                "per-class static indices, so registration order determines the lazily assigned indices and table shapes; after EVERY transition dispatch is called on ALL 3^k argument tuples: registered => exactly that "
                "handler once, arguments by identity in registered order, extra argument by identity; unregistered (never, erased, only a permutation registered) => an exception and no handler ran. "
                "State = (handler map, index assignment). (B) static_dispatcher instantiated for every pair of the 15 ordered sub-lists of (A,B,C) (antisymmetric) and every sub-list (symmetric), all 9 argument pairs each. "
                "(C) acyclic visitors: every subset of {A,B,C} as handled types x every visited type x {default, throwing} catch-all x {const, non-const}; cyclic visitor. distinct_nontrivial = dispatcher states")
    ctx.assumptions += [
        "one fast dispatcher per hierarchy (the per-class index is process-global state, reset by the harness before every replay)",
        "the hierarchy has leaf classes only: base-before-derived ordering effects of the dynamic_cast chain are outside the statement",
        "2-argument histories are depth-bounded (quick 3, thorough 5 with a state cap); 3^9 handler maps x index orders cannot be exhausted",
    ]


def replay(ctx, rec):
    b, _ = build()
    ctx.run_harness(b[which(rec["args"])], rec["args"], tag="c17")
