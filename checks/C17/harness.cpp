// C17: multimethods and visitors call exactly the handler for the dynamic types.
//   part A (engine E2, no faults): registration/erasure histories of functor_dispatcher over basic_dispatcher and basic_fast_dispatcher
//   part B (E3): static_dispatcher for every ordered sub-list of the type list, symmetric and antisymmetric (generated instantiations)
//   part C (E3): acyclic visitors for every subset of handler bases (own flavour, other-constness flavour, other-return-type flavour
//                 per visited type) x visited type x catch-all policy x constness of the hierarchy; cyclic visitor
//   part D (engine E2, no faults): dispatcher OBJECTS AS VALUES - histories over one or two dispatcher objects whose alphabet contains,
//                 besides insert/erase, dispatch calls as operations and every copy/move/swap/relocation of the dispatcher objects
#ifndef PART_A
#define PART_A 1
#define PART_B 1
#define PART_C 1
#define PART_D 1
#endif
#ifndef PART_D
#define PART_D 0
#endif
#define PART_MM (PART_A || PART_B || PART_D)

// every binary sees only the header its part is about (a change to the other header does not rebuild it)
#if PART_MM
#include <xtl/xmultimethods.hpp>
#endif
#if PART_C
#include <xtl/xvisitor.hpp>
#endif

#include "history.hpp"

#include <array>
#include <map>
#include <memory>
#include <stdexcept>
#include <utility>

using vf::Errs;
using vf::str;
namespace mpl = xtl::mpl;

// ------------------------------------------------------------------------------------------------ hierarchy
static const char* tn(int t) { return t == 0 ? "A" : t == 1 ? "B" : t == 2 ? "C" : t == 9 ? "Shape" : "-"; }
#if PART_MM
struct Shape
{
    virtual ~Shape() = default;
    XTL_IMPLEMENT_INDEXABLE_CLASS()
};
struct A : Shape { XTL_IMPLEMENT_INDEXABLE_CLASS() };
struct B : Shape { XTL_IMPLEMENT_INDEXABLE_CLASS() };
struct C : Shape { XTL_IMPLEMENT_INDEXABLE_CLASS() };

template <class T> struct tagof;
template <> struct tagof<A> { static const int v = 0; };
template <> struct tagof<B> { static const int v = 1; };
template <> struct tagof<C> { static const int v = 2; };
template <> struct tagof<Shape> { static const int v = 9; };

static A g_a;
static B g_b;
static C g_c;
static Shape* g_obj[3] = {&g_a, &g_b, &g_c};

struct Call { int handler; const void* addr[3]; int tags[3]; const void* extra; };
static std::vector<Call> g_calls;

static void reset_indices()
{
    Shape::get_class_static_index() = SIZE_MAX;
    A::get_class_static_index() = SIZE_MAX;
    B::get_class_static_index() = SIZE_MAX;
    C::get_class_static_index() = SIZE_MAX;
}
static std::string idx_s(std::size_t v) { return v == SIZE_MAX ? std::string("-") : str(v); }
#endif

// ------------------------------------------------------------------------------------------------ part A
#if PART_A || PART_D
typedef std::array<int, 3> Tup;   // type tags, padded with -1

template <class D>
struct DWorld
{
    typedef D disp_type;
    D d;
    std::map<Tup, int> m;
    DWorld() { reset_indices(); g_calls.clear(); }
    std::string key() const
    {
        std::string k;
        for (auto& kv : m) k += std::string(tn(kv.first[0])) + tn(kv.first[1]) + tn(kv.first[2]) + ">" + str(kv.second) + " ";
        k += "| idx " + idx_s(A::get_class_static_index()) + idx_s(B::get_class_static_index()) + idx_s(C::get_class_static_index());
        return k;
    }
};

static long long g_dispatches = 0, g_dispatch_hits = 0;

// judge one dispatch outcome against the model
static void judge(const std::map<Tup, int>& m, const Tup& t, int K, bool threw, int ret, const void* extra_expected, Errs& e)
{
    ++g_dispatches;
    auto it = m.find(t);
    std::string who = std::string("dispatch(") + tn(t[0]) + (K > 1 ? std::string(",") + tn(t[1]) : "") + (K > 2 ? std::string(",") + tn(t[2]) : "") + ")";
    if (it == m.end())
    {
        if (!g_calls.empty()) e.add("wrong-handler-ran", who + " has no registered handler but handler " + str(g_calls[0].handler) + " ran (registered for " + tn(g_calls[0].tags[0]) + tn(g_calls[0].tags[1]) + tn(g_calls[0].tags[2]) + ")");
        else if (!threw) e.add("no-error", who + " has no registered handler but the call returned normally without reporting an error");
        return;
    }
    ++g_dispatch_hits;
    if (threw) { e.add("registered-not-found", who + " is registered with handler " + str(it->second) + " but the call threw"); return; }
    if (g_calls.size() != 1) { e.add("handler-count", who + " ran " + str(g_calls.size()) + " handlers"); return; }
    const Call& c = g_calls[0];
    if (c.handler != it->second || ret != it->second) e.add("wrong-handler", who + " ran handler " + str(c.handler) + " (returned " + str(ret) + "), registered is " + str(it->second));
    for (int i = 0; i < K; ++i)
    {
        if (c.tags[i] != t[i]) e.add("argument-type", who + ": argument " + str(i) + " reached the handler as " + tn(c.tags[i]));
        if (c.addr[i] != static_cast<const void*>(dynamic_cast<const void*>(g_obj[t[i]]))) e.add("argument-identity", who + ": argument " + str(i) + " is not the object that was passed (order or identity changed)");
    }
    if (extra_expected && c.extra != extra_expected) e.add("extra-argument", who + ": the undispatched extra argument was not passed through by identity");
}

#define TYPES3(X) X(A) X(B) X(C)
#endif
#if PART_A

// ---- K = 1
template <class D, bool ERASE>
struct Ops1
{
    typedef DWorld<D> W;
    template <class T0> static void ins(vf::HistoryExplorer<W>& hx)
    {
        for (int h = 1; h <= 2; ++h)
            hx.add_op("insert", std::string("insert<") + tn(tagof<T0>::v) + ">(h" + str(h) + ")", [h](W& w, Errs&) {
                w.d.template insert<T0>([h](T0& a) -> int { g_calls.push_back(Call{h, {&a, nullptr, nullptr}, {tagof<T0>::v, -1, -1}, nullptr}); return h; });
                w.m[Tup{{tagof<T0>::v, -1, -1}}] = h; return true; });
        er<T0>(hx, std::integral_constant<bool, ERASE>());
    }
    template <class T0> static void er(vf::HistoryExplorer<W>&, std::false_type) {}
    template <class T0> static void er(vf::HistoryExplorer<W>& hx, std::true_type)
    {
        hx.add_op("erase", std::string("erase<") + tn(tagof<T0>::v) + ">", [](W& w, Errs&) { w.d.template erase<T0>(); w.m.erase(Tup{{tagof<T0>::v, -1, -1}}); return true; });
    }
    static void build(vf::HistoryExplorer<W>& hx)
    {
#define X(T) ins<T>(hx);
        TYPES3(X)
#undef X
    }
    static void dispatch_all(W& w, Errs& e)
    {
        for (int i = 0; i < 3; ++i)
        {
            g_calls.clear();
            bool threw = false; int ret = 0;
            try { ret = w.d.dispatch(*g_obj[i]); } catch (const std::exception&) { threw = true; }
            judge(w.m, Tup{{i, -1, -1}}, 1, threw, ret, nullptr, e);
        }
    }
};

// ---- K = 2 (optionally with one undispatched extra argument)
static int g_extra = 42;
template <class D, bool ERASE, bool EXTRA>
struct Ops2
{
    typedef DWorld<D> W;
    template <class T0, class T1> static void ins(vf::HistoryExplorer<W>& hx) { ins_impl<T0, T1>(hx, std::integral_constant<bool, EXTRA>()); }
    template <class T0, class T1> static void ins_impl(vf::HistoryExplorer<W>& hx, std::false_type)
    {
        const std::string nm = std::string(tn(tagof<T0>::v)) + "," + tn(tagof<T1>::v);
        for (int h = 1; h <= 2; ++h)
            hx.add_op("insert", "insert<" + nm + ">(h" + str(h) + ")", [h](W& w, Errs&) {
                w.d.template insert<T0, T1>([h](T0& a, T1& b) -> int { g_calls.push_back(Call{h, {&a, &b, nullptr}, {tagof<T0>::v, tagof<T1>::v, -1}, nullptr}); return h; });
                w.m[Tup{{tagof<T0>::v, tagof<T1>::v, -1}}] = h; return true; });
        erase_op<T0, T1>(hx, nm);
    }
    template <class T0, class T1> static void ins_impl(vf::HistoryExplorer<W>& hx, std::true_type)
    {
        const std::string nm = std::string(tn(tagof<T0>::v)) + "," + tn(tagof<T1>::v);
        for (int h = 1; h <= 2; ++h)
            hx.add_op("insert", "insert<" + nm + ">(h" + str(h) + ")", [h](W& w, Errs&) {
                w.d.template insert<T0, T1>([h](T0& a, T1& b, int& x) -> int { g_calls.push_back(Call{h, {&a, &b, nullptr}, {tagof<T0>::v, tagof<T1>::v, -1}, &x}); return h; });
                w.m[Tup{{tagof<T0>::v, tagof<T1>::v, -1}}] = h; return true; });
        erase_op<T0, T1>(hx, nm);
    }
    template <class T0, class T1> static void erase_op(vf::HistoryExplorer<W>& hx, const std::string& nm) { erase_impl<T0, T1>(hx, nm, std::integral_constant<bool, ERASE>()); }
    template <class T0, class T1> static void erase_impl(vf::HistoryExplorer<W>&, const std::string&, std::false_type) {}
    template <class T0, class T1> static void erase_impl(vf::HistoryExplorer<W>& hx, const std::string& nm, std::true_type)
    {
        hx.add_op("erase", "erase<" + nm + ">", [](W& w, Errs&) { w.d.template erase<T0, T1>(); w.m.erase(Tup{{tagof<T0>::v, tagof<T1>::v, -1}}); return true; });
    }
    static void build(vf::HistoryExplorer<W>& hx)
    {
#define X(T) ins<T, A>(hx); ins<T, B>(hx); ins<T, C>(hx);
        TYPES3(X)
#undef X
    }
    static int call(W& w, Shape& a, Shape& b, std::false_type) { return w.d.dispatch(a, b); }
    static int call(W& w, Shape& a, Shape& b, std::true_type) { return w.d.dispatch(a, b, g_extra); }
    static void dispatch_all(W& w, Errs& e)
    {
        for (int i = 0; i < 3; ++i) for (int j = 0; j < 3; ++j)
        {
            g_calls.clear();
            bool threw = false; int ret = 0;
            try { ret = call(w, *g_obj[i], *g_obj[j], std::integral_constant<bool, EXTRA>()); } catch (const std::exception&) { threw = true; }
            judge(w.m, Tup{{i, j, -1}}, 2, threw, ret, EXTRA ? &g_extra : nullptr, e);
        }
    }
};

// ---- K = 3
template <class D, bool ERASE>
struct Ops3
{
    typedef DWorld<D> W;
    template <class T0, class T1, class T2> static void ins(vf::HistoryExplorer<W>& hx)
    {
        const std::string nm = std::string(tn(tagof<T0>::v)) + "," + tn(tagof<T1>::v) + "," + tn(tagof<T2>::v);
        hx.add_op("insert", "insert<" + nm + ">(h1)", [](W& w, Errs&) {
            w.d.template insert<T0, T1, T2>([](T0& a, T1& b, T2& c) -> int { g_calls.push_back(Call{1, {&a, &b, &c}, {tagof<T0>::v, tagof<T1>::v, tagof<T2>::v}, nullptr}); return 1; });
            w.m[Tup{{tagof<T0>::v, tagof<T1>::v, tagof<T2>::v}}] = 1; return true; });
        er<T0, T1, T2>(hx, nm, std::integral_constant<bool, ERASE>());
    }
    template <class T0, class T1, class T2> static void er(vf::HistoryExplorer<W>&, const std::string&, std::false_type) {}
    template <class T0, class T1, class T2> static void er(vf::HistoryExplorer<W>& hx, const std::string& nm, std::true_type)
    {
        hx.add_op("erase", "erase<" + nm + ">", [](W& w, Errs&) { w.d.template erase<T0, T1, T2>(); w.m.erase(Tup{{tagof<T0>::v, tagof<T1>::v, tagof<T2>::v}}); return true; });
    }
    static void build(vf::HistoryExplorer<W>& hx)
    {
#define Y(T, U) ins<T, U, A>(hx); ins<T, U, B>(hx); ins<T, U, C>(hx);
#define X(T) Y(T, A) Y(T, B) Y(T, C)
        TYPES3(X)
#undef X
#undef Y
    }
    static void dispatch_all(W& w, Errs& e)
    {
        for (int i = 0; i < 3; ++i) for (int j = 0; j < 3; ++j) for (int k = 0; k < 3; ++k)
        {
            g_calls.clear();
            bool threw = false; int ret = 0;
            try { ret = w.d.dispatch(*g_obj[i], *g_obj[j], *g_obj[k]); } catch (const std::exception&) { threw = true; }
            judge(w.m, Tup{{i, j, k}}, 3, threw, ret, nullptr, e);
        }
    }
};

// DWorld needs light()/check(): dispatch on ALL argument tuples after EVERY transition (table shapes depend on the history)
template <class OPS>
struct HW : OPS::W
{
    void light(Errs& e) { OPS::dispatch_all(*this, e); }
    void check(Errs&) {}
};

template <class OPS>
void run_dispatcher(const std::string& inst, int depth, long long max_states, double deadline, bool replay, const std::string& trace)
{
    typedef HW<OPS> W;
    vf::HistoryExplorer<W> hx;
    hx.prop = "C17";
    hx.inst = inst;
    hx.max_depth = depth;
    hx.max_states = max_states;
    hx.deadline_s = deadline;
    // the op builders are written against OPS::W; HW<OPS> derives from it, so wrap
    vf::HistoryExplorer<typename OPS::W> tmp;
    OPS::build(tmp);
    for (auto& op : tmp.ops)
    {
        auto f = op.f;
        hx.add_op(op.kind, op.name, [f](W& w, Errs& e) { return f(w, e); });
    }
    if (replay) { hx.replay(trace); return; }
    hx.run();
    hx.summarize(depth == (1 << 30));
    vf::stat("operation_instances", (long long)hx.ops.size());
}

#endif
// ------------------------------------------------------------------------------------------------ part D: dispatcher objects as values
#if PART_D
// The statement speaks about "any set of registered handlers": the set a dispatcher OBJECT holds. Dispatchers are copyable and movable
// values and dispatch() is a const member, so (1) a dispatch call must leave nothing behind that changes what a later call does and
// (2) a dispatcher obtained by copy construction / copy assignment / move / swap holds the handlers of its source at that moment and is
// independent of it afterwards. World = S dispatcher objects on the heap + one handler map per object. Alphabet:
//   d<i>.insert<tuple>(h1|h2)  (the handler id also encodes the object it was registered through, so "ran the handler stored in the
//   other object" is visible), d<i>.erase<tuple> (basic only), d<i>.dispatch(tuple) (judged when executed; it may change hidden state),
//   d<i> = d<i> (self assignment), relocation of d<i> by copy / by move construction (the old object is destroyed), round trips through a
//   copied / moved temporary, and for S = 2: d<i> = d<j>, d<i> = std::move(d<j>), d<i> := D(d<j>), d<i> := D(std::move(d<j>)), swap,
//   d<i> := D() (basic only: a fresh fast dispatcher would be a second fast dispatcher on the hierarchy).
// A moved-from object promises nothing: it is only used as the target of an assignment / construction until then.
// After EVERY transition every live object is asked to dispatch EVERY tuple of the alphabet (as in part A).
// Key = per object (moved-from flag, handler map, trail) + index assignment; the trail is the last g_trail tuples dispatched through the
// value the object holds (it follows copies and moves), so histories that differ in what was dispatched recently are kept apart even
// though the implementation as written keeps no such state.
static int g_trail = 1;
static int g_nt = 3;   // size of the type alphabet used by this instantiation ({A,B} or {A,B,C})

template <class DT, bool ERASE>
struct Api1
{
    typedef DT disp_type;
    static const int K = 1;
    static const bool has_erase = ERASE;
    template <class T0> static void ins_t(DT& d, int id)
    {
        d.template insert<T0>([id](T0& a) -> int { g_calls.push_back(Call{id, {&a, nullptr, nullptr}, {tagof<T0>::v, -1, -1}, nullptr}); return id; });
    }
    static void ins(DT& d, const Tup& t, int id)
    {
#define X(T) if (t[0] == tagof<T>::v) return ins_t<T>(d, id);
        TYPES3(X)
#undef X
    }
    template <class T0> static void er_t(DT& d, std::true_type) { d.template erase<T0>(); }
    template <class T0> static void er_t(DT&, std::false_type) {}
    static void er(DT& d, const Tup& t)
    {
#define X(T) if (t[0] == tagof<T>::v) return er_t<T>(d, std::integral_constant<bool, ERASE>());
        TYPES3(X)
#undef X
    }
    static int disp(const DT& d, const Tup& t) { return d.dispatch(*g_obj[t[0]]); }
};

template <class DT, bool ERASE>
struct Api2
{
    typedef DT disp_type;
    static const int K = 2;
    static const bool has_erase = ERASE;
    template <class T0, class T1> static void ins_t(DT& d, int id)
    {
        d.template insert<T0, T1>([id](T0& a, T1& b) -> int { g_calls.push_back(Call{id, {&a, &b, nullptr}, {tagof<T0>::v, tagof<T1>::v, -1}, nullptr}); return id; });
    }
    template <class T0, class T1> static void er_t(DT& d, std::true_type) { d.template erase<T0, T1>(); }
    template <class T0, class T1> static void er_t(DT&, std::false_type) {}
#define Y(T, U) if (t[0] == tagof<T>::v && t[1] == tagof<U>::v) return PAIR_DO(T, U);
#define X(T) Y(T, A) Y(T, B) Y(T, C)
    static void ins(DT& d, const Tup& t, int id)
    {
#define PAIR_DO(T, U) ins_t<T, U>(d, id)
        TYPES3(X)
#undef PAIR_DO
    }
    static void er(DT& d, const Tup& t)
    {
#define PAIR_DO(T, U) er_t<T, U>(d, std::integral_constant<bool, ERASE>())
        TYPES3(X)
#undef PAIR_DO
    }
#undef X
#undef Y
    static int disp(const DT& d, const Tup& t) { return d.dispatch(*g_obj[t[0]], *g_obj[t[1]]); }
};

static std::string tup_s(const Tup& t, int K) { std::string s = tn(t[0]); for (int i = 1; i < K; ++i) s += std::string(",") + tn(t[i]); return s; }

template <class API, int S>
struct VWorld
{
    typedef typename API::disp_type DT;
    std::unique_ptr<DT> d[S];
    bool moved[S];
    std::map<Tup, int> m[S];
    std::vector<Tup> trail[S];

    VWorld()
    {
        reset_indices();
        g_calls.clear();
        for (int i = 0; i < S; ++i) { d[i].reset(new DT); moved[i] = false; }
    }
    static std::vector<Tup> tuples()
    {
        std::vector<Tup> v;
        if (API::K == 1) for (int i = 0; i < g_nt; ++i) v.push_back(Tup{{i, -1, -1}});
        else for (int i = 0; i < g_nt; ++i) for (int j = 0; j < g_nt; ++j) v.push_back(Tup{{i, j, -1}});
        return v;
    }
    std::string key() const
    {
        std::string k;
        for (int i = 0; i < S; ++i)
        {
            k += "d" + str(i) + "{";
            if (moved[i]) k += "moved-from";
            else for (auto& kv : m[i]) k += tup_s(kv.first, API::K) + ">" + str(kv.second) + " ";
            k += "} trail[";
            for (auto& t : trail[i]) k += tup_s(t, API::K) + " ";
            k += "] ";
        }
        k += "| idx " + idx_s(A::get_class_static_index()) + idx_s(B::get_class_static_index()) + idx_s(C::get_class_static_index());
        return k;
    }
    void dispatch_one(int i, const Tup& t, Errs& e)
    {
        g_calls.clear();
        bool threw = false; int ret = 0;
        try { ret = API::disp(*d[i], t); } catch (const std::exception&) { threw = true; }
        Errs mine;
        judge(m[i], t, API::K, threw, ret, nullptr, mine);
        for (auto& kv : mine.v) e.add(kv.first, "d" + str(i) + "." + kv.second);
    }
    void light(Errs& e)
    {
        for (int i = 0; i < S; ++i)
        {
            if (moved[i]) continue;
            for (auto& t : tuples()) dispatch_one(i, t, e);
        }
    }
    void check(Errs&) {}
    void push_trail(int i, const Tup& t)
    {
        trail[i].push_back(t);
        if (int(trail[i].size()) > g_trail) trail[i].erase(trail[i].begin());
    }
};

template <class API, int S, bool FAST>
void run_values(const std::string& inst, int nt, int depth, long long max_states, double deadline, bool replay, const std::string& trace)
{
    typedef VWorld<API, S> W;
    typedef typename API::disp_type DT;
    g_nt = nt;
    vf::HistoryExplorer<W> hx;
    hx.prop = "C17";
    hx.inst = inst;
    hx.max_depth = depth;
    hx.max_states = max_states;
    hx.deadline_s = deadline;
    const int K = API::K;
    for (int i = 0; i < S; ++i)
    {
        const std::string di = "d" + str(i);
        for (auto& t : W::tuples())
        {
            for (int h = 1; h <= 2; ++h)
            {
                const int id = 10 * i + h;
                hx.add_op("insert", di + ".insert<" + tup_s(t, K) + ">(h" + str(h) + ")", [i, t, id](W& w, Errs&) {
                    if (w.moved[i]) return false;
                    API::ins(*w.d[i], t, id); w.m[i][t] = id; return true; });
            }
            if (API::has_erase)
                hx.add_op("erase", di + ".erase<" + tup_s(t, K) + ">", [i, t](W& w, Errs&) {
                    if (w.moved[i]) return false;
                    API::er(*w.d[i], t); w.m[i].erase(t); return true; });
            hx.add_op("dispatch", di + ".dispatch(" + tup_s(t, K) + ")", [i, t](W& w, Errs& e) {
                if (w.moved[i]) return false;
                w.dispatch_one(i, t, e); w.push_trail(i, t); return true; });
        }
        hx.add_op("self-assign", di + " = " + di, [i](W& w, Errs&) {
            if (w.moved[i]) return false;
            const DT& same = *w.d[i]; *w.d[i] = same; return true; });
        hx.add_op("relocate-copy", di + " relocated by copy construction", [i](W& w, Errs&) {
            if (w.moved[i]) return false;
            std::unique_ptr<DT> n(new DT(*w.d[i])); w.d[i] = std::move(n); return true; });
        hx.add_op("relocate-move", di + " relocated by move construction", [i](W& w, Errs&) {
            if (w.moved[i]) return false;
            std::unique_ptr<DT> n(new DT(std::move(*w.d[i]))); w.d[i] = std::move(n); return true; });
        hx.add_op("roundtrip-copy", di + " = copy of " + di, [i](W& w, Errs&) {
            if (w.moved[i]) return false;
            std::unique_ptr<DT> tmp(new DT(*w.d[i])); *w.d[i] = *tmp; return true; });
        hx.add_op("roundtrip-move", di + " moved out and back", [i](W& w, Errs&) {
            if (w.moved[i]) return false;
            std::unique_ptr<DT> tmp(new DT(std::move(*w.d[i]))); *w.d[i] = std::move(*tmp); return true; });
        if (!FAST)
            hx.add_op("fresh", di + " := D()", [i](W& w, Errs&) {
                w.d[i].reset(new DT); w.m[i].clear(); w.trail[i].clear(); w.moved[i] = false; return true; });
        for (int j = 0; j < S; ++j)
        {
            if (j == i) continue;
            const std::string dj = "d" + str(j);
            hx.add_op("copy-assign", di + " = " + dj, [i, j](W& w, Errs&) {
                if (w.moved[j]) return false;
                *w.d[i] = *w.d[j]; w.m[i] = w.m[j]; w.trail[i] = w.trail[j]; w.moved[i] = false; return true; });
            hx.add_op("copy-construct", di + " := D(" + dj + ")", [i, j](W& w, Errs&) {
                if (w.moved[j]) return false;
                w.d[i].reset(new DT(*w.d[j])); w.m[i] = w.m[j]; w.trail[i] = w.trail[j]; w.moved[i] = false; return true; });
            hx.add_op("move-assign", di + " = std::move(" + dj + ")", [i, j](W& w, Errs&) {
                if (w.moved[j]) return false;
                *w.d[i] = std::move(*w.d[j]); w.m[i] = w.m[j]; w.trail[i] = w.trail[j]; w.moved[i] = false; w.m[j].clear(); w.moved[j] = true; return true; });
            hx.add_op("move-construct", di + " := D(std::move(" + dj + "))", [i, j](W& w, Errs&) {
                if (w.moved[j]) return false;
                w.d[i].reset(new DT(std::move(*w.d[j]))); w.m[i] = w.m[j]; w.trail[i] = w.trail[j]; w.moved[i] = false; w.m[j].clear(); w.moved[j] = true; return true; });
            if (i < j)
                hx.add_op("swap", "swap(" + di + "," + dj + ")", [i, j](W& w, Errs&) {
                    if (w.moved[i] || w.moved[j]) return false;
                    std::swap(*w.d[i], *w.d[j]); std::swap(w.m[i], w.m[j]); std::swap(w.trail[i], w.trail[j]); return true; });
        }
    }
    if (replay) { hx.replay(trace); return; }
    hx.run();
    hx.summarize(depth == (1 << 30));
    vf::stat("operation_instances", (long long)hx.ops.size());
    vf::stat("value_world_operation_instances", (long long)hx.ops.size());
    long long disp_ops = 0, transfer = 0;
    for (auto& kv : hx.per_kind)
    {
        if (kv.first == "dispatch") disp_ops += kv.second.first;
        else if (kv.first != "insert" && kv.first != "erase") transfer += kv.second.first;
    }
    vf::stat("value_world_transitions", hx.transitions);
    vf::stat("value_world_states", (long long)hx.nodes.size());
    vf::stat("dispatch_transitions", disp_ops);
    vf::stat("copy_move_swap_relocate_transitions", transfer);
}
#endif
// ------------------------------------------------------------------------------------------------ part B: static_dispatcher
#if PART_B
struct Exec
{
    int ran = 0, err = 0;
    int tl = -1, tr = -1;
    const void* al = nullptr; const void* ar = nullptr;
    template <class L, class R> int run(L& l, R& r) { ++ran; tl = tagof<L>::v; tr = tagof<R>::v; al = &l; ar = &r; return 100 + 10 * tagof<L>::v + tagof<R>::v; }
    int on_error(Shape&, Shape&) { ++err; return -1; }
};

template <class L> struct list_tags;
template <class... T> struct list_tags<mpl::vector<T...>> { static std::vector<int> get() { return {tagof<T>::v...}; } };

static long long g_static_cases = 0, g_static_nontrivial = 0;

template <class LL, class RL, class SYM>
void static_case(const char* name)
{
    typedef xtl::static_dispatcher<Exec, Shape, LL, int, SYM, Shape, RL> SD;
    const bool sym = std::is_same<SYM, xtl::symmetric_dispatch>::value;
    std::vector<int> ll = list_tags<LL>::get(), rl = list_tags<RL>::get();
    auto pos = [](const std::vector<int>& v, int t) { for (std::size_t i = 0; i < v.size(); ++i) if (v[i] == t) return int(i); return -1; };
    for (int i = 0; i < 3; ++i) for (int j = 0; j < 3; ++j)
    {
        Exec ex;
        int ret = SD::dispatch(*g_obj[i], *g_obj[j], ex);
        ++g_static_cases;
        int pi = pos(ll, i), pj = pos(rl, j);
        std::string who = std::string("static_dispatcher<") + name + ">::dispatch(" + tn(i) + "," + tn(j) + ")";
        std::string sigbase = std::string("C17/static/") + (sym ? "symmetric" : "antisymmetric");
        if (pi < 0 || pj < 0)
        {
            if (ex.ran != 0 || ex.err != 1 || ret != -1) vf::violation(sigbase + "/missing-type", who + ": a type missing from a list must go to on_error exactly once; run called " + str(ex.ran) + "x, on_error " + str(ex.err) + "x", {"--static-only"});
            continue;
        }
        bool swapped = sym && pj < pi;
        if (swapped) ++g_static_nontrivial;
        int el = swapped ? j : i, er = swapped ? i : j;
        if (ex.ran != 1 || ex.err != 0) { vf::violation(sigbase + "/run-count", who + ": run called " + str(ex.ran) + "x, on_error " + str(ex.err) + "x", {"--static-only"}); continue; }
        if (ex.tl != el || ex.tr != er || ret != 100 + 10 * el + er) vf::violation(sigbase + "/wrong-overload", who + ": reached run(" + tn(ex.tl) + "," + tn(ex.tr) + "), expected run(" + tn(el) + "," + tn(er) + ")", {"--static-only"});
        if (ex.al != dynamic_cast<const void*>(g_obj[el]) || ex.ar != dynamic_cast<const void*>(g_obj[er])) vf::violation(sigbase + "/argument-identity", who + ": the arguments are not the objects passed (in the expected order)", {"--static-only"});
        if (sym)
        {
            // dispatch(a,b) and dispatch(b,a) reach the same overload
            Exec ex2;
            SD::dispatch(*g_obj[j], *g_obj[i], ex2);
            if (pos(ll, j) >= 0 && pos(rl, i) >= 0 && (ex2.tl != ex.tl || ex2.tr != ex.tr)) vf::violation(sigbase + "/symmetry", who + " and the swapped call reach different overloads", {"--static-only"});
        }
    }
}

static void run_static()
{
#define SCASE(LL, RL, SYM) static_case<mpl::vector<LL>, mpl::vector<RL>, xtl::SYM>(#LL " | " #RL " | " #SYM);
#define COMMA ,
#include "static_cases.inc"
#undef COMMA
#undef SCASE
    vf::stat("static_dispatch_cases", g_static_cases);
    vf::stat("static_dispatch_swapped_cases", g_static_nontrivial);
}

#endif
// ------------------------------------------------------------------------------------------------ part C: visitors
#if PART_C
// four concrete hierarchies (the XTL_DEFINE_*VISITABLE macros name return_type unqualified, so they cannot be used in a class template)
#define DEFINE_HIER(NAME, CONSTFLAG, CATCH, VISITABLE)                          \
    struct NAME                                                                 \
    {                                                                           \
        struct Root : xtl::base_visitable<int, CONSTFLAG, xtl::CATCH> { };      \
        struct LA : Root { VISITABLE() };                                       \
        struct LB : Root { VISITABLE() };                                       \
        struct LC : Root { VISITABLE() };                                       \
        static const bool is_const = CONSTFLAG;                                 \
    };
DEFINE_HIER(HN_default, false, default_catch_all, XTL_DEFINE_VISITABLE)
DEFINE_HIER(HN_throwing, false, throwing_catch_all, XTL_DEFINE_VISITABLE)
DEFINE_HIER(HC_default, true, default_catch_all, XTL_DEFINE_CONST_VISITABLE)
DEFINE_HIER(HC_throwing, true, throwing_catch_all, XTL_DEFINE_CONST_VISITABLE)

// A concrete visitor may carry, for every visited class T, any subset of three handler bases:
//   own          xtl::visitor<T, int, c>     the handler of a hierarchy base_visitable<int, c, ...> (c = constness of the hierarchy)
//   other-const  xtl::visitor<T, int, !c>    the handler for T in a hierarchy of the OTHER constness
//   other-ret    xtl::visitor<T, long, c>    the handler for T in a hierarchy with another return type
// Only "own" is a handler registered for T in the hierarchy being visited; the other two are "some other handler".
// MASK bits: 0-2 own A,B,C; 3-5 other-const A,B,C; 6-8 other-ret A,B,C. Quick enumerates bits 0-5 completely and bit block 6-8 as one
// switch (all three or none) = 128 visitor classes per hierarchy; thorough (VIS_FULL) enumerates all 512 subsets of the nine bases.
struct VisitLog { int visited_tag = -1; int flavour = -1; const void* addr = nullptr; int count = 0; };
static const char* flav_name(int f) { return f == 0 ? "own" : f == 1 ? "other-constness" : f == 2 ? "other-return-type" : "-"; }

template <class T, int TAG, int FLAV, bool CONSTV, class R, bool ON>
struct MaybeVisitor : xtl::visitor<T, R, CONSTV>
{
    VisitLog* log = nullptr;
    R visit(typename xtl::visitor<T, R, CONSTV>::param_type& t) override { log->visited_tag = TAG; log->flavour = FLAV; log->addr = &t; ++log->count; return R(10 + TAG + 100 * FLAV); }
};
template <class T, int TAG, int FLAV, bool CONSTV, class R>
struct MaybeVisitor<T, TAG, FLAV, CONSTV, R, false> { VisitLog* log = nullptr; };

template <class H, int MASK>
struct Vis : xtl::base_visitor,
             MaybeVisitor<typename H::LA, 0, 0, H::is_const, int, (MASK & 1) != 0>,
             MaybeVisitor<typename H::LB, 1, 0, H::is_const, int, (MASK & 2) != 0>,
             MaybeVisitor<typename H::LC, 2, 0, H::is_const, int, (MASK & 4) != 0>,
             MaybeVisitor<typename H::LA, 0, 1, !H::is_const, int, (MASK & 8) != 0>,
             MaybeVisitor<typename H::LB, 1, 1, !H::is_const, int, (MASK & 16) != 0>,
             MaybeVisitor<typename H::LC, 2, 1, !H::is_const, int, (MASK & 32) != 0>,
             MaybeVisitor<typename H::LA, 0, 2, H::is_const, long, (MASK & 64) != 0>,
             MaybeVisitor<typename H::LB, 1, 2, H::is_const, long, (MASK & 128) != 0>,
             MaybeVisitor<typename H::LC, 2, 2, H::is_const, long, (MASK & 256) != 0>
{
    VisitLog lg;
    Vis()
    {
        MaybeVisitor<typename H::LA, 0, 0, H::is_const, int, (MASK & 1) != 0>::log = &lg;
        MaybeVisitor<typename H::LB, 1, 0, H::is_const, int, (MASK & 2) != 0>::log = &lg;
        MaybeVisitor<typename H::LC, 2, 0, H::is_const, int, (MASK & 4) != 0>::log = &lg;
        MaybeVisitor<typename H::LA, 0, 1, !H::is_const, int, (MASK & 8) != 0>::log = &lg;
        MaybeVisitor<typename H::LB, 1, 1, !H::is_const, int, (MASK & 16) != 0>::log = &lg;
        MaybeVisitor<typename H::LC, 2, 1, !H::is_const, int, (MASK & 32) != 0>::log = &lg;
        MaybeVisitor<typename H::LA, 0, 2, H::is_const, long, (MASK & 64) != 0>::log = &lg;
        MaybeVisitor<typename H::LB, 1, 2, H::is_const, long, (MASK & 128) != 0>::log = &lg;
        MaybeVisitor<typename H::LC, 2, 2, H::is_const, long, (MASK & 256) != 0>::log = &lg;
    }
};

static long long g_visit_cases = 0, g_visit_handled = 0, g_visit_foreign_only = 0, g_visit_classes = 0;

template <class Root, class V> int do_accept(Root* o, V& v, std::false_type) { return o->accept(v); }
template <class Root, class V> int do_accept(Root* o, V& v, std::true_type) { const Root* co = o; return co->accept(v); }

static std::string mask_s(int mask)
{
    std::string s;
    for (int f = 0; f < 3; ++f) for (int t = 0; t < 3; ++t) if ((mask >> (3 * f + t)) & 1) s += std::string(s.empty() ? "" : " ") + flav_name(f) + ":" + tn(t);
    return s.empty() ? std::string("none") : s;
}

// the templated part only executes (one visitor class x three visited objects); judging is one ordinary function
struct VisOutcome { bool threw; int ret; VisitLog lg; bool same_object; };

template <class H, int MASK>
void visitor_exec(VisOutcome* out)
{
    typename H::LA la; typename H::LB lb; typename H::LC lc;
    typename H::Root* objs[3] = {&la, &lb, &lc};
    const void* addrs[3] = {&la, &lb, &lc};
    for (int t = 0; t < 3; ++t)
    {
        Vis<H, MASK> v;
        out[t].threw = false; out[t].ret = -7;
        try { out[t].ret = do_accept(objs[t], v, std::integral_constant<bool, H::is_const>()); } catch (const std::runtime_error&) { out[t].threw = true; }
        out[t].lg = v.lg;
        out[t].same_object = v.lg.addr == addrs[t];
    }
}

static void visitor_judge(const char* hname, int MASK, bool THROWING, const VisOutcome* out)
{
    ++g_visit_classes;
    for (int t = 0; t < 3; ++t)
    {
        const VisOutcome& o = out[t];
        ++g_visit_cases;
        bool handled = (MASK >> t) & 1;
        bool foreign = ((MASK >> (3 + t)) & 1) || ((MASK >> (6 + t)) & 1);
        std::string who = std::string("acyclic ") + hname + " visitor with handler bases {" + mask_s(MASK) + "} (mask " + str(MASK) + ") visiting " + tn(t);
        std::string sig = std::string("C17/visitor/") + hname;
        std::string ran = o.lg.count ? std::string("visit(") + tn(o.lg.visited_tag) + ") of the " + flav_name(o.lg.flavour) + " flavour" : std::string("no handler");
        if (handled)
        {
            ++g_visit_handled;
            if (o.threw || o.lg.count != 1 || o.lg.visited_tag != t || o.lg.flavour != 0 || o.ret != 10 + t) vf::violation(sig + "/wrong-visit", who + ": expected visit(" + tn(t) + "&) of the hierarchy's own flavour exactly once returning " + str(10 + t) + "; ran " + ran + ", count " + str(o.lg.count) + " ret " + str(o.ret) + (o.threw ? " (threw)" : ""), {"--visitors-only"});
            else if (!o.same_object) vf::violation(sig + "/identity", who + ": visit received another object", {"--visitors-only"});
        }
        else
        {
            if (foreign) ++g_visit_foreign_only;
            if (o.lg.count != 0) vf::violation(sig + "/other-handler-ran", who + ": no handler of this hierarchy for that type, but " + ran + " ran", {"--visitors-only"});
            if (THROWING && !o.threw) vf::violation(sig + "/catch-all-policy", who + ": the throwing catch-all policy did not throw (returned " + str(o.ret) + ")", {"--visitors-only"});
            if (!THROWING && (o.threw || o.ret != 0)) vf::violation(sig + "/catch-all-policy", who + ": the default catch-all policy must return R() == 0; " + (o.threw ? "threw" : "returned " + str(o.ret)), {"--visitors-only"});
        }
    }
}

template <class H, int MASK, bool THROWING>
void visitor_case(const char* hname)
{
    VisOutcome out[3];
    visitor_exec<H, MASK>(out);
    visitor_judge(hname, MASK, THROWING, out);
}

#ifdef VIS_FULL
static const int VIS_N = 512;
template <int I> struct vis_mask { static const int v = I; };
#else
static const int VIS_N = 128;
template <int I> struct vis_mask { static const int v = (I & 63) | ((I & 64) ? 448 : 0); };
#endif

template <class H, bool THROWING, int LO, int HI>
struct visitor_range
{
    static void run(const char* hname)
    {
        visitor_range<H, THROWING, LO, (LO + HI) / 2>::run(hname);
        visitor_range<H, THROWING, (LO + HI) / 2, HI>::run(hname);
    }
};
template <class H, bool THROWING, int LO>
struct visitor_range<H, THROWING, LO, LO + 1>
{
    static void run(const char* hname) { visitor_case<H, vis_mask<LO>::v, THROWING>(hname); }
};

template <class H, bool THROWING>
void visitor_all(const char* hname) { visitor_range<H, THROWING, 0, VIS_N>::run(hname); }

// cyclic visitor over the full list
struct CA; struct CB; struct CC;
typedef xtl::cyclic_visitor<mpl::vector<CA, CB, CC>, int, false> CycVis;
typedef xtl::cyclic_visitor<mpl::vector<CA, CB, CC>, int, true> CycCVis;
struct CRoot { virtual ~CRoot() = default; virtual int accept(CycVis&) = 0; virtual int accept(CycCVis&) const = 0; };
struct CA : CRoot { XTL_DEFINE_CYCLIC_VISITABLE(CycVis) XTL_DEFINE_CONST_CYCLIC_VISITABLE(CycCVis) };
struct CB : CRoot { XTL_DEFINE_CYCLIC_VISITABLE(CycVis) XTL_DEFINE_CONST_CYCLIC_VISITABLE(CycCVis) };
struct CC : CRoot { XTL_DEFINE_CYCLIC_VISITABLE(CycVis) XTL_DEFINE_CONST_CYCLIC_VISITABLE(CycCVis) };
struct MyCyc : CycVis
{
    const void* addr = nullptr;
    int visit(CA& x) override { addr = &x; return 20; }
    int visit(CB& x) override { addr = &x; return 21; }
    int visit(CC& x) override { addr = &x; return 22; }
};
struct MyCycC : CycCVis
{
    const void* addr = nullptr;
    int visit(const CA& x) override { addr = &x; return 30; }
    int visit(const CB& x) override { addr = &x; return 31; }
    int visit(const CC& x) override { addr = &x; return 32; }
};

static void run_visitors()
{
    visitor_all<HN_default, false>("nonconst/default_catch_all");
    visitor_all<HN_throwing, true>("nonconst/throwing_catch_all");
    visitor_all<HC_default, false>("const/default_catch_all");
    visitor_all<HC_throwing, true>("const/throwing_catch_all");
    CA ca; CB cb; CC cc;
    CRoot* objs[3] = {&ca, &cb, &cc};
    for (int t = 0; t < 3; ++t)
    {
        MyCyc v; MyCycC cv;
        int r = objs[t]->accept(v);
        const CRoot* co = objs[t];
        int rc = co->accept(cv);
        ++g_visit_cases; ++g_visit_cases;
        if (r != 20 + t || v.addr != dynamic_cast<const void*>(objs[t])) vf::violation("C17/visitor/cyclic/wrong-visit", std::string("cyclic visitor on ") + tn(t) + " returned " + str(r), {"--visitors-only"});
        if (rc != 30 + t || cv.addr != dynamic_cast<const void*>(objs[t])) vf::violation("C17/visitor/cyclic-const/wrong-visit", std::string("const cyclic visitor on ") + tn(t) + " returned " + str(rc), {"--visitors-only"});
    }
    vf::stat("visitor_cases", g_visit_cases);
    vf::stat("visitor_cases_own_handler_present", g_visit_handled);
    vf::stat("visitor_cases_only_foreign_handlers_for_visited_type", g_visit_foreign_only);
    vf::stat("visitor_classes", g_visit_classes);
}

#endif
// ------------------------------------------------------------------------------------------------ main
#define COMMA ,
#if PART_A || PART_D
typedef mpl::vector<> NoUD;
typedef mpl::vector<int> IntUD;
typedef xtl::functor_dispatcher<mpl::vector<Shape>, int, NoUD, xtl::dynamic_caster, xtl::basic_dispatcher> D1b;
typedef xtl::functor_dispatcher<mpl::vector<Shape>, int, NoUD, xtl::static_caster, xtl::basic_fast_dispatcher> D1f;
typedef xtl::functor_dispatcher<mpl::vector<Shape, Shape>, int, NoUD, xtl::dynamic_caster, xtl::basic_dispatcher> D2b;
typedef xtl::functor_dispatcher<mpl::vector<Shape, Shape>, int, NoUD, xtl::static_caster, xtl::basic_dispatcher> D2bs;
typedef xtl::functor_dispatcher<mpl::vector<Shape, Shape>, int, NoUD, xtl::static_caster, xtl::basic_fast_dispatcher> D2f;
typedef xtl::functor_dispatcher<mpl::vector<Shape, Shape>, int, NoUD, xtl::dynamic_caster, xtl::basic_fast_dispatcher> D2fd;
typedef xtl::functor_dispatcher<mpl::vector<Shape, Shape>, int, IntUD, xtl::dynamic_caster, xtl::basic_dispatcher> D2bx;
typedef xtl::functor_dispatcher<mpl::vector<Shape, Shape>, int, IntUD, xtl::static_caster, xtl::basic_fast_dispatcher> D2fx;
typedef xtl::functor_dispatcher<mpl::vector<Shape, Shape, Shape>, int, NoUD, xtl::dynamic_caster, xtl::basic_dispatcher> D3b;
typedef xtl::functor_dispatcher<mpl::vector<Shape, Shape, Shape>, int, NoUD, xtl::static_caster, xtl::basic_fast_dispatcher> D3f;
#endif

int main(int argc, char** argv)
{
    std::string inst, trace;
    bool replay = false, static_only = false, visitors_only = false;
    int depth = 1 << 30;
    long long max_states = 1LL << 40;
    double deadline = 1e18;
    for (int i = 1; i < argc; ++i)
    {
        std::string a = argv[i];
        if (a == "--inst") inst = argv[++i];
        else if (a == "--depth") depth = atoi(argv[++i]);
        else if (a == "--max-states") max_states = atoll(argv[++i]);
        else if (a == "--deadline") deadline = atof(argv[++i]);
        else if (a == "--replay") { replay = true; inst = argv[++i]; trace = argv[++i]; }
#if PART_D
        else if (a == "--trail") g_trail = atoi(argv[++i]);
#endif
        else if (a == "--static-only") static_only = true;
        else if (a == "--visitors-only") visitors_only = true;
    }
#if PART_B
    if (static_only) { run_static(); vf::done(); return 0; }
#endif
#if PART_C
    if (visitors_only) { run_visitors(); vf::done(); return 0; }
#endif
#if PART_A
#define RUN(NAME, OPS) if (inst == NAME) run_dispatcher<OPS>(NAME, depth, max_states, deadline, replay, trace);
    RUN("basic1", Ops1<D1b COMMA true>)
    RUN("fast1", Ops1<D1f COMMA false>)
    RUN("basic2", Ops2<D2b COMMA true COMMA false>)
    RUN("basic2-static_cast", Ops2<D2bs COMMA true COMMA false>)
    RUN("fast2", Ops2<D2f COMMA false COMMA false>)
    RUN("fast2-dynamic_cast", Ops2<D2fd COMMA false COMMA false>)
    RUN("basic2-extra", Ops2<D2bx COMMA true COMMA true>)
    RUN("fast2-extra", Ops2<D2fx COMMA false COMMA true>)
    RUN("basic3", Ops3<D3b COMMA true>)
    RUN("fast3", Ops3<D3f COMMA false>)
#endif
#if PART_D
#define RUNV(NAME, API, S, FAST, NT) if (inst == NAME) run_values<API, S, FAST>(NAME, NT, depth, max_states, deadline, replay, trace);
    RUNV("val-basic1", Api1<D1b COMMA true>, 2, false, 3)
    RUNV("val-basic2", Api2<D2b COMMA true>, 2, false, 2)
    RUNV("val-basic2x1", Api2<D2b COMMA true>, 1, false, 3)
    RUNV("val-fast1", Api1<D1f COMMA false>, 1, true, 3)
    RUNV("val-fast2", Api2<D2f COMMA false>, 1, true, 3)
#endif
#if PART_A || PART_D
    vf::stat("dispatch_calls", g_dispatches);
    vf::stat("dispatch_calls_to_registered_tuples", g_dispatch_hits);
#endif
    (void)static_only; (void)visitors_only; (void)replay; (void)depth; (void)max_states; (void)deadline;
    vf::done();
    return 0;
}
