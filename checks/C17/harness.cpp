// C17: multimethods and visitors call exactly the handler for the dynamic types.
//   part A (engine E2, no faults): registration/erasure histories of functor_dispatcher over basic_dispatcher and basic_fast_dispatcher
//   part B (E3): static_dispatcher for every ordered sub-list of the type list, symmetric and antisymmetric (generated instantiations)
//   part C (E3): acyclic visitors for every subset of visited types x catch-all policy x constness; cyclic visitor
#include <xtl/xmultimethods.hpp>
#include <xtl/xvisitor.hpp>

#include "history.hpp"

#ifndef PART_A
#define PART_A 1
#define PART_B 1
#define PART_C 1
#endif

#include <array>
#include <map>
#include <stdexcept>

using vf::Errs;
using vf::str;
namespace mpl = xtl::mpl;

// ------------------------------------------------------------------------------------------------ hierarchy
struct Shape
{
    virtual ~Shape() = default;
    XTL_IMPLEMENT_INDEXABLE_CLASS()
};
struct A : Shape { XTL_IMPLEMENT_INDEXABLE_CLASS() };
struct B : Shape { XTL_IMPLEMENT_INDEXABLE_CLASS() };
struct C : Shape { XTL_IMPLEMENT_INDEXABLE_CLASS() };

template <class T> struct tagof;
template <> struct tagof<A> { static const int v = 0; };
template <> struct tagof<B> { static const int v = 1; };
template <> struct tagof<C> { static const int v = 2; };
template <> struct tagof<Shape> { static const int v = 9; };
static const char* tn(int t) { return t == 0 ? "A" : t == 1 ? "B" : t == 2 ? "C" : t == 9 ? "Shape" : "-"; }

static A g_a;
static B g_b;
static C g_c;
static Shape* g_obj[3] = {&g_a, &g_b, &g_c};

struct Call { int handler; const void* addr[3]; int tags[3]; const void* extra; };
static std::vector<Call> g_calls;

static void reset_indices()
{
    Shape::get_class_static_index() = SIZE_MAX;
    A::get_class_static_index() = SIZE_MAX;
    B::get_class_static_index() = SIZE_MAX;
    C::get_class_static_index() = SIZE_MAX;
}
static std::string idx_s(std::size_t v) { return v == SIZE_MAX ? std::string("-") : str(v); }

// ------------------------------------------------------------------------------------------------ part A
#if PART_A
typedef std::array<int, 3> Tup;   // type tags, padded with -1

template <class D>
struct DWorld
{
    typedef D disp_type;
    D d;
    std::map<Tup, int> m;
    DWorld() { reset_indices(); g_calls.clear(); }
    std::string key() const
    {
        std::string k;
        for (auto& kv : m) k += std::string(tn(kv.first[0])) + tn(kv.first[1]) + tn(kv.first[2]) + ">" + str(kv.second) + " ";
        k += "| idx " + idx_s(A::get_class_static_index()) + idx_s(B::get_class_static_index()) + idx_s(C::get_class_static_index());
        return k;
    }
};

static long long g_dispatches = 0, g_dispatch_hits = 0;

// judge one dispatch outcome against the model
static void judge(const std::map<Tup, int>& m, const Tup& t, int K, bool threw, int ret, const void* extra_expected, Errs& e)
{
    ++g_dispatches;
    auto it = m.find(t);
    std::string who = std::string("dispatch(") + tn(t[0]) + (K > 1 ? std::string(",") + tn(t[1]) : "") + (K > 2 ? std::string(",") + tn(t[2]) : "") + ")";
    if (it == m.end())
    {
        if (!g_calls.empty()) e.add("wrong-handler-ran", who + " has no registered handler but handler " + str(g_calls[0].handler) + " ran (registered for " + tn(g_calls[0].tags[0]) + tn(g_calls[0].tags[1]) + tn(g_calls[0].tags[2]) + ")");
        else if (!threw) e.add("no-error", who + " has no registered handler but the call returned normally without reporting an error");
        return;
    }
    ++g_dispatch_hits;
    if (threw) { e.add("registered-not-found", who + " is registered with handler " + str(it->second) + " but the call threw"); return; }
    if (g_calls.size() != 1) { e.add("handler-count", who + " ran " + str(g_calls.size()) + " handlers"); return; }
    const Call& c = g_calls[0];
    if (c.handler != it->second || ret != it->second) e.add("wrong-handler", who + " ran handler " + str(c.handler) + " (returned " + str(ret) + "), registered is " + str(it->second));
    for (int i = 0; i < K; ++i)
    {
        if (c.tags[i] != t[i]) e.add("argument-type", who + ": argument " + str(i) + " reached the handler as " + tn(c.tags[i]));
        if (c.addr[i] != static_cast<const void*>(dynamic_cast<const void*>(g_obj[t[i]]))) e.add("argument-identity", who + ": argument " + str(i) + " is not the object that was passed (order or identity changed)");
    }
    if (extra_expected && c.extra != extra_expected) e.add("extra-argument", who + ": the undispatched extra argument was not passed through by identity");
}

#define TYPES3(X) X(A) X(B) X(C)

// ---- K = 1
template <class D, bool ERASE>
struct Ops1
{
    typedef DWorld<D> W;
    template <class T0> static void ins(vf::HistoryExplorer<W>& hx)
    {
        for (int h = 1; h <= 2; ++h)
            hx.add_op("insert", std::string("insert<") + tn(tagof<T0>::v) + ">(h" + str(h) + ")", [h](W& w, Errs&) {
                w.d.template insert<T0>([h](T0& a) -> int { g_calls.push_back(Call{h, {&a, nullptr, nullptr}, {tagof<T0>::v, -1, -1}, nullptr}); return h; });
                w.m[Tup{{tagof<T0>::v, -1, -1}}] = h; return true; });
        er<T0>(hx, std::integral_constant<bool, ERASE>());
    }
    template <class T0> static void er(vf::HistoryExplorer<W>&, std::false_type) {}
    template <class T0> static void er(vf::HistoryExplorer<W>& hx, std::true_type)
    {
        hx.add_op("erase", std::string("erase<") + tn(tagof<T0>::v) + ">", [](W& w, Errs&) { w.d.template erase<T0>(); w.m.erase(Tup{{tagof<T0>::v, -1, -1}}); return true; });
    }
    static void build(vf::HistoryExplorer<W>& hx)
    {
#define X(T) ins<T>(hx);
        TYPES3(X)
#undef X
    }
    static void dispatch_all(W& w, Errs& e)
    {
        for (int i = 0; i < 3; ++i)
        {
            g_calls.clear();
            bool threw = false; int ret = 0;
            try { ret = w.d.dispatch(*g_obj[i]); } catch (const std::exception&) { threw = true; }
            judge(w.m, Tup{{i, -1, -1}}, 1, threw, ret, nullptr, e);
        }
    }
};

// ---- K = 2 (optionally with one undispatched extra argument)
static int g_extra = 42;
template <class D, bool ERASE, bool EXTRA>
struct Ops2
{
    typedef DWorld<D> W;
    template <class T0, class T1> static void ins(vf::HistoryExplorer<W>& hx) { ins_impl<T0, T1>(hx, std::integral_constant<bool, EXTRA>()); }
    template <class T0, class T1> static void ins_impl(vf::HistoryExplorer<W>& hx, std::false_type)
    {
        const std::string nm = std::string(tn(tagof<T0>::v)) + "," + tn(tagof<T1>::v);
        for (int h = 1; h <= 2; ++h)
            hx.add_op("insert", "insert<" + nm + ">(h" + str(h) + ")", [h](W& w, Errs&) {
                w.d.template insert<T0, T1>([h](T0& a, T1& b) -> int { g_calls.push_back(Call{h, {&a, &b, nullptr}, {tagof<T0>::v, tagof<T1>::v, -1}, nullptr}); return h; });
                w.m[Tup{{tagof<T0>::v, tagof<T1>::v, -1}}] = h; return true; });
        erase_op<T0, T1>(hx, nm);
    }
    template <class T0, class T1> static void ins_impl(vf::HistoryExplorer<W>& hx, std::true_type)
    {
        const std::string nm = std::string(tn(tagof<T0>::v)) + "," + tn(tagof<T1>::v);
        for (int h = 1; h <= 2; ++h)
            hx.add_op("insert", "insert<" + nm + ">(h" + str(h) + ")", [h](W& w, Errs&) {
                w.d.template insert<T0, T1>([h](T0& a, T1& b, int& x) -> int { g_calls.push_back(Call{h, {&a, &b, nullptr}, {tagof<T0>::v, tagof<T1>::v, -1}, &x}); return h; });
                w.m[Tup{{tagof<T0>::v, tagof<T1>::v, -1}}] = h; return true; });
        erase_op<T0, T1>(hx, nm);
    }
    template <class T0, class T1> static void erase_op(vf::HistoryExplorer<W>& hx, const std::string& nm) { erase_impl<T0, T1>(hx, nm, std::integral_constant<bool, ERASE>()); }
    template <class T0, class T1> static void erase_impl(vf::HistoryExplorer<W>&, const std::string&, std::false_type) {}
    template <class T0, class T1> static void erase_impl(vf::HistoryExplorer<W>& hx, const std::string& nm, std::true_type)
    {
        hx.add_op("erase", "erase<" + nm + ">", [](W& w, Errs&) { w.d.template erase<T0, T1>(); w.m.erase(Tup{{tagof<T0>::v, tagof<T1>::v, -1}}); return true; });
    }
    static void build(vf::HistoryExplorer<W>& hx)
    {
#define X(T) ins<T, A>(hx); ins<T, B>(hx); ins<T, C>(hx);
        TYPES3(X)
#undef X
    }
    static int call(W& w, Shape& a, Shape& b, std::false_type) { return w.d.dispatch(a, b); }
    static int call(W& w, Shape& a, Shape& b, std::true_type) { return w.d.dispatch(a, b, g_extra); }
    static void dispatch_all(W& w, Errs& e)
    {
        for (int i = 0; i < 3; ++i) for (int j = 0; j < 3; ++j)
        {
            g_calls.clear();
            bool threw = false; int ret = 0;
            try { ret = call(w, *g_obj[i], *g_obj[j], std::integral_constant<bool, EXTRA>()); } catch (const std::exception&) { threw = true; }
            judge(w.m, Tup{{i, j, -1}}, 2, threw, ret, EXTRA ? &g_extra : nullptr, e);
        }
    }
};

// ---- K = 3
template <class D, bool ERASE>
struct Ops3
{
    typedef DWorld<D> W;
    template <class T0, class T1, class T2> static void ins(vf::HistoryExplorer<W>& hx)
    {
        const std::string nm = std::string(tn(tagof<T0>::v)) + "," + tn(tagof<T1>::v) + "," + tn(tagof<T2>::v);
        hx.add_op("insert", "insert<" + nm + ">(h1)", [](W& w, Errs&) {
            w.d.template insert<T0, T1, T2>([](T0& a, T1& b, T2& c) -> int { g_calls.push_back(Call{1, {&a, &b, &c}, {tagof<T0>::v, tagof<T1>::v, tagof<T2>::v}, nullptr}); return 1; });
            w.m[Tup{{tagof<T0>::v, tagof<T1>::v, tagof<T2>::v}}] = 1; return true; });
        er<T0, T1, T2>(hx, nm, std::integral_constant<bool, ERASE>());
    }
    template <class T0, class T1, class T2> static void er(vf::HistoryExplorer<W>&, const std::string&, std::false_type) {}
    template <class T0, class T1, class T2> static void er(vf::HistoryExplorer<W>& hx, const std::string& nm, std::true_type)
    {
        hx.add_op("erase", "erase<" + nm + ">", [](W& w, Errs&) { w.d.template erase<T0, T1, T2>(); w.m.erase(Tup{{tagof<T0>::v, tagof<T1>::v, tagof<T2>::v}}); return true; });
    }
    static void build(vf::HistoryExplorer<W>& hx)
    {
#define Y(T, U) ins<T, U, A>(hx); ins<T, U, B>(hx); ins<T, U, C>(hx);
#define X(T) Y(T, A) Y(T, B) Y(T, C)
        TYPES3(X)
#undef X
#undef Y
    }
    static void dispatch_all(W& w, Errs& e)
    {
        for (int i = 0; i < 3; ++i) for (int j = 0; j < 3; ++j) for (int k = 0; k < 3; ++k)
        {
            g_calls.clear();
            bool threw = false; int ret = 0;
            try { ret = w.d.dispatch(*g_obj[i], *g_obj[j], *g_obj[k]); } catch (const std::exception&) { threw = true; }
            judge(w.m, Tup{{i, j, k}}, 3, threw, ret, nullptr, e);
        }
    }
};

// DWorld needs light()/check(): dispatch on ALL argument tuples after EVERY transition (table shapes depend on the history)
template <class OPS>
struct HW : OPS::W
{
    void light(Errs& e) { OPS::dispatch_all(*this, e); }
    void check(Errs&) {}
};

template <class OPS>
void run_dispatcher(const std::string& inst, int depth, long long max_states, double deadline, bool replay, const std::string& trace)
{
    typedef HW<OPS> W;
    vf::HistoryExplorer<W> hx;
    hx.prop = "C17";
    hx.inst = inst;
    hx.max_depth = depth;
    hx.max_states = max_states;
    hx.deadline_s = deadline;
    // the op builders are written against OPS::W; HW<OPS> derives from it, so wrap
    vf::HistoryExplorer<typename OPS::W> tmp;
    OPS::build(tmp);
    for (auto& op : tmp.ops)
    {
        auto f = op.f;
        hx.add_op(op.kind, op.name, [f](W& w, Errs& e) { return f(w, e); });
    }
    if (replay) { hx.replay(trace); return; }
    hx.run();
    hx.summarize(depth == (1 << 30));
    vf::stat("operation_instances", (long long)hx.ops.size());
}

#endif
// ------------------------------------------------------------------------------------------------ part B: static_dispatcher
#if PART_B
struct Exec
{
    int ran = 0, err = 0;
    int tl = -1, tr = -1;
    const void* al = nullptr; const void* ar = nullptr;
    template <class L, class R> int run(L& l, R& r) { ++ran; tl = tagof<L>::v; tr = tagof<R>::v; al = &l; ar = &r; return 100 + 10 * tagof<L>::v + tagof<R>::v; }
    int on_error(Shape&, Shape&) { ++err; return -1; }
};

template <class L> struct list_tags;
template <class... T> struct list_tags<mpl::vector<T...>> { static std::vector<int> get() { return {tagof<T>::v...}; } };

static long long g_static_cases = 0, g_static_nontrivial = 0;

template <class LL, class RL, class SYM>
void static_case(const char* name)
{
    typedef xtl::static_dispatcher<Exec, Shape, LL, int, SYM, Shape, RL> SD;
    const bool sym = std::is_same<SYM, xtl::symmetric_dispatch>::value;
    std::vector<int> ll = list_tags<LL>::get(), rl = list_tags<RL>::get();
    auto pos = [](const std::vector<int>& v, int t) { for (std::size_t i = 0; i < v.size(); ++i) if (v[i] == t) return int(i); return -1; };
    for (int i = 0; i < 3; ++i) for (int j = 0; j < 3; ++j)
    {
        Exec ex;
        int ret = SD::dispatch(*g_obj[i], *g_obj[j], ex);
        ++g_static_cases;
        int pi = pos(ll, i), pj = pos(rl, j);
        std::string who = std::string("static_dispatcher<") + name + ">::dispatch(" + tn(i) + "," + tn(j) + ")";
        std::string sigbase = std::string("C17/static/") + (sym ? "symmetric" : "antisymmetric");
        if (pi < 0 || pj < 0)
        {
            if (ex.ran != 0 || ex.err != 1 || ret != -1) vf::violation(sigbase + "/missing-type", who + ": a type missing from a list must go to on_error exactly once; run called " + str(ex.ran) + "x, on_error " + str(ex.err) + "x", {"--static-only"});
            continue;
        }
        bool swapped = sym && pj < pi;
        if (swapped) ++g_static_nontrivial;
        int el = swapped ? j : i, er = swapped ? i : j;
        if (ex.ran != 1 || ex.err != 0) { vf::violation(sigbase + "/run-count", who + ": run called " + str(ex.ran) + "x, on_error " + str(ex.err) + "x", {"--static-only"}); continue; }
        if (ex.tl != el || ex.tr != er || ret != 100 + 10 * el + er) vf::violation(sigbase + "/wrong-overload", who + ": reached run(" + tn(ex.tl) + "," + tn(ex.tr) + "), expected run(" + tn(el) + "," + tn(er) + ")", {"--static-only"});
        if (ex.al != dynamic_cast<const void*>(g_obj[el]) || ex.ar != dynamic_cast<const void*>(g_obj[er])) vf::violation(sigbase + "/argument-identity", who + ": the arguments are not the objects passed (in the expected order)", {"--static-only"});
        if (sym)
        {
            // dispatch(a,b) and dispatch(b,a) reach the same overload
            Exec ex2;
            SD::dispatch(*g_obj[j], *g_obj[i], ex2);
            if (pos(ll, j) >= 0 && pos(rl, i) >= 0 && (ex2.tl != ex.tl || ex2.tr != ex.tr)) vf::violation(sigbase + "/symmetry", who + " and the swapped call reach different overloads", {"--static-only"});
        }
    }
}

static void run_static()
{
#define SCASE(LL, RL, SYM) static_case<mpl::vector<LL>, mpl::vector<RL>, xtl::SYM>(#LL " | " #RL " | " #SYM);
#define COMMA ,
#include "static_cases.inc"
#undef COMMA
#undef SCASE
    vf::stat("static_dispatch_cases", g_static_cases);
    vf::stat("static_dispatch_swapped_cases", g_static_nontrivial);
}

#endif
// ------------------------------------------------------------------------------------------------ part C: visitors
#if PART_C
// four concrete hierarchies (the XTL_DEFINE_*VISITABLE macros name return_type unqualified, so they cannot be used in a class template)
#define DEFINE_HIER(NAME, CONSTFLAG, CATCH, VISITABLE)                          \
    struct NAME                                                                 \
    {                                                                           \
        struct Root : xtl::base_visitable<int, CONSTFLAG, xtl::CATCH> { };      \
        struct LA : Root { VISITABLE() };                                       \
        struct LB : Root { VISITABLE() };                                       \
        struct LC : Root { VISITABLE() };                                       \
        static const bool is_const = CONSTFLAG;                                 \
    };
DEFINE_HIER(HN_default, false, default_catch_all, XTL_DEFINE_VISITABLE)
DEFINE_HIER(HN_throwing, false, throwing_catch_all, XTL_DEFINE_VISITABLE)
DEFINE_HIER(HC_default, true, default_catch_all, XTL_DEFINE_CONST_VISITABLE)
DEFINE_HIER(HC_throwing, true, throwing_catch_all, XTL_DEFINE_CONST_VISITABLE)

struct VisitLog { int visited_tag = -1; const void* addr = nullptr; int count = 0; };

template <class T, int TAG, bool CONSTV, bool ON>
struct MaybeVisitor : xtl::visitor<T, int, CONSTV>
{
    VisitLog* log = nullptr;
    int visit(typename xtl::visitor<T, int, CONSTV>::param_type& t) override { log->visited_tag = TAG; log->addr = &t; ++log->count; return 10 + TAG; }
};
template <class T, int TAG, bool CONSTV>
struct MaybeVisitor<T, TAG, CONSTV, false> { VisitLog* log = nullptr; };

template <class H, int MASK>
struct Vis : xtl::base_visitor,
             MaybeVisitor<typename H::LA, 0, H::is_const, (MASK & 1) != 0>,
             MaybeVisitor<typename H::LB, 1, H::is_const, (MASK & 2) != 0>,
             MaybeVisitor<typename H::LC, 2, H::is_const, (MASK & 4) != 0>
{
    VisitLog lg;
    Vis()
    {
        MaybeVisitor<typename H::LA, 0, H::is_const, (MASK & 1) != 0>::log = &lg;
        MaybeVisitor<typename H::LB, 1, H::is_const, (MASK & 2) != 0>::log = &lg;
        MaybeVisitor<typename H::LC, 2, H::is_const, (MASK & 4) != 0>::log = &lg;
    }
};

static long long g_visit_cases = 0;

template <class Root, class V> int do_accept(Root* o, V& v, std::false_type) { return o->accept(v); }
template <class Root, class V> int do_accept(Root* o, V& v, std::true_type) { const Root* co = o; return co->accept(v); }

template <class H, int MASK, bool THROWING>
void visitor_case(const char* hname)
{
    typename H::LA la; typename H::LB lb; typename H::LC lc;
    typename H::Root* objs[3] = {&la, &lb, &lc};
    for (int t = 0; t < 3; ++t)
    {
        Vis<H, MASK> v;
        bool threw = false; int ret = -7;
        try { ret = do_accept(objs[t], v, std::integral_constant<bool, H::is_const>()); } catch (const std::runtime_error&) { threw = true; }
        ++g_visit_cases;
        bool handled = (MASK >> t) & 1;
        std::string who = std::string("acyclic ") + hname + " visitor with handlers mask " + str(MASK) + " visiting " + tn(t);
        std::string sig = std::string("C17/visitor/") + hname;
        if (handled)
        {
            if (threw || v.lg.count != 1 || v.lg.visited_tag != t || ret != 10 + t) vf::violation(sig + "/wrong-visit", who + ": expected visit(" + tn(t) + "&) exactly once returning " + str(10 + t) + "; got tag " + str(v.lg.visited_tag) + " count " + str(v.lg.count) + " ret " + str(ret) + (threw ? " (threw)" : ""), {"--visitors-only"});
            else if (v.lg.addr != (t == 0 ? static_cast<const void*>(&la) : t == 1 ? static_cast<const void*>(&lb) : static_cast<const void*>(&lc))) vf::violation(sig + "/identity", who + ": visit received another object", {"--visitors-only"});
        }
        else
        {
            if (v.lg.count != 0) vf::violation(sig + "/other-handler-ran", who + ": no handler for that type, but visit(" + tn(v.lg.visited_tag) + ") ran", {"--visitors-only"});
            if (THROWING && !threw) vf::violation(sig + "/catch-all-policy", who + ": the throwing catch-all policy did not throw (returned " + str(ret) + ")", {"--visitors-only"});
            if (!THROWING && (threw || ret != 0)) vf::violation(sig + "/catch-all-policy", who + ": the default catch-all policy must return R() == 0; " + (threw ? "threw" : "returned " + str(ret)), {"--visitors-only"});
        }
    }
}

template <class H, bool THROWING>
void visitor_all(const char* hname)
{
    visitor_case<H, 0, THROWING>(hname); visitor_case<H, 1, THROWING>(hname); visitor_case<H, 2, THROWING>(hname); visitor_case<H, 3, THROWING>(hname);
    visitor_case<H, 4, THROWING>(hname); visitor_case<H, 5, THROWING>(hname); visitor_case<H, 6, THROWING>(hname); visitor_case<H, 7, THROWING>(hname);
}

// cyclic visitor over the full list
struct CA; struct CB; struct CC;
typedef xtl::cyclic_visitor<mpl::vector<CA, CB, CC>, int, false> CycVis;
typedef xtl::cyclic_visitor<mpl::vector<CA, CB, CC>, int, true> CycCVis;
struct CRoot { virtual ~CRoot() = default; virtual int accept(CycVis&) = 0; virtual int accept(CycCVis&) const = 0; };
struct CA : CRoot { XTL_DEFINE_CYCLIC_VISITABLE(CycVis) XTL_DEFINE_CONST_CYCLIC_VISITABLE(CycCVis) };
struct CB : CRoot { XTL_DEFINE_CYCLIC_VISITABLE(CycVis) XTL_DEFINE_CONST_CYCLIC_VISITABLE(CycCVis) };
struct CC : CRoot { XTL_DEFINE_CYCLIC_VISITABLE(CycVis) XTL_DEFINE_CONST_CYCLIC_VISITABLE(CycCVis) };
struct MyCyc : CycVis
{
    const void* addr = nullptr;
    int visit(CA& x) override { addr = &x; return 20; }
    int visit(CB& x) override { addr = &x; return 21; }
    int visit(CC& x) override { addr = &x; return 22; }
};
struct MyCycC : CycCVis
{
    const void* addr = nullptr;
    int visit(const CA& x) override { addr = &x; return 30; }
    int visit(const CB& x) override { addr = &x; return 31; }
    int visit(const CC& x) override { addr = &x; return 32; }
};

static void run_visitors()
{
    visitor_all<HN_default, false>("nonconst/default_catch_all");
    visitor_all<HN_throwing, true>("nonconst/throwing_catch_all");
    visitor_all<HC_default, false>("const/default_catch_all");
    visitor_all<HC_throwing, true>("const/throwing_catch_all");
    CA ca; CB cb; CC cc;
    CRoot* objs[3] = {&ca, &cb, &cc};
    for (int t = 0; t < 3; ++t)
    {
        MyCyc v; MyCycC cv;
        int r = objs[t]->accept(v);
        const CRoot* co = objs[t];
        int rc = co->accept(cv);
        ++g_visit_cases; ++g_visit_cases;
        if (r != 20 + t || v.addr != dynamic_cast<const void*>(objs[t])) vf::violation("C17/visitor/cyclic/wrong-visit", std::string("cyclic visitor on ") + tn(t) + " returned " + str(r), {"--visitors-only"});
        if (rc != 30 + t || cv.addr != dynamic_cast<const void*>(objs[t])) vf::violation("C17/visitor/cyclic-const/wrong-visit", std::string("const cyclic visitor on ") + tn(t) + " returned " + str(rc), {"--visitors-only"});
    }
    vf::stat("visitor_cases", g_visit_cases);
}

#endif
// ------------------------------------------------------------------------------------------------ main
#define COMMA ,
#if PART_A
typedef mpl::vector<> NoUD;
typedef mpl::vector<int> IntUD;
typedef xtl::functor_dispatcher<mpl::vector<Shape>, int, NoUD, xtl::dynamic_caster, xtl::basic_dispatcher> D1b;
typedef xtl::functor_dispatcher<mpl::vector<Shape>, int, NoUD, xtl::static_caster, xtl::basic_fast_dispatcher> D1f;
typedef xtl::functor_dispatcher<mpl::vector<Shape, Shape>, int, NoUD, xtl::dynamic_caster, xtl::basic_dispatcher> D2b;
typedef xtl::functor_dispatcher<mpl::vector<Shape, Shape>, int, NoUD, xtl::static_caster, xtl::basic_dispatcher> D2bs;
typedef xtl::functor_dispatcher<mpl::vector<Shape, Shape>, int, NoUD, xtl::static_caster, xtl::basic_fast_dispatcher> D2f;
typedef xtl::functor_dispatcher<mpl::vector<Shape, Shape>, int, NoUD, xtl::dynamic_caster, xtl::basic_fast_dispatcher> D2fd;
typedef xtl::functor_dispatcher<mpl::vector<Shape, Shape>, int, IntUD, xtl::dynamic_caster, xtl::basic_dispatcher> D2bx;
typedef xtl::functor_dispatcher<mpl::vector<Shape, Shape>, int, IntUD, xtl::static_caster, xtl::basic_fast_dispatcher> D2fx;
typedef xtl::functor_dispatcher<mpl::vector<Shape, Shape, Shape>, int, NoUD, xtl::dynamic_caster, xtl::basic_dispatcher> D3b;
typedef xtl::functor_dispatcher<mpl::vector<Shape, Shape, Shape>, int, NoUD, xtl::static_caster, xtl::basic_fast_dispatcher> D3f;
#endif

int main(int argc, char** argv)
{
    std::string inst, trace;
    bool replay = false, static_only = false, visitors_only = false;
    int depth = 1 << 30;
    long long max_states = 1LL << 40;
    double deadline = 1e18;
    for (int i = 1; i < argc; ++i)
    {
        std::string a = argv[i];
        if (a == "--inst") inst = argv[++i];
        else if (a == "--depth") depth = atoi(argv[++i]);
        else if (a == "--max-states") max_states = atoll(argv[++i]);
        else if (a == "--deadline") deadline = atof(argv[++i]);
        else if (a == "--replay") { replay = true; inst = argv[++i]; trace = argv[++i]; }
        else if (a == "--static-only") static_only = true;
        else if (a == "--visitors-only") visitors_only = true;
    }
#if PART_B
    if (static_only) { run_static(); vf::done(); return 0; }
#endif
#if PART_C
    if (visitors_only) { run_visitors(); vf::done(); return 0; }
#endif
#if PART_A
#define RUN(NAME, OPS) if (inst == NAME) run_dispatcher<OPS>(NAME, depth, max_states, deadline, replay, trace);
    RUN("basic1", Ops1<D1b COMMA true>)
    RUN("fast1", Ops1<D1f COMMA false>)
    RUN("basic2", Ops2<D2b COMMA true COMMA false>)
    RUN("basic2-static_cast", Ops2<D2bs COMMA true COMMA false>)
    RUN("fast2", Ops2<D2f COMMA false COMMA false>)
    RUN("fast2-dynamic_cast", Ops2<D2fd COMMA false COMMA false>)
    RUN("basic2-extra", Ops2<D2bx COMMA true COMMA true>)
    RUN("fast2-extra", Ops2<D2fx COMMA false COMMA true>)
    RUN("basic3", Ops3<D3b COMMA true>)
    RUN("fast3", Ops3<D3f COMMA false>)
    vf::stat("dispatch_calls", g_dispatches);
    vf::stat("dispatch_calls_to_registered_tuples", g_dispatch_hits);
#endif
    (void)static_only; (void)visitors_only; (void)replay; (void)depth; (void)max_states; (void)deadline;
    vf::done();
    return 0;
}
