// C17 part G, second translation unit: its own unnamed-namespace `Widget` (see ident_tu.hpp)
#define C17_TU 2
#include "ident_tu.hpp"
C17TuApi c17_tu2_api() { return tu_api(); }
