// C17 part F: acyclic visitors - VISITOR OBJECT SHAPES x HISTORIES OF accept CALLS, every history in a fresh process.
//
// accept(base_visitor&) receives a reference to a base_visitor SUB-OBJECT. A visitor object composed by multiple inheritance from
// several parts that each derive from base_visitor contains several such sub-objects: the same object (same dynamic type) can be
// handed to accept through different references, at different distances from the visitor<T,R,c> handler base. The handler
// registered for T in that visitor is the visit() of the unique public visitor<T,R,c> base of the COMPLETE object, whichever
// sub-object the reference designates (that is what the cross-cast in accept_impl finds).
//
// Alphabet. Shapes (per hierarchy H, c = constness of H, handler bases visitor<LA|LB|LC,int,c>):
//   single    : base_visitor, handler A, handler B                                  1 entry
//   two       : PA (base_visitor, handler A) + PB (handler B, base_visitor, padding)  2 entries, handler before/after the entry
//   three     : P0 (base_visitor only) + PA + PB2 (base_visitor, handler B)         3 entries, one through a part without handlers
//   vbase     : PvA (virtual base_visitor, handler A) + PvB (virtual base_visitor, handler B): ONE shared base_visitor, reached
//               through two conversion paths                                         2 entries (same sub-object)
//   mixed     : PvA (virtual base_visitor) + PB (non-virtual base_visitor)           2 entries
//   vhandler  : PhA1, PhA2 (each: base_visitor, VIRTUAL visitor<LA>) + handler B; the composite is the final overrider of
//               visit(LA&): one shared handler base, two base_visitor sub-objects     2 entries
//   No shape handles C (catch-all cases); every base is public and every handler base is unique (an ambiguous or inaccessible
//   handler base is not "the handler registered for T").
// Visitor objects: a pool with one or two objects of every shape. A call = (visited class in {A,B,C}) x (visitor object) x (entry
// sub-object of that object). Histories = ALL sequences of exactly L calls (which contain all shorter ones as prefixes); every
// call of every history is judged.
// A cache inside accept is hidden, possibly static / thread_local state: it cannot be part of a state key and it survives the
// objects. Therefore nothing is merged and EVERY history runs in its own process: the parent never calls accept, it forks one child
// per history (the child inherits pristine statics), the child executes and judges the calls and reports through a pipe; a child
// that dies (wild pointer) is attributed to the call it was executing.
// Oracle per call: the visitor handles T => exactly one handler ran, it is visit(T&), it ran on the visitor<T,int,c> base of THE
// OBJECT PASSED (address computed by static_cast from the complete object, independent of dynamic_cast), it received the visited
// object, the result is its return value; otherwise => no handler ran and the catch-all policy answered.
#include <xtl/xvisitor.hpp>

#include "report.hpp"

#include <memory>
#include <stdexcept>
#include <string>
#include <vector>

#include <sys/resource.h>
#include <sys/types.h>
#include <sys/wait.h>
#include <unistd.h>

using vf::str;

static const char* tn(int t) { return t == 0 ? "A" : t == 1 ? "B" : t == 2 ? "C" : "-"; }

#define DEFINE_HIER(NAME, CONSTFLAG, CATCH, VISITABLE)                          \
    struct NAME                                                                 \
    {                                                                           \
        struct Root : xtl::base_visitable<int, CONSTFLAG, xtl::CATCH> { };      \
        struct LA : Root { VISITABLE() };                                       \
        struct LB : Root { VISITABLE() };                                       \
        struct LC : Root { VISITABLE() };                                       \
        static const bool is_const = CONSTFLAG;                                 \
    };
DEFINE_HIER(HN_default, false, default_catch_all, XTL_DEFINE_VISITABLE)
DEFINE_HIER(HN_throwing, false, throwing_catch_all, XTL_DEFINE_VISITABLE)
DEFINE_HIER(HC_default, true, default_catch_all, XTL_DEFINE_CONST_VISITABLE)
DEFINE_HIER(HC_throwing, true, throwing_catch_all, XTL_DEFINE_CONST_VISITABLE)

struct Rec { int tag; const void* self; const void* arg; };
static std::vector<Rec> g_log;

template <class H, class T> using hbase = xtl::visitor<T, int, H::is_const>;

template <class H, class T, int TAG>
struct Hd : hbase<H, T>
{
    int visit(typename hbase<H, T>::param_type& t) override
    {
        g_log.push_back(Rec{TAG, static_cast<const void*>(static_cast<hbase<H, T>*>(this)), static_cast<const void*>(&t)});
        return 10 + TAG;
    }
};

// ---- parts
template <class H> struct PA : xtl::base_visitor, Hd<H, typename H::LA, 0> {};
template <class H> struct PB : Hd<H, typename H::LB, 1>, xtl::base_visitor { long pad[3] = {0, 0, 0}; };
template <class H> struct PB2 : xtl::base_visitor, Hd<H, typename H::LB, 1> {};
template <class H> struct P0 : xtl::base_visitor { long pad = 0; };
template <class H> struct PvA : virtual xtl::base_visitor, Hd<H, typename H::LA, 0> {};
template <class H> struct PvB : virtual xtl::base_visitor, Hd<H, typename H::LB, 1> { long pad = 0; };
template <class H> struct PhA1 : xtl::base_visitor, virtual hbase<H, typename H::LA> {};
template <class H> struct PhA2 : xtl::base_visitor, virtual hbase<H, typename H::LA> { long pad[2] = {0, 0}; };

// ---- shapes
template <class H> struct S_single : xtl::base_visitor, Hd<H, typename H::LA, 0>, Hd<H, typename H::LB, 1> {};
template <class H> struct S_two : PA<H>, PB<H> {};
template <class H> struct S_three : P0<H>, PA<H>, PB2<H> {};
template <class H> struct S_vbase : PvA<H>, PvB<H> {};
template <class H> struct S_mixed : PvA<H>, PB<H> {};
template <class H> struct S_vhandler : PhA1<H>, PhA2<H>, Hd<H, typename H::LB, 1>
{
    int visit(typename hbase<H, typename H::LA>::param_type& t) override
    {
        g_log.push_back(Rec{0, static_cast<const void*>(static_cast<hbase<H, typename H::LA>*>(this)), static_cast<const void*>(&t)});
        return 10;
    }
};

// ---- type-erased description of one visitor object
struct Entry { std::string name; xtl::base_visitor* ref; };
struct VObj
{
    std::string name, shape;
    const char* base; std::size_t size;
    std::vector<Entry> entries;
    const void* hb[3];   // address of the visitor<T,int,c> base per visited class, nullptr if the visitor has no handler for it
};
static std::string off_s(const VObj& o, const void* p)
{
    std::ptrdiff_t d = static_cast<const char*>(p) - o.base;
    if (d < 0 || std::size_t(d) >= o.size) return "an address OUTSIDE the visitor object (" + str(d) + " bytes from its start, the object has " + str(o.size) + " bytes)";
    return "offset " + str(d);
}

template <class H, class S> VObj describe(S& o, const std::string& name, const char* shape)
{
    VObj v;
    v.name = name; v.shape = shape;
    v.base = reinterpret_cast<const char*>(&o); v.size = sizeof(S);
    v.hb[0] = static_cast<const void*>(static_cast<hbase<H, typename H::LA>*>(&o));
    v.hb[1] = static_cast<const void*>(static_cast<hbase<H, typename H::LB>*>(&o));
    v.hb[2] = nullptr;
    return v;
}
template <class P, class S> Entry entry_through(S& o, const char* part) { return Entry{part, static_cast<xtl::base_visitor*>(static_cast<P*>(&o))}; }

template <class H>
struct Pool
{
    typename H::LA la; typename H::LB lb; typename H::LC lc;
    typename H::Root* objs[3];
    std::vector<VObj> vis;
    std::vector<std::shared_ptr<void>> owned;
    template <class S> S* make() { std::shared_ptr<S> sp(new S); owned.push_back(sp); return sp.get(); }
    // the visitor objects live as long as the process (created before any accept call, in a fixed order)
    Pool(int per_shape)
    {
        objs[0] = &la; objs[1] = &lb; objs[2] = &lc;
        for (int k = 1; k <= per_shape; ++k)
        {
            const std::string n = "#" + str(k);
            { auto* o = make<S_single<H>>(); VObj v = describe<H>(*o, "single" + n, "single"); v.entries.push_back(Entry{"its only base_visitor", static_cast<xtl::base_visitor*>(o)}); vis.push_back(v); }
            { auto* o = make<S_two<H>>(); VObj v = describe<H>(*o, "two" + n, "two"); v.entries.push_back(entry_through<PA<H>>(*o, "PA")); v.entries.push_back(entry_through<PB<H>>(*o, "PB")); vis.push_back(v); }
            { auto* o = make<S_three<H>>(); VObj v = describe<H>(*o, "three" + n, "three"); v.entries.push_back(entry_through<P0<H>>(*o, "P0")); v.entries.push_back(entry_through<PA<H>>(*o, "PA")); v.entries.push_back(entry_through<PB2<H>>(*o, "PB2")); vis.push_back(v); }
            { auto* o = make<S_vbase<H>>(); VObj v = describe<H>(*o, "vbase" + n, "vbase"); v.entries.push_back(entry_through<PvA<H>>(*o, "PvA")); v.entries.push_back(entry_through<PvB<H>>(*o, "PvB")); vis.push_back(v); }
            { auto* o = make<S_mixed<H>>(); VObj v = describe<H>(*o, "mixed" + n, "mixed"); v.entries.push_back(entry_through<PvA<H>>(*o, "PvA")); v.entries.push_back(entry_through<PB<H>>(*o, "PB")); vis.push_back(v); }
            { auto* o = make<S_vhandler<H>>(); VObj v = describe<H>(*o, "vhandler" + n, "vhandler"); v.entries.push_back(entry_through<PhA1<H>>(*o, "PhA1")); v.entries.push_back(entry_through<PhA2<H>>(*o, "PhA2")); vis.push_back(v); }
        }
    }
};

struct CallDesc { int t, o, e; std::string name; };
static std::string expect_s(const VObj& vo, int t, bool throwing)
{
    if (vo.hb[t]) return std::string("expected exactly visit(") + tn(t) + "&) on the visitor<" + tn(t) + "> base of " + vo.name + " at " + off_s(vo, vo.hb[t]) + " returning " + str(10 + t);
    return "expected no handler to run (" + vo.name + " has none for " + tn(t) + ") and the " + (throwing ? "throwing catch-all policy to throw" : "default catch-all policy to return 0");
}

template <class Root> int do_accept(Root* o, xtl::base_visitor& v, std::false_type) { return o->accept(v); }
template <class Root> int do_accept(Root* o, xtl::base_visitor& v, std::true_type) { const Root* co = o; return co->accept(v); }

// executed in the child: one call, judged; problems are appended to out as (kind, message)
template <class H>
void exec_call(Pool<H>& p, const CallDesc& c, bool throwing, std::vector<std::pair<std::string, std::string>>& out)
{
    const VObj& vo = p.vis[size_t(c.o)];
    g_log.clear();
    bool threw = false; int ret = -7;
    try { ret = do_accept(p.objs[c.t], *vo.entries[size_t(c.e)].ref, std::integral_constant<bool, H::is_const>()); }
    catch (const std::runtime_error&) { threw = true; }
    const void* visited = dynamic_cast<const void*>(p.objs[c.t]);
    std::string ran;
    for (auto& r : g_log) ran += std::string(ran.empty() ? "" : ", ") + "visit(" + tn(r.tag) + "&) on the sub-object at " + off_s(vo, r.self);
    if (ran.empty()) ran = "no handler";
    if (vo.hb[c.t])
    {
        std::string exp = expect_s(vo, c.t, throwing);
        if (threw || g_log.size() != 1 || g_log[0].tag != c.t || ret != 10 + c.t) out.emplace_back("wrong-visit", exp + "; ran " + ran + ", returned " + str(ret) + (threw ? " (threw)" : ""));
        else if (g_log[0].self != vo.hb[c.t]) out.emplace_back("wrong-subobject", exp + "; ran " + ran);
        else if (g_log[0].arg != visited) out.emplace_back("identity", exp + "; visit received another object than the one visited");
    }
    else
    {
        if (!g_log.empty()) out.emplace_back("other-handler-ran", vo.name + " has no handler for " + tn(c.t) + ", but " + ran + " ran");
        if (throwing && !threw) out.emplace_back("catch-all-policy", "no handler for " + std::string(tn(c.t)) + ": the throwing catch-all policy did not throw (returned " + str(ret) + ")");
        if (!throwing && (threw || ret != 0)) out.emplace_back("catch-all-policy", "no handler for " + std::string(tn(c.t)) + ": the default catch-all policy must return R() == 0; " + (threw ? std::string("threw") : "returned " + str(ret)));
    }
    if (vf::take_asan()) out.emplace_back("asan", "AddressSanitizer report during the call");
}

static long long g_processes = 0, g_calls_judged = 0, g_viol_histories = 0;

template <class H>
void run_history(Pool<H>& p, const std::vector<CallDesc>& calls, const std::vector<int>& h, const std::string& hname, bool throwing, const std::string& pool_arg)
{
    // a finding at call #i is reported with the history up to that call (a fresh process per history: the prefix alone reproduces it)
    auto upto = [&](size_t n) { std::string hs; for (size_t i = 0; i < n && i < h.size(); ++i) hs += std::string(i ? ";" : "") + calls[size_t(h[i])].name; return hs; };
    auto rp = [&](const std::string& hs) { return std::vector<std::string>{"--vis-replay", hname, hs, "--pool", pool_arg}; };
    int fd[2];
    if (pipe(fd) != 0) { std::printf("pipe failed\n"); std::exit(5); }
    std::fflush(stdout);
    pid_t pid = fork();
    if (pid < 0) { std::printf("fork failed\n"); std::exit(5); }
    if (pid == 0)
    {
        // the child: a fresh process as far as accept is concerned (the parent never called it)
        close(fd[0]);
        struct rlimit rl; rl.rlim_cur = 0; rl.rlim_max = 0; setrlimit(RLIMIT_CORE, &rl);
        alarm(20);   // a call through a wild pointer that never returns is a crash of that call
        for (size_t i = 0; i < h.size(); ++i)
        {
            std::string line = "S " + str(i) + "\n";
            if (write(fd[1], line.data(), line.size()) < 0) _exit(6);
            std::vector<std::pair<std::string, std::string>> out;
            exec_call(p, calls[size_t(h[i])], throwing, out);
            line.clear();
            for (auto& kv : out) line += "V " + str(i) + " " + kv.first + " " + kv.second + "\n";
            line += "D " + str(i) + "\n";
            if (write(fd[1], line.data(), line.size()) < 0) _exit(6);
        }
        _exit(0);
    }
    close(fd[1]);
    std::string buf;
    char tmp[4096];
    for (;;)
    {
        ssize_t n = read(fd[0], tmp, sizeof tmp);
        if (n <= 0) break;
        buf.append(tmp, size_t(n));
    }
    close(fd[0]);
    int status = 0;
    waitpid(pid, &status, 0);
    ++g_processes;
    int started = -1, done = -1;
    bool any = false;
    size_t pos = 0;
    while (pos < buf.size())
    {
        size_t q = buf.find('\n', pos);
        if (q == std::string::npos) q = buf.size();
        std::string line = buf.substr(pos, q - pos);
        pos = q + 1;
        if (line.size() < 3) continue;
        if (line[0] == 'S') started = atoi(line.c_str() + 2);
        else if (line[0] == 'D') { done = atoi(line.c_str() + 2); ++g_calls_judged; }
        else if (line[0] == 'V')
        {
            size_t s1 = line.find(' ', 2), s2 = line.find(' ', s1 + 1);
            int i = atoi(line.c_str() + 2);
            std::string kind = line.substr(s1 + 1, s2 - s1 - 1), msg = line.substr(s2 + 1);
            any = true;
            const std::string hs = upto(size_t(i) + 1);
            vf::violation("C17/vis-hist/" + hname + "/" + kind, "fresh process, history of accept calls [" + hs + "]: call #" + str(i + 1) + " " + calls[size_t(h[size_t(i)])].name + ": " + msg, rp(hs));
        }
    }
    if (!(WIFEXITED(status) && WEXITSTATUS(status) == 0) || done != int(h.size()) - 1)
    {
        any = true;
        std::string how = WIFSIGNALED(status) ? "was killed by signal " + str(WTERMSIG(status)) : "ended with status " + str(WIFEXITED(status) ? WEXITSTATUS(status) : -1);
        std::string where = "no call in progress";
        if (started > done && started >= 0)
        {
            const CallDesc& c = calls[size_t(h[size_t(started)])];
            where = "call #" + str(started + 1) + " " + c.name + " (" + expect_s(p.vis[size_t(c.o)], c.t, throwing) + ")";
        }
        const std::string hs = upto(started > done && started >= 0 ? size_t(started) + 1 : h.size());
        vf::violation("C17/vis-hist/" + hname + "/crash", "fresh process, history of accept calls [" + hs + "]: the process " + how + " while executing " + where, rp(hs));
    }
    if (any) ++g_viol_histories;
}

template <class H>
void run_hier(const std::string& hname, bool throwing, int per_shape, int len, int shard, int nshards, const std::string& replay)
{
    Pool<H> p(per_shape);
    std::vector<CallDesc> calls;
    for (size_t o = 0; o < p.vis.size(); ++o) for (size_t e = 0; e < p.vis[o].entries.size(); ++e) for (int t = 0; t < 3; ++t)
        calls.push_back(CallDesc{t, int(o), int(e), std::string(tn(t)) + ".accept(" + p.vis[o].name + " through " + p.vis[o].entries[e].name + ")"});
    const std::string pool_arg = str(per_shape);
    if (!replay.empty())
    {
        std::vector<int> h;
        size_t pos = 0;
        while (pos <= replay.size())
        {
            size_t q = replay.find(';', pos);
            if (q == std::string::npos) q = replay.size();
            std::string n = replay.substr(pos, q - pos);
            pos = q + 1;
            int ci = -1;
            for (size_t i = 0; i < calls.size(); ++i) if (calls[i].name == n) ci = int(i);
            if (ci < 0) { std::printf("replay: unknown call '%s'\n", n.c_str()); std::exit(5); }
            h.push_back(ci);
        }
        run_history(p, calls, h, hname, throwing, pool_arg);
        return;
    }
    const int N = int(calls.size());
    std::vector<int> h(size_t(len), 0);
    long long histories = 0;
    for (;;)
    {
        if (h[0] % nshards == shard) { run_history(p, calls, h, hname, throwing, pool_arg); ++histories; }
        int i = len - 1;
        while (i >= 0 && ++h[size_t(i)] == N) { h[size_t(i)] = 0; --i; }
        if (i < 0) break;
    }
    vf::stat("vis_hist_histories_each_in_a_fresh_process", histories);
    vf::stat("vis_hist_accept_calls_judged", g_calls_judged);
    vf::stat("vis_hist_histories_with_violations", g_viol_histories);
    if (shard == 0)
    {
        long long entries = 0, multi = 0;
        for (auto& v : p.vis) { entries += (long long)v.entries.size(); if (v.entries.size() > 1) ++multi; }
        vf::stat("vis_hist_hierarchies", 1);
        vf::smax("vis_hist_shapes", 6);
        vf::smax("vis_hist_visitor_objects_per_hierarchy", (long long)p.vis.size());
        vf::smax("vis_hist_visitor_objects_with_several_entries", multi);
        vf::smax("vis_hist_entry_subobjects_per_hierarchy", entries);
        vf::smax("vis_hist_call_alphabet", N);
        vf::smax("vis_hist_history_length", len);
    }
}

int main(int argc, char** argv)
{
    std::string hier, replay;
    int len = 2, per_shape = 2, shard = 0, nshards = 1;
    for (int i = 1; i < argc; ++i)
    {
        std::string a = argv[i];
        if (a == "--vis-hist") hier = argv[++i];
        else if (a == "--vis-replay") { hier = argv[++i]; replay = argv[++i]; }
        else if (a == "--len") len = atoi(argv[++i]);
        else if (a == "--pool") per_shape = atoi(argv[++i]);
        else if (a == "--shard") { shard = atoi(argv[++i]); nshards = atoi(argv[++i]); }
        else if (a == "--deadline") ++i;
    }
    if (len < 1 || per_shape < 1 || nshards < 1) { std::printf("bad arguments\n"); return 5; }
    if (hier == "nonconst/default_catch_all") run_hier<HN_default>(hier, false, per_shape, len, shard, nshards, replay);
    else if (hier == "nonconst/throwing_catch_all") run_hier<HN_throwing>(hier, true, per_shape, len, shard, nshards, replay);
    else if (hier == "const/default_catch_all") run_hier<HC_default>(hier, false, per_shape, len, shard, nshards, replay);
    else if (hier == "const/throwing_catch_all") run_hier<HC_throwing>(hier, true, per_shape, len, shard, nshards, replay);
    else { std::printf("unknown hierarchy '%s'\n", hier.c_str()); return 5; }
    vf::stat("vis_hist_processes", g_processes);
    vf::done();
    return 0;
}
