// C17 part E: MODULE CONTEXT. The class hierarchy and the dispatchers are header-only, so every loaded module (the host program, a
// plugin loaded with dlopen) that uses them carries its own copy of the vtables, of the type_info objects and of every inline
// function. The identity of a type is type_info::operator== / std::type_index (names), not the address of a type_info object, and
// dynamic_cast follows the same rule, so a handler registered in one module must be found for an object created in another one.
//
// This source is built twice by check.py: as the host program (-DC17_PLUGIN=0, NOT linked with -rdynamic) and as a shared object
// (-DC17_PLUGIN=1, -fPIC -shared, default visibility) that the host loads with dlopen(RTLD_NOW | RTLD_LOCAL). Both modules contain
// the same code below ("ModApi"); the host drives both copies:
//   functor_dispatcher worlds (engine E2, no faults): registration/erasure histories of one dispatcher object in which every
//       insert<tuple>(h) / erase<tuple> is executed EITHER in the host OR in the plugin (so the key is built from that module's
//       type_info objects); after EVERY transition dispatch is called for ALL type tuples x ALL origins of the argument objects
//       ({created in the host, created in the plugin}^K) x the module that executes the dispatch call. Expected: exactly the
//       single-module result (handler map keyed by the tuple of types, whichever module registered / created / called).
//   static_dispatcher (E3): instantiated in the host and in the plugin x argument origins x all argument pairs.
//   acyclic visitors (E3): visitor object created in the host / plugin x visited object created in the host / plugin.
// basic_fast_dispatcher identifies a class by the per-class static index that XTL_IMPLEMENT_INDEXABLE_CLASS() puts into an inline
// function OF THE USER'S CLASS; a module with its own copy of that function has its own index (verified at start-up), which is a
// property of how the user's hierarchy was linked and not of xtl. Fast dispatchers are therefore enumerated in module-homogeneous
// configurations only: every registration executed in module M and every argument object created in M (M = host, M = plugin; the
// dispatcher object lives in the host and dispatch is called from both modules).
#ifndef C17_PLUGIN
#define C17_PLUGIN 0
#endif

#include <xtl/xmultimethods.hpp>
#include <xtl/xvisitor.hpp>

#include <array>
#include <cstddef>
#include <cstring>
#include <stdexcept>
#include <typeindex>
#include <typeinfo>
#include <utility>

namespace mpl = xtl::mpl;

// ------------------------------------------------------------------------------------------------ shared by both modules
struct Shape
{
    virtual ~Shape() = default;
    XTL_IMPLEMENT_INDEXABLE_CLASS()
};
struct A : Shape { XTL_IMPLEMENT_INDEXABLE_CLASS() };
struct B : Shape { XTL_IMPLEMENT_INDEXABLE_CLASS() };
struct C : Shape { XTL_IMPLEMENT_INDEXABLE_CLASS() };

template <class T> struct tagof;
template <> struct tagof<A> { static const int v = 0; };
template <> struct tagof<B> { static const int v = 1; };
template <> struct tagof<C> { static const int v = 2; };

struct Call { int handler; const void* addr[3]; int tags[3]; const void* extra; };
typedef void (*sink_fn)(const Call*);
static sink_fn g_sink = nullptr;

template <class... T>
struct Handler
{
    int id;
    Call make(T&... a) const
    {
        Call c{id, {nullptr, nullptr, nullptr}, {-1, -1, -1}, nullptr};
        const void* ad[] = {static_cast<const void*>(&a)...};
        int tg[] = {tagof<T>::v...};
        for (std::size_t i = 0; i < sizeof...(T); ++i) { c.addr[i] = ad[i]; c.tags[i] = tg[i]; }
        return c;
    }
    int operator()(T&... a) const { Call c = make(a...); g_sink(&c); return id; }
    int operator()(T&... a, int& x) const { Call c = make(a...); c.extra = &x; g_sink(&c); return id; }
};

// one dispatcher kind, type-erased so that the host can run the copy of the code that lives in either module
struct KindVT
{
    const char* name;
    int K;
    bool extra, has_erase, fast;
    void* (*create)();
    void (*destroy)(void*);
    void (*ins)(void*, const int*, int);
    void (*er)(void*, const int*);
    int (*disp)(const void*, Shape* const*, int*, int*);
};

template <class D, int K, bool EXTRA, bool ERASE>
struct KindImpl
{
    template <class... Ts> static void ins_sel(D& d, const int*, int id, std::true_type) { d.template insert<Ts...>(Handler<Ts...>{id}); }
    template <class... Ts> static void ins_sel(D& d, const int* t, int id, std::false_type)
    {
        switch (t[sizeof...(Ts)])
        {
        case 0: ins_next<Ts..., A>(d, t, id); break;
        case 1: ins_next<Ts..., B>(d, t, id); break;
        default: ins_next<Ts..., C>(d, t, id); break;
        }
    }
    template <class... Ts> static void ins_next(D& d, const int* t, int id) { ins_sel<Ts...>(d, t, id, std::integral_constant<bool, sizeof...(Ts) == K>()); }
    static void ins(void* d, const int* t, int id) { ins_next<>(*static_cast<D*>(d), t, id); }

    template <class... Ts> static void er_do(D& d, std::true_type) { d.template erase<Ts...>(); }
    template <class... Ts> static void er_do(D&, std::false_type) {}
    template <class... Ts> static void er_sel(D& d, const int*, std::true_type) { er_do<Ts...>(d, std::integral_constant<bool, ERASE>()); }
    template <class... Ts> static void er_sel(D& d, const int* t, std::false_type)
    {
        switch (t[sizeof...(Ts)])
        {
        case 0: er_next<Ts..., A>(d, t); break;
        case 1: er_next<Ts..., B>(d, t); break;
        default: er_next<Ts..., C>(d, t); break;
        }
    }
    template <class... Ts> static void er_next(D& d, const int* t) { er_sel<Ts...>(d, t, std::integral_constant<bool, sizeof...(Ts) == K>()); }
    static void er(void* d, const int* t) { er_next<>(*static_cast<D*>(d), t); }

    template <std::size_t... I> static int call(const D& d, Shape* const* a, int*, std::index_sequence<I...>, std::false_type) { return d.dispatch(*a[I]...); }
    template <std::size_t... I> static int call(const D& d, Shape* const* a, int* x, std::index_sequence<I...>, std::true_type) { return d.dispatch(*a[I]..., *x); }
    static int disp(const void* d, Shape* const* a, int* x, int* threw)
    {
        *threw = 0;
        try { return call(*static_cast<const D*>(d), a, x, std::make_index_sequence<K>(), std::integral_constant<bool, EXTRA>()); }
        catch (const std::exception&) { *threw = 1; return 0; }
    }
    static void* create() { return new D; }
    static void destroy(void* d) { delete static_cast<D*>(d); }
    static KindVT vt(const char* name, bool fast) { return KindVT{name, K, EXTRA, ERASE, fast, &create, &destroy, &ins, &er, &disp}; }
};

typedef mpl::vector<> NoUD;
typedef mpl::vector<int> IntUD;
typedef xtl::functor_dispatcher<mpl::vector<Shape>, int, NoUD, xtl::dynamic_caster, xtl::basic_dispatcher> D1b;
typedef xtl::functor_dispatcher<mpl::vector<Shape, Shape>, int, NoUD, xtl::dynamic_caster, xtl::basic_dispatcher> D2b;
typedef xtl::functor_dispatcher<mpl::vector<Shape, Shape>, int, NoUD, xtl::static_caster, xtl::basic_dispatcher> D2bs;
typedef xtl::functor_dispatcher<mpl::vector<Shape, Shape>, int, IntUD, xtl::dynamic_caster, xtl::basic_dispatcher> D2bx;
typedef xtl::functor_dispatcher<mpl::vector<Shape, Shape, Shape>, int, NoUD, xtl::dynamic_caster, xtl::basic_dispatcher> D3b;
typedef xtl::functor_dispatcher<mpl::vector<Shape>, int, NoUD, xtl::static_caster, xtl::basic_fast_dispatcher> D1f;
typedef xtl::functor_dispatcher<mpl::vector<Shape, Shape>, int, NoUD, xtl::static_caster, xtl::basic_fast_dispatcher> D2f;
typedef xtl::functor_dispatcher<mpl::vector<Shape, Shape>, int, NoUD, xtl::dynamic_caster, xtl::basic_fast_dispatcher> D2fd;

static const KindVT* kind_table(int* n)
{
    static const KindVT t[] = {
        KindImpl<D1b, 1, false, true>::vt("basic1", false),
        KindImpl<D2b, 2, false, true>::vt("basic2", false),
        KindImpl<D2bs, 2, false, true>::vt("basic2-static_cast", false),
        KindImpl<D2bx, 2, true, true>::vt("basic2-extra", false),
        KindImpl<D3b, 3, false, true>::vt("basic3", false),
        KindImpl<D1f, 1, false, false>::vt("fast1", true),
        KindImpl<D2f, 2, false, false>::vt("fast2", true),
        KindImpl<D2fd, 2, false, false>::vt("fast2-dynamic_cast", true),
    };
    *n = int(sizeof t / sizeof t[0]);
    return t;
}

// ---- static_dispatcher instantiations
struct StaticOut { int ran, err, tl, tr; const void* al; const void* ar; int ret; };
struct Exec
{
    StaticOut* o;
    template <class L, class R> int run(L& l, R& r) { ++o->ran; o->tl = tagof<L>::v; o->tr = tagof<R>::v; o->al = &l; o->ar = &r; return 100 + 10 * tagof<L>::v + tagof<R>::v; }
    int on_error(Shape&, Shape&) { ++o->err; return -1; }
};
static const int N_STATIC = 4;
static const char* static_name(int v)
{
    return v == 0 ? "A,B,C | A,B,C | antisymmetric_dispatch" : v == 1 ? "A,B,C | A,B,C | symmetric_dispatch" : v == 2 ? "C,B,A | C,B,A | symmetric_dispatch" : "A,B | B,C | antisymmetric_dispatch";
}
static void static_dispatch(int variant, Shape* l, Shape* r, StaticOut* out)
{
    *out = StaticOut{0, 0, -1, -1, nullptr, nullptr, 0};
    Exec ex{out};
    switch (variant)
    {
    case 0: out->ret = xtl::static_dispatcher<Exec, Shape, mpl::vector<A, B, C>, int, xtl::antisymmetric_dispatch, Shape, mpl::vector<A, B, C>>::dispatch(*l, *r, ex); break;
    case 1: out->ret = xtl::static_dispatcher<Exec, Shape, mpl::vector<A, B, C>, int, xtl::symmetric_dispatch, Shape, mpl::vector<A, B, C>>::dispatch(*l, *r, ex); break;
    case 2: out->ret = xtl::static_dispatcher<Exec, Shape, mpl::vector<C, B, A>, int, xtl::symmetric_dispatch, Shape, mpl::vector<C, B, A>>::dispatch(*l, *r, ex); break;
    default: out->ret = xtl::static_dispatcher<Exec, Shape, mpl::vector<A, B>, int, xtl::antisymmetric_dispatch, Shape, mpl::vector<B, C>>::dispatch(*l, *r, ex); break;
    }
}

// ---- acyclic visitors: two hierarchies, a visitor that handles LA and LB (not LC)
struct VN { struct Root : xtl::base_visitable<int, false, xtl::throwing_catch_all> { XTL_DEFINE_VISITABLE() }; struct LA : Root { XTL_DEFINE_VISITABLE() }; struct LB : Root { XTL_DEFINE_VISITABLE() }; struct LC : Root { XTL_DEFINE_VISITABLE() }; };
struct VC { struct Root : xtl::base_visitable<int, true, xtl::default_catch_all> { XTL_DEFINE_CONST_VISITABLE() }; struct LA : Root { XTL_DEFINE_CONST_VISITABLE() }; struct LB : Root { XTL_DEFINE_CONST_VISITABLE() }; struct LC : Root { XTL_DEFINE_CONST_VISITABLE() }; };
struct VCall { int tag; const void* self; const void* arg; };
typedef void (*vsink_fn)(const VCall*);
static vsink_fn g_vsink = nullptr;
template <class T, int TAG, bool CONSTV>
struct Hd : xtl::visitor<T, int, CONSTV>
{
    int visit(typename xtl::visitor<T, int, CONSTV>::param_type& t) override
    {
        VCall c{TAG, static_cast<const void*>(static_cast<xtl::visitor<T, int, CONSTV>*>(this)), static_cast<const void*>(&t)};
        g_vsink(&c);
        return 10 + TAG;
    }
};
struct VisN : xtl::base_visitor, Hd<VN::LA, 0, false>, Hd<VN::LB, 1, false> {};
struct VisC : xtl::base_visitor, Hd<VC::LA, 0, true>, Hd<VC::LB, 1, true> {};

struct ModApi
{
    const KindVT* kinds;
    int n_kinds;
    Shape* (*obj)(int tag);
    const std::type_info* (*tinfo)(int tag);
    std::size_t* (*index)(int tag);
    void (*set_sinks)(sink_fn, vsink_fn);
    void (*static_dispatch)(int, Shape*, Shape*, StaticOut*);
    // visitors: hier 0 = non-const / throwing catch-all, 1 = const / default catch-all
    void* (*visitable)(int hier, int tag);                  // Root* of that hierarchy
    xtl::base_visitor* (*visitor)(int hier);
    const void* (*visitor_handler_base)(int hier, int tag); // address of the visitor<T,int,c> sub-object of that visitor (nullptr: none)
};

static Shape* api_obj(int tag) { static A a; static B b; static C c; return tag == 0 ? static_cast<Shape*>(&a) : tag == 1 ? static_cast<Shape*>(&b) : static_cast<Shape*>(&c); }
static const std::type_info* api_tinfo(int tag) { return tag == 0 ? &typeid(A) : tag == 1 ? &typeid(B) : tag == 2 ? &typeid(C) : &typeid(Shape); }
static std::size_t* api_index(int tag) { return tag == 0 ? &A::get_class_static_index() : tag == 1 ? &B::get_class_static_index() : tag == 2 ? &C::get_class_static_index() : &Shape::get_class_static_index(); }
static void api_set_sinks(sink_fn s, vsink_fn v) { g_sink = s; g_vsink = v; }
static VisN& the_visn() { static VisN v; return v; }
static VisC& the_visc() { static VisC v; return v; }
static void* api_visitable(int hier, int tag)
{
    static VN::LA na; static VN::LB nb; static VN::LC nc;
    static VC::LA ca; static VC::LB cb; static VC::LC cc;
    if (hier == 0) return tag == 0 ? static_cast<VN::Root*>(&na) : tag == 1 ? static_cast<VN::Root*>(&nb) : static_cast<VN::Root*>(&nc);
    return tag == 0 ? static_cast<VC::Root*>(&ca) : tag == 1 ? static_cast<VC::Root*>(&cb) : static_cast<VC::Root*>(&cc);
}
static xtl::base_visitor* api_visitor(int hier) { return hier == 0 ? static_cast<xtl::base_visitor*>(&the_visn()) : static_cast<xtl::base_visitor*>(&the_visc()); }
static const void* api_visitor_handler_base(int hier, int tag)
{
    if (hier == 0) return tag == 0 ? static_cast<const void*>(static_cast<xtl::visitor<VN::LA, int, false>*>(&the_visn())) : tag == 1 ? static_cast<const void*>(static_cast<xtl::visitor<VN::LB, int, false>*>(&the_visn())) : nullptr;
    return tag == 0 ? static_cast<const void*>(static_cast<xtl::visitor<VC::LA, int, true>*>(&the_visc())) : tag == 1 ? static_cast<const void*>(static_cast<xtl::visitor<VC::LB, int, true>*>(&the_visc())) : nullptr;
}
static const ModApi* local_api()
{
    static ModApi api;
    api.kinds = kind_table(&api.n_kinds);
    api.obj = &api_obj; api.tinfo = &api_tinfo; api.index = &api_index; api.set_sinks = &api_set_sinks;
    api.static_dispatch = &static_dispatch;
    api.visitable = &api_visitable; api.visitor = &api_visitor; api.visitor_handler_base = &api_visitor_handler_base;
    return &api;
}

#if C17_PLUGIN
// ------------------------------------------------------------------------------------------------ the plugin exports one symbol
extern "C" __attribute__((visibility("default"))) const ModApi* c17_module_api() { return local_api(); }

#else
// ------------------------------------------------------------------------------------------------ the host
#include "history.hpp"

#include <dlfcn.h>
#include <map>
#include <string>
#include <vector>

using vf::Errs;
using vf::str;

static const ModApi* g_mod[2] = {nullptr, nullptr};   // 0 host, 1 plugin
static const char* mod_name(int m) { return m == 0 ? "host" : "plugin"; }
static const char* tn(int t) { return t == 0 ? "A" : t == 1 ? "B" : t == 2 ? "C" : "-"; }
typedef std::array<int, 3> Tup;

static std::vector<Call> g_calls;
static std::vector<VCall> g_vcalls;
static void host_sink(const Call* c) { g_calls.push_back(*c); }
static void host_vsink(const VCall* c) { g_vcalls.push_back(*c); }
static int g_extra = 42;

static int g_kind = 0;
static int g_fast_module = -1;   // >= 0: fast dispatcher world, everything class-index related lives in this module
static long long g_dispatches = 0, g_hits = 0, g_cross = 0, g_cross_hits = 0;

static std::string idx_s(std::size_t v) { return v == SIZE_MAX ? std::string("-") : str(v); }
static std::string tup_s(const Tup& t, int K) { std::string s = tn(t[0]); for (int i = 1; i < K; ++i) s += std::string(",") + tn(t[i]); return s; }
static std::string reg_s(int id) { return "handler " + str(id % 10) + " registered in the " + mod_name(id / 10); }

struct MWorld
{
    void* d;
    std::map<Tup, int> m;
    MWorld()
    {
        for (int mo = 0; mo < 2; ++mo) for (int t = 0; t < 4; ++t) *g_mod[mo]->index(t) = SIZE_MAX;
        g_calls.clear();
        d = g_mod[0]->kinds[g_kind].create();
    }
    ~MWorld() { g_mod[0]->kinds[g_kind].destroy(d); }
    MWorld(const MWorld&) = delete;
    MWorld& operator=(const MWorld&) = delete;
    std::string key() const
    {
        const int K = g_mod[0]->kinds[g_kind].K;
        std::string k;
        for (auto& kv : m) k += tup_s(kv.first, K) + ">" + str(kv.second) + " ";
        if (g_fast_module >= 0)
        {
            k += "| idx";
            for (int t = 0; t < 3; ++t) k += " " + idx_s(*g_mod[g_fast_module]->index(t));
        }
        return k;
    }
    void one(const Tup& t, const int* origin, int site, Errs& e)
    {
        const KindVT& kv = g_mod[site]->kinds[g_kind];
        const int K = kv.K;
        Shape* a[3] = {nullptr, nullptr, nullptr};
        for (int i = 0; i < K; ++i) a[i] = g_mod[origin[i]]->obj(t[i]);
        g_calls.clear();
        int threw = 0;
        int ret = kv.disp(d, a, &g_extra, &threw);
        ++g_dispatches;
        std::string who = "dispatch(";
        for (int i = 0; i < K; ++i) who += std::string(i ? ", " : "") + tn(t[i]) + " created in the " + mod_name(origin[i]);
        who += std::string(") called in the ") + mod_name(site);
        auto it = m.find(t);
        bool cross = false;
        for (int i = 0; i < K; ++i) if (origin[i] != site || (it != m.end() && origin[i] != it->second / 10)) cross = true;
        if (cross) ++g_cross;
        if (it == m.end())
        {
            if (!g_calls.empty()) e.add("wrong-handler-ran", who + " has no registered handler but " + reg_s(g_calls[0].handler) + " ran (registered for " + tn(g_calls[0].tags[0]) + tn(g_calls[0].tags[1]) + tn(g_calls[0].tags[2]) + ")");
            else if (!threw) e.add("no-error", who + " has no registered handler but the call returned normally without reporting an error");
            return;
        }
        ++g_hits;
        if (cross) ++g_cross_hits;
        if (threw) { e.add("registered-not-found", who + ": " + reg_s(it->second) + " for <" + tup_s(t, K) + "> but the call threw"); return; }
        if (g_calls.size() != 1) { e.add("handler-count", who + " ran " + str(g_calls.size()) + " handlers"); return; }
        const Call& c = g_calls[0];
        if (c.handler != it->second || ret != it->second) e.add("wrong-handler", who + " ran " + reg_s(c.handler) + " (returned " + str(ret) + "), the handler registered last for <" + tup_s(t, K) + "> is " + reg_s(it->second));
        for (int i = 0; i < K; ++i)
        {
            if (c.tags[i] != t[i]) e.add("argument-type", who + ": argument " + str(i) + " reached the handler as " + tn(c.tags[i]));
            if (c.addr[i] != dynamic_cast<const void*>(a[i])) e.add("argument-identity", who + ": argument " + str(i) + " is not the object that was passed (order or identity changed)");
        }
        if (kv.extra && c.extra != &g_extra) e.add("extra-argument", who + ": the undispatched extra argument was not passed through by identity");
    }
    void light(Errs& e)
    {
        const int K = g_mod[0]->kinds[g_kind].K;
        int n = 1;
        for (int i = 0; i < K; ++i) n *= 3;
        for (int ti = 0; ti < n; ++ti)
        {
            Tup t{{-1, -1, -1}};
            for (int i = 0, x = ti; i < K; ++i, x /= 3) t[K - 1 - i] = x % 3;
            for (int ov = 0; ov < (1 << K); ++ov)
            {
                int origin[3] = {0, 0, 0};
                for (int i = 0; i < K; ++i) origin[i] = g_fast_module >= 0 ? g_fast_module : (ov >> i) & 1;
                for (int site = 0; site < 2; ++site) one(t, origin, site, e);
                if (g_fast_module >= 0) break;
            }
        }
    }
    void check(Errs&) {}
};

static void run_world(const std::string& inst, int depth, long long max_states, double deadline, bool replay, const std::string& trace)
{
    const KindVT& kv = g_mod[0]->kinds[g_kind];
    const int K = kv.K;
    vf::HistoryExplorer<MWorld> hx;
    hx.prop = "C17";
    hx.inst = inst;
    hx.max_depth = depth;
    hx.max_states = max_states;
    hx.deadline_s = deadline;
    int n = 1;
    for (int i = 0; i < K; ++i) n *= 3;
    for (int ti = 0; ti < n; ++ti)
    {
        Tup t{{-1, -1, -1}};
        for (int i = 0, x = ti; i < K; ++i, x /= 3) t[K - 1 - i] = x % 3;
        for (int site = 0; site < 2; ++site)
        {
            if (g_fast_module >= 0 && site != g_fast_module) continue;
            for (int h = 1; h <= (K == 3 ? 1 : 2); ++h)
            {
                const int id = 10 * site + h;
                hx.add_op(std::string("insert-in-") + mod_name(site), "insert<" + tup_s(t, K) + ">(h" + str(h) + ") executed in the " + mod_name(site), [t, site, id](MWorld& w, Errs&) {
                    g_mod[site]->kinds[g_kind].ins(w.d, t.data(), id); w.m[t] = id; return true; });
            }
            if (kv.has_erase)
                hx.add_op(std::string("erase-in-") + mod_name(site), "erase<" + tup_s(t, K) + "> executed in the " + mod_name(site), [t, site](MWorld& w, Errs&) {
                    g_mod[site]->kinds[g_kind].er(w.d, t.data()); w.m.erase(t); return true; });
        }
    }
    if (replay) { hx.replay(trace); return; }
    hx.run();
    hx.summarize(depth == (1 << 30));
    vf::stat("operation_instances", (long long)hx.ops.size());
    vf::stat("module_world_states", (long long)hx.nodes.size());
    vf::stat("module_world_transitions", hx.transitions);
}

// ---- E3 tables: static_dispatcher and acyclic visitors
static void run_tables()
{
    long long cases = 0, cross = 0;
    const std::vector<std::string> rp{"--inst", "mod-tables"};
    auto pos = [](const std::vector<int>& v, int t) { for (std::size_t i = 0; i < v.size(); ++i) if (v[i] == t) return int(i); return -1; };
    for (int variant = 0; variant < N_STATIC; ++variant)
    {
        const bool sym = variant == 1 || variant == 2;
        std::vector<int> ll = variant == 2 ? std::vector<int>{2, 1, 0} : variant == 3 ? std::vector<int>{0, 1} : std::vector<int>{0, 1, 2};
        std::vector<int> rl = variant == 2 ? std::vector<int>{2, 1, 0} : variant == 3 ? std::vector<int>{1, 2} : std::vector<int>{0, 1, 2};
        for (int site = 0; site < 2; ++site) for (int ol = 0; ol < 2; ++ol) for (int orr = 0; orr < 2; ++orr)
            for (int i = 0; i < 3; ++i) for (int j = 0; j < 3; ++j)
            {
                Shape* l = g_mod[ol]->obj(i); Shape* r = g_mod[orr]->obj(j);
                StaticOut o;
                g_mod[site]->static_dispatch(variant, l, r, &o);
                ++cases;
                if (ol != site || orr != site) ++cross;
                std::string who = std::string("static_dispatcher<") + static_name(variant) + "> instantiated in the " + mod_name(site) + ": dispatch(" + tn(i) + " created in the " + mod_name(ol) + ", " + tn(j) + " created in the " + mod_name(orr) + ")";
                std::string sig = std::string("C17/module/static/") + (sym ? "symmetric" : "antisymmetric");
                int pi = pos(ll, i), pj = pos(rl, j);
                if (pi < 0 || pj < 0)
                {
                    if (o.ran != 0 || o.err != 1 || o.ret != -1) vf::violation(sig + "/missing-type", who + ": a type missing from a list must go to on_error exactly once; run called " + str(o.ran) + "x, on_error " + str(o.err) + "x", rp);
                    continue;
                }
                bool swapped = sym && pj < pi;
                int el = swapped ? j : i, er = swapped ? i : j;
                const void* al = dynamic_cast<const void*>(swapped ? r : l); const void* ar = dynamic_cast<const void*>(swapped ? l : r);
                if (o.ran != 1 || o.err != 0) { vf::violation(sig + "/run-count", who + ": run called " + str(o.ran) + "x, on_error " + str(o.err) + "x (both types are in the lists)", rp); continue; }
                if (o.tl != el || o.tr != er || o.ret != 100 + 10 * el + er) vf::violation(sig + "/wrong-overload", who + ": reached run(" + tn(o.tl) + "," + tn(o.tr) + "), expected run(" + tn(el) + "," + tn(er) + ")", rp);
                if (o.al != al || o.ar != ar) vf::violation(sig + "/argument-identity", who + ": the arguments are not the objects passed (in the expected order)", rp);
            }
    }
    vf::stat("module_static_dispatch_cases", cases);
    vf::stat("module_static_dispatch_cases_cross_module", cross);
    long long vcases = 0, vcross = 0;
    for (int hier = 0; hier < 2; ++hier) for (int ov = 0; ov < 2; ++ov) for (int oo = 0; oo < 2; ++oo) for (int t = 0; t < 3; ++t)
    {
        xtl::base_visitor* vis = g_mod[ov]->visitor(hier);
        void* obj = g_mod[oo]->visitable(hier, t);
        g_vcalls.clear();
        bool threw = false; int ret = -7;
        try
        {
            if (hier == 0) ret = static_cast<VN::Root*>(obj)->accept(*vis);
            else ret = static_cast<const VC::Root*>(obj)->accept(*vis);
        }
        catch (const std::runtime_error&) { threw = true; }
        ++vcases;
        if (ov != oo) ++vcross;
        std::string who = std::string("acyclic ") + (hier == 0 ? "nonconst/throwing_catch_all" : "const/default_catch_all") + " visitor {A,B} created in the " + mod_name(ov) + " visiting " + tn(t) + " created in the " + mod_name(oo);
        std::string sig = std::string("C17/module/visitor/") + (hier == 0 ? "nonconst" : "const");
        const void* hb = g_mod[ov]->visitor_handler_base(hier, t);
        if (hb)
        {
            if (threw || g_vcalls.size() != 1 || g_vcalls[0].tag != t || ret != 10 + t) vf::violation(sig + "/wrong-visit", who + ": expected visit(" + tn(t) + "&) exactly once returning " + str(10 + t) + "; " + str(g_vcalls.size()) + " handler(s) ran" + (g_vcalls.empty() ? std::string() : std::string(" (visit(") + tn(g_vcalls[0].tag) + "))") + ", ret " + str(ret) + (threw ? " (threw)" : ""), rp);
            else if (g_vcalls[0].self != hb) vf::violation(sig + "/wrong-subobject", who + ": the handler ran on another sub-object than the visitor<T> base of the visitor passed", rp);
            else if (g_vcalls[0].arg != obj) vf::violation(sig + "/identity", who + ": visit received another object", rp);
        }
        else
        {
            if (!g_vcalls.empty()) vf::violation(sig + "/other-handler-ran", who + ": no handler for that type, but visit(" + tn(g_vcalls[0].tag) + ") ran", rp);
            if (hier == 0 && !threw) vf::violation(sig + "/catch-all-policy", who + ": the throwing catch-all policy did not throw (returned " + str(ret) + ")", rp);
            if (hier == 1 && (threw || ret != 0)) vf::violation(sig + "/catch-all-policy", who + ": the default catch-all policy must return R() == 0; " + (threw ? std::string("threw") : "returned " + str(ret)), rp);
        }
    }
    vf::stat("module_visitor_cases", vcases);
    vf::stat("module_visitor_cases_cross_module", vcross);
}

int main(int argc, char** argv)
{
    std::string inst, trace, plugin;
    bool replay = false;
    int depth = 1 << 30;
    long long max_states = 1LL << 40;
    double deadline = 1e18;
    for (int i = 1; i < argc; ++i)
    {
        std::string a = argv[i];
        if (a == "--inst") inst = argv[++i];
        else if (a == "--depth") depth = atoi(argv[++i]);
        else if (a == "--max-states") max_states = atoll(argv[++i]);
        else if (a == "--deadline") deadline = atof(argv[++i]);
        else if (a == "--plugin") plugin = argv[++i];
        else if (a == "--replay") { replay = true; inst = argv[++i]; trace = argv[++i]; }
    }
    // the module context: a second copy of the hierarchy in a shared object that cannot see the host's symbols
    void* h = dlopen(plugin.c_str(), RTLD_NOW | RTLD_LOCAL);
    if (!h) { std::printf("cannot load the plugin '%s': %s\n", plugin.c_str(), dlerror()); return 5; }
    typedef const ModApi* (*api_fn)();
    api_fn f = reinterpret_cast<api_fn>(dlsym(h, "c17_module_api"));
    if (!f) { std::printf("the plugin does not export c17_module_api\n"); return 5; }
    g_mod[0] = local_api();
    g_mod[1] = f();
    for (int m = 0; m < 2; ++m) g_mod[m]->set_sinks(&host_sink, &host_vsink);
    // the context must be what the part claims: same types (by name), different type_info objects, different per-class indices,
    // different objects; otherwise this run would silently be a single-module run
    for (int t = 0; t < 4; ++t)
    {
        const std::type_info* a = g_mod[0]->tinfo(t); const std::type_info* b = g_mod[1]->tinfo(t);
        if (a == b || !(*a == *b) || std::type_index(*a) != std::type_index(*b) || g_mod[0]->index(t) == g_mod[1]->index(t))
        {
            std::printf("module context not established for class %d: type_info objects %p / %p (%s / %s), index objects %p / %p\n", t, (const void*)a, (const void*)b, a->name(), b->name(), (void*)g_mod[0]->index(t), (void*)g_mod[1]->index(t));
            return 5;
        }
    }
    for (int t = 0; t < 3; ++t)
        if (&typeid(*g_mod[1]->obj(t)) != g_mod[1]->tinfo(t) || &typeid(*g_mod[0]->obj(t)) != g_mod[0]->tinfo(t) || g_mod[0]->obj(t) == g_mod[1]->obj(t))
        { std::printf("module context not established: an object does not carry the type_info object of the module that created it\n"); return 5; }
    vf::smax("module_classes_with_distinct_type_info_objects_in_host_and_plugin", 4);

    if (inst == "mod-tables") { run_tables(); vf::done(); return 0; }
    // instantiation names: mod-<kind> for basic dispatchers, mod-<kind>@host / mod-<kind>@plugin for fast dispatchers
    std::string kname = inst.size() > 4 ? inst.substr(4) : std::string();
    std::size_t at = kname.find('@');
    std::string where;
    if (at != std::string::npos) { where = kname.substr(at + 1); kname = kname.substr(0, at); }
    g_kind = -1;
    for (int k = 0; k < g_mod[0]->n_kinds; ++k) if (kname == g_mod[0]->kinds[k].name) g_kind = k;
    if (g_kind < 0 || inst.compare(0, 4, "mod-") != 0) { std::printf("unknown instantiation '%s'\n", inst.c_str()); return 5; }
    if (g_mod[0]->kinds[g_kind].fast)
    {
        g_fast_module = where == "host" ? 0 : where == "plugin" ? 1 : -1;
        if (g_fast_module < 0) { std::printf("fast dispatcher instantiations need @host or @plugin\n"); return 5; }
    }
    run_world(inst, depth, max_states, deadline, replay, trace);
    vf::stat("module_dispatch_calls", g_dispatches);
    vf::stat("module_dispatch_calls_to_registered_tuples", g_hits);
    vf::stat("module_dispatch_calls_crossing_modules", g_cross);
    vf::stat("module_dispatch_calls_crossing_modules_to_registered_tuples", g_cross_hits);
    vf::done();
    return 0;
}
#endif
