// C17 part G (type identity), included by wide.cpp (TU 1) and ident_tu2.cpp (TU 2) with C17_TU = 1 / 2.
// Each translation unit gets ITS OWN class `Widget` in an unnamed namespace, derived from the shared base IShape: two DISTINCT
// types with the same spelling and the same mangled name (so: the same type_info::name() text and, with libstdc++, the same
// hash_code()), which a conforming compiler keeps apart (type_info::operator==, std::type_index, dynamic_cast). `Ext` is an ordinary
// class with external linkage that both translation units see. Registrations can only be written where the class can be named, so
// every insert<...>/erase<...> whose tuple contains a Widget is executed by the function of this header instantiated in that TU.
#ifndef C17_IDENT_TU_HPP
#define C17_IDENT_TU_HPP
#include <xtl/xmultimethods.hpp>
#include <typeinfo>
#include <vector>

struct IShape
{
    virtual ~IShape() = default;
    XTL_IMPLEMENT_INDEXABLE_CLASS()
};
struct Ext : IShape { XTL_IMPLEMENT_INDEXABLE_CLASS() };

// global type numbering of the harness: 0 = Widget of TU 1, 1 = Widget of TU 2, 2 = Ext
struct ICall { int handler; const IShape* addr[2]; int tags[2]; };
extern std::vector<ICall> g_icalls;

using ID2dyn = xtl::functor_dispatcher<xtl::mpl::vector<IShape, IShape>, int, xtl::mpl::vector<>, xtl::dynamic_caster, xtl::basic_dispatcher>;
using ID2sta = xtl::functor_dispatcher<xtl::mpl::vector<IShape, IShape>, int, xtl::mpl::vector<>, xtl::static_caster, xtl::basic_dispatcher>;
using ID1dyn = xtl::functor_dispatcher<xtl::mpl::vector<IShape>, int, xtl::mpl::vector<>, xtl::dynamic_caster, xtl::basic_dispatcher>;
using ID1sta = xtl::functor_dispatcher<xtl::mpl::vector<IShape>, int, xtl::mpl::vector<>, xtl::static_caster, xtl::basic_dispatcher>;

struct C17TuApi
{
    IShape* widget;                 // an object of this TU's Widget
    const std::type_info* ti;       // typeid(Widget) as this TU sees it
    // kind: 0 ID2dyn 1 ID2sta 2 ID1dyn 3 ID1sta; local type codes l0,l1: 0 = this TU's Widget, 1 = Ext (l1 ignored for one argument)
    void (*insert)(void* d, int kind, int l0, int l1, int handler);
    void (*erase)(void* d, int kind, int l0, int l1);
};

namespace
{
    struct Widget : IShape { XTL_IMPLEMENT_INDEXABLE_CLASS() };

    template <class T> struct itag;
    template <> struct itag<Widget> { static const int v = C17_TU - 1; };
    template <> struct itag<Ext> { static const int v = 2; };

    struct IH
    {
        int id;
        template <class X, class Y>
        int operator()(X& x, Y& y) const
        {
            g_icalls.push_back(ICall{id, {static_cast<const IShape*>(&x), static_cast<const IShape*>(&y)}, {itag<X>::v, itag<Y>::v}});
            return id;
        }
        template <class X>
        int operator()(X& x) const
        {
            g_icalls.push_back(ICall{id, {static_cast<const IShape*>(&x), nullptr}, {itag<X>::v, -1}});
            return id;
        }
    };

    template <class D, class X, class Y> void tu_ins2(void* d, int h) { static_cast<D*>(d)->template insert<X, Y>(IH{h}); }
    template <class D, class X, class Y> void tu_era2(void* d) { static_cast<D*>(d)->template erase<X, Y>(); }
    template <class D, class X> void tu_ins1(void* d, int h) { static_cast<D*>(d)->template insert<X>(IH{h}); }
    template <class D, class X> void tu_era1(void* d) { static_cast<D*>(d)->template erase<X>(); }

    template <class D>
    void tu_op2(void* d, int l0, int l1, int h, bool ins)
    {
        int c = l0 * 2 + l1;
        if (ins)
        {
            if (c == 0) tu_ins2<D, Widget, Widget>(d, h); else if (c == 1) tu_ins2<D, Widget, Ext>(d, h);
            else if (c == 2) tu_ins2<D, Ext, Widget>(d, h); else tu_ins2<D, Ext, Ext>(d, h);
        }
        else
        {
            if (c == 0) tu_era2<D, Widget, Widget>(d); else if (c == 1) tu_era2<D, Widget, Ext>(d);
            else if (c == 2) tu_era2<D, Ext, Widget>(d); else tu_era2<D, Ext, Ext>(d);
        }
    }
    template <class D>
    void tu_op1(void* d, int l0, int h, bool ins)
    {
        if (ins) { if (l0 == 0) tu_ins1<D, Widget>(d, h); else tu_ins1<D, Ext>(d, h); }
        else { if (l0 == 0) tu_era1<D, Widget>(d); else tu_era1<D, Ext>(d); }
    }
    void tu_op(void* d, int kind, int l0, int l1, int h, bool ins)
    {
        if (kind == 0) tu_op2<ID2dyn>(d, l0, l1, h, ins);
        else if (kind == 1) tu_op2<ID2sta>(d, l0, l1, h, ins);
        else if (kind == 2) tu_op1<ID1dyn>(d, l0, h, ins);
        else tu_op1<ID1sta>(d, l0, h, ins);
    }
    void tu_insert(void* d, int kind, int l0, int l1, int h) { tu_op(d, kind, l0, l1, h, true); }
    void tu_erase(void* d, int kind, int l0, int l1) { tu_op(d, kind, l0, l1, 0, false); }

    Widget g_widget;
    C17TuApi tu_api() { return C17TuApi{&g_widget, &typeid(Widget), &tu_insert, &tu_erase}; }
}
#endif
