"""C13, ambient process state: the LC_CTYPE locales of the call-time / ambient harness.

The sandbox has only C, C.utf8 and POSIX installed and no /usr/share/i18n, so the 8-bit locales are written here from scratch
(an identity charmap for the 256 byte values + an LC_CTYPE source per locale) and compiled offline with glibc's `localedef` into a
directory under the build cache; the harness selects them through LOCPATH.  Nothing is downloaded, nothing is installed system-wide.

A locale is described by what it says about the bytes 0x80..0xFF (the ASCII half is always the "C" classification, except for the
Turkish case mapping of 'i' / 'I'):

  x8l1      ISO-8859-1 layout: 80-9F cntrl, A0-BF D7 F7 punct, C0-D6 D8-DE upper, DF-F6 F8-FF lower, case pairs E0..FE <-> C0..DE
  x8k8      KOI8-R layout: C0-DF lower, E0-FF upper (the reverse order of Latin-1), A3 lower / B3 upper, the rest punct
  x8tr      ISO-8859-9 layout: as x8l1, but toupper('i') = DD, tolower('I') = FD, tolower(DD) = 'i', toupper(FD) = 'I'
  x8upper, x8lower, x8alpha, x8digit, x8space, x8punct, x8cntrl, x8xdigit
            uniform: EVERY byte 80..FF belongs to that one class (x8digit: 80..F7 - localedef wants digits in groups of ten)

so that every byte value >= 0x80 is, in some locale, a member of every <cctype> class a decoder or encoder could consult.
`fingerprint()` is the number the harness computes from isupper .. isxdigit / toupper / tolower on the thread that makes the call;
MANIFEST (name, the two fingerprints, description) tells the harness what it must see after installing a locale.
"""
import hashlib
import os
import shutil
import subprocess

import vlib

CLASSES = ("upper", "lower", "alpha", "digit", "space", "punct", "cntrl", "xdigit")
BIT = {"upper": 1, "lower": 2, "alpha": 4, "digit": 8, "space": 16, "punct": 32, "cntrl": 64, "xdigit": 128}


def R(a, b):
    return list(range(a, b + 1))


def ascii_tables():
    cls = {
        "upper": R(0x41, 0x5A), "lower": R(0x61, 0x7A), "alpha": [], "digit": R(0x30, 0x39),
        "space": [0x20, 9, 10, 11, 12, 13], "cntrl": R(0, 0x1F) + [0x7F],
        "punct": R(0x21, 0x2F) + R(0x3A, 0x40) + R(0x5B, 0x60) + R(0x7B, 0x7E),
        "xdigit": R(0x30, 0x39) + R(0x41, 0x46) + R(0x61, 0x66),
    }
    up = {a: a - 32 for a in R(0x61, 0x7A)}
    lo = {a: a + 32 for a in R(0x41, 0x5A)}
    return cls, up, lo


def latin1_tables():
    cls, up, lo = ascii_tables()
    cls["cntrl"] += R(0x80, 0x9F)
    cls["punct"] += R(0xA0, 0xBF) + [0xD7, 0xF7]
    cls["upper"] += R(0xC0, 0xD6) + R(0xD8, 0xDE)
    cls["lower"] += R(0xDF, 0xF6) + R(0xF8, 0xFF)
    for a in R(0xE0, 0xF6) + R(0xF8, 0xFE):
        up[a] = a - 32
        lo[a - 32] = a
    return cls, up, lo


def build_tables():
    """name -> (description, classes, toupper, tolower)"""
    T = {}
    T["x8l1"] = ("ISO-8859-1 layout: bytes C0-D6, D8-DE are upper-case letters, DF-F6, F8-FF lower-case letters, 80-9F control, A0-BF punctuation",) + latin1_tables()
    cls, up, lo = ascii_tables()
    cls["punct"] += [b for b in R(0x80, 0xBF) if b not in (0xA3, 0xB3)]
    cls["lower"] += [0xA3] + R(0xC0, 0xDF)
    cls["upper"] += [0xB3] + R(0xE0, 0xFF)
    for a in R(0xC0, 0xDF):
        up[a] = a + 32
        lo[a + 32] = a
    up[0xA3] = 0xB3
    lo[0xB3] = 0xA3
    T["x8k8"] = ("KOI8-R layout: bytes C0-DF are lower-case letters, E0-FF upper-case letters, 80-BF punctuation except the letters A3 / B3", cls, up, lo)
    cls, up, lo = latin1_tables()
    up[0x69] = 0xDD
    lo[0xDD] = 0x69
    lo[0x49] = 0xFD
    up[0xFD] = 0x49
    T["x8tr"] = ("ISO-8859-9 layout: letters as in ISO-8859-1, Turkish case mapping toupper('i') = DD, tolower('I') = FD", cls, up, lo)
    for k in CLASSES:
        cls, up, lo = ascii_tables()
        hi = R(0x80, 0xF7) if k == "digit" else R(0x80, 0xFF)
        cls[k] += hi
        T["x8" + k] = ("every byte %02X-%02X is classified as '%s'" % (hi[0], hi[-1], k), cls, up, lo)
    return T


def fingerprint(cls, up, lo):
    """two FNV-1a numbers over the 256 byte values: the class bits, and (toupper, tolower) - calltime_main.cpp: ctype_fingerprint()"""
    alpha = set(cls["alpha"]) | set(cls["upper"]) | set(cls["lower"])      # upper and lower are letters
    member = {k: set(v) for k, v in cls.items()}
    member["alpha"] = alpha
    h, g = 2166136261, 2166136261
    for b in range(256):
        m = sum(BIT[k] for k in CLASSES if b in member[k])
        h = ((h ^ m) * 16777619) & 0xFFFFFFFF
        for v in (up.get(b, b), lo.get(b, b)):
            g = ((g ^ v) * 16777619) & 0xFFFFFFFF
    return h, g


def U(i):
    return "<U%04X>" % i


def charmap_text():
    s = "<code_set_name> X8\n<comment_char> %\n<escape_char> /\n<mb_cur_min> 1\n<mb_cur_max> 1\nCHARMAP\n"
    s += "".join("<U%04X> /x%02x\n" % (i, i) for i in range(256))
    return s + "END CHARMAP\n"


def source_text(cls, up, lo):
    s = "comment_char %\nescape_char /\nLC_CTYPE\n"
    c = dict(cls)
    if c["alpha"]:
        c["alpha"] = sorted(set(c["alpha"]) | set(c["upper"]) | set(c["lower"]))      # localedef: an explicit alpha must list the letters too
    for k in CLASSES:
        if c.get(k):
            s += k + " " + ";".join(U(i) for i in sorted(c[k])) + "\n"
    s += "blank <U0020>;<U0009>\n"
    s += "toupper " + ";".join("(%s,%s)" % (U(a), U(b)) for a, b in sorted(up.items())) + "\n"
    s += "tolower " + ";".join("(%s,%s)" % (U(a), U(b)) for a, b in sorted(lo.items())) + "\n"
    return s + "END LC_CTYPE\n"


def locale_dir():
    """compile (once per content; cached like the harness binaries) and return the LOCPATH directory"""
    tool = shutil.which("localedef")
    if not tool:
        raise vlib.HarnessError("C13: `localedef` (glibc) is needed to compile the 8-bit LC_CTYPE locales of the ambient-state part and was not found")
    tables = build_tables()
    cm = charmap_text()
    srcs = {n: source_text(t[1], t[2], t[3]) for n, t in tables.items()}
    ver = subprocess.run([tool, "--version"], stdout=subprocess.PIPE, stderr=subprocess.STDOUT, text=True).stdout.splitlines()[0]
    asc = ascii_tables()
    manifest = "ascii %08x %08x the C classification as check.py writes it (cross-check of the fingerprint function)\n" % fingerprint(*asc)
    manifest += "".join("%s %08x %08x %s\n" % ((n,) + fingerprint(t[1], t[2], t[3]) + (t[0],)) for n, t in tables.items())
    key = hashlib.sha256(("\0".join([ver, cm, manifest] + [srcs[n] for n in sorted(srcs)])).encode()).hexdigest()[:24]
    out = os.path.join(vlib.CACHE, "c13-locales-" + key)
    if os.path.exists(os.path.join(out, "MANIFEST")):
        return out
    os.makedirs(vlib.CACHE, exist_ok=True)
    tmp = out + ".tmp%d" % os.getpid()
    shutil.rmtree(tmp, ignore_errors=True)
    os.makedirs(os.path.join(tmp, "src"))
    with open(os.path.join(tmp, "src", "X8.charmap"), "w") as f:
        f.write(cm)
    for n, text in srcs.items():
        with open(os.path.join(tmp, "src", n + ".src"), "w") as f:
            f.write(text)
        # -c: the source defines LC_CTYPE only; the other categories get localedef's defaults (warnings, exit status 1)
        r = subprocess.run([tool, "-c", "-f", os.path.join(tmp, "src", "X8.charmap"), "-i", os.path.join(tmp, "src", n + ".src"), os.path.join(tmp, n)],
                           stdout=subprocess.PIPE, stderr=subprocess.STDOUT, text=True, env=dict(os.environ, LC_ALL="C"))
        if not os.path.exists(os.path.join(tmp, n, "LC_CTYPE")):
            shutil.rmtree(tmp, ignore_errors=True)
            raise vlib.HarnessError("C13: localedef could not compile the locale %s:\n%s" % (n, r.stdout[-2000:]))
    with open(os.path.join(tmp, "MANIFEST"), "w") as f:
        f.write(manifest)
    try:
        os.rename(tmp, out)
    except OSError:
        shutil.rmtree(tmp, ignore_errors=True)      # another run was faster
        if not os.path.exists(os.path.join(out, "MANIFEST")):
            raise
    return out


NAMES = ["C", "POSIX", "C.utf8"] + list(build_tables())
