// C13 HUGE part: inputs whose length crosses 2^31 and 2^32 (where `int` / `unsigned` length arithmetic wraps).
//
//   huge --len L [--len L ...]      for every L: s = content(L); e = xtl::base64encode(s) compared character by character with a
//                                   streaming RFC 4648 encoder written here (no second 2.9 GiB buffer), then xtl::base64decode(e)
//                                   compared with s, then decode of the UNPADDED text (e without its '=') compared with s.
//
// Built -O2 without sanitizers (several GiB per string).  A length the machine cannot allocate is reported as a cap, not as a
// violation.  One process handles its lengths one after the other, so the peak is one input + one encoding + one decoding.
#include <cstdio>
#include <cstdlib>
#include <cstring>
#include <new>
#include <string>

#include "report.hpp"
#include "xtl/xbase64.hpp"

namespace
{
    const char ALPHA[] = "ABCDEFGHIJKLMNOPQRSTUVWXYZabcdefghijklmnopqrstuvwxyz0123456789+/";

    inline unsigned char content(std::size_t i)
    {
        // no period that divides 3 or 4, never constant over a group, non-zero in the last positions of every length
        return static_cast<unsigned char>((i * 197u) ^ (i >> 7) ^ (i >> 19) ^ 0x5Au);
    }

    // expected character j of the padded RFC 4648 encoding of s
    inline char expected_at(const std::string& s, std::size_t j)
    {
        const std::size_t g = j / 4, r = j % 4, n = s.size();
        const std::size_t b = g * 3;
        const unsigned b0 = static_cast<unsigned char>(s[b]);
        const bool h1 = b + 1 < n, h2 = b + 2 < n;
        const unsigned b1 = h1 ? static_cast<unsigned char>(s[b + 1]) : 0u;
        const unsigned b2 = h2 ? static_cast<unsigned char>(s[b + 2]) : 0u;
        switch (r)
        {
        case 0: return ALPHA[b0 >> 2];
        case 1: return ALPHA[((b0 & 3u) << 4) | (b1 >> 4)];
        case 2: return h1 ? ALPHA[((b1 & 15u) << 2) | (b2 >> 6)] : '=';
        default: return h2 ? ALPHA[b2 & 63u] : '=';
        }
    }

    std::string hexs(const std::string& s, std::size_t at, std::size_t n)
    {
        std::string o;
        char buf[4];
        for (std::size_t i = at; i < at + n && i < s.size(); ++i) { std::snprintf(buf, sizeof buf, "%02x", static_cast<unsigned char>(s[i])); o += buf; }
        return o;
    }

    void one(std::size_t L)
    {
        const std::string tag = "len=" + vf::str(L);
        const std::vector<std::string> rp = {"--len", vf::str(L)};
        std::string s, e, d;
        try
        {
            s.resize(L);
            for (std::size_t i = 0; i < L; ++i) s[i] = static_cast<char>(content(i));
            e = xtl::base64encode(s);
        }
        catch (const std::bad_alloc&)
        {
            vf::cap("huge: not enough memory for an input of " + vf::str(L) + " bytes and its encoding; length not judged");
            return;
        }
        vf::stat("evaluations");
        vf::stat("huge_lengths_encoded");
        vf::stat("huge_bytes_encoded", static_cast<long long>(L));
        const std::size_t want = (L + 2) / 3 * 4;
        if (e.size() != want)
        {
            vf::violation("C13/huge/base64encode/wrong-length", "base64encode of " + vf::str(L) + " bytes (content(i) = (i*197 ^ i>>7 ^ i>>19 ^ 0x5a) & 0xff): encoded length "
                          + vf::str(e.size()) + ", RFC 4648 gives " + vf::str(want) + "; last characters \"" + e.substr(e.size() > 8 ? e.size() - 8 : 0) + "\"", rp);
        }
        else
        {
            for (std::size_t j = 0; j < want; ++j)
                if (e[j] != expected_at(s, j))
                {
                    vf::violation("C13/huge/base64encode/wrong-character", "base64encode of " + vf::str(L) + " bytes: character " + vf::str(j) + " is '" + std::string(1, e[j])
                                  + "', RFC 4648 gives '" + std::string(1, expected_at(s, j)) + "' (input bytes " + hexs(s, j / 4 * 3, 3) + " at " + vf::str(j / 4 * 3) + ")", rp);
                    break;
                }
        }
        // decode of the reference text (rebuilt in place when the encoder was wrong, so the decoder is judged on its own)
        try
        {
            if (e.size() != want) e.resize(want);
            for (std::size_t j = 0; j < want; ++j) e[j] = expected_at(s, j);
            for (int unpadded = 0; unpadded < 2; ++unpadded)
            {
                if (unpadded)
                {
                    if (L % 3 == 0) break;
                    e.resize(want - (3 - L % 3));
                }
                d = xtl::base64decode(e);
                vf::stat("evaluations");
                vf::stat("huge_texts_decoded");
                if (d.size() != L || std::memcmp(d.data(), s.data(), L) != 0)
                {
                    std::size_t at = 0;
                    while (at < d.size() && at < L && d[at] == s[at]) ++at;
                    vf::violation(std::string("C13/huge/base64decode/") + (d.size() != L ? "wrong-length" : "wrong-bytes"),
                                  std::string("base64decode of the ") + (unpadded ? "unpadded" : "padded") + " RFC 4648 encoding (" + vf::str(e.size()) + " characters) of " + vf::str(L)
                                  + " bytes: result has " + vf::str(d.size()) + " bytes, first difference at byte " + vf::str(at) + " (got " + hexs(d, at, 4) + ", input " + hexs(s, at, 4) + ")", rp);
                }
                std::string().swap(d);
            }
        }
        catch (const std::bad_alloc&)
        {
            vf::cap("huge: not enough memory to decode the encoding of " + vf::str(L) + " bytes; decode of that length not judged");
        }
    }
}

int main(int argc, char** argv)
{
    vf::install_crash_handler();
    for (int i = 1; i + 1 < argc; i += 2)
    {
        if (std::strcmp(argv[i], "--len") != 0) { std::fprintf(stderr, "usage: huge --len L ...\n"); return 2; }
        one(static_cast<std::size_t>(std::strtoull(argv[i + 1], nullptr, 10)));
    }
    vf::done();
    return 0;
}
