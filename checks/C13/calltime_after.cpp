// C13 call-time harness, translation unit linked AFTER the one that includes xtl/xbase64.hpp (does not include the library).
#include "calltime.hpp"

namespace
{
    c13ct::Probe probe_after(c13ct::T_INIT_TU_AFTER, c13ct::T_DTOR_TU_AFTER);
}
