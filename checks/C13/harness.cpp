// C13: base64encode / base64decode — exhaustive enumeration of byte strings against an independent RFC 4648 reference
// (refs/C13_rfc4648.hpp) and the "specification decode" of the property statement.  See NOTES.md.
//
//   harness [--chunk N] [--deadline SECONDS] [--samples N] (--job MODE FAMILY LO HI)...
//     MODE   enc : s -> e = xtl::base64encode(s) must equal ref encode(s); xtl::base64decode(e) must equal s
//            dec : t -> xtl::base64decode(t) must equal spec_decode(t) (longest leading alphabet run, whole bytes only)
//     FAMILY full:L        all 256^L strings of length L over all byte values
//            enc6:L        all 6^L strings of length L over {00,01,7F,80,FF,'A'}
//            dec13:L       all 13^L strings of length L over {A,z,9,+,/,=,' ','\n',-,_,00,80,FF}
//            heap13:P:L    P in 16..20 valid characters followed by every dec13 string of length L (input lives in an exact-size heap block)
//            long          58*36 alternating strings a,b,a,b,.. of length 7..64 over enc6 x enc6 and the 256 rotations of 00..FF
//            sweep:<c|f>:LMAX                      LENGTH SWEEP, index = L in 0..LMAX: c = counting pattern 00 01 .. FF 00 ..; f = all FF (L even) / all 80 (L odd)
//            sweepdec:<c|f>:<T>:<p|u>:LMAX         reference encoding of that string, padded (p) or with the '=' removed (u, only L%3 != 0), followed by the
//                                                  terminator T in none|pad|nl|high|dash ("", "=", "\n", "\x80", "-")
//            pow2:<c|f>:KLO:KHI                    POWER-OF-TWO WINDOWS: the sweep contents at every length 2^k-4 .. 2^k+32 for every k in KLO..KHI
//                                                  (37 consecutive lengths per k: every residue mod 3 and mod 12 on both sides of 2^k); index = 37*(k-KLO) + j
//            pow2dec:<c|f>:<T>:<p|u>:KLO:KHI       the sweepdec construction (reference encoding, padded / unpadded, terminator T) for those lengths
//                                                  (u: only the lengths with L%3 != 0, in increasing order)
//            lit:xHEX      the one string given in hex (replay)
//   --refdump MODE FAMILY LO HI prints the reference's answers only (cross-checked against python's base64 by check.py)
//   --refdigest MODE FAMILY LO HI the same for long strings: prints length + CRC-32 of the generated input and of the reference's answer
//                                 (check.py regenerates the input on its own, runs python's base64 and compares lengths and CRCs)
//     LO HI  index range [LO,HI) inside the family (index = the string read as a number in base |alphabet|, most significant first)
//
// Every chunk of cases runs in a forked child.  The child publishes the index and the phase (which library call) of the
// case it is executing in shared memory, so a child that dies (SIGABRT from _GLIBCXX_ASSERTIONS / UBSan bounds, SIGSEGV, ...)
// is attributed to exactly one input; the parent reports it and resumes behind it.
#include <xtl/xbase64.hpp>

#include "report.hpp"
#include "C13_rfc4648.hpp"

#include <cerrno>
#include <ctime>
#include <exception>
#include <fcntl.h>
#include <sys/mman.h>
#include <sys/types.h>
#include <sys/wait.h>
#include <unistd.h>

using ref4648::bytes;

// ---------------------------------------------------------------------------------------------------------------------
// input families

static const unsigned char ENC6[6] = {0x00, 0x01, 0x7F, 0x80, 0xFF, 'A'};
static const unsigned char DEC13[13] = {'A', 'z', '9', '+', '/', '=', ' ', '\n', '-', '_', 0x00, 0x80, 0xFF};
static const char HEAP_PREFIX[] = "QUJDREVGR0hJSktMTU5P";   // RFC 4648 encoding of "ABCDEFGHIJKLMNO" (20 characters)

static std::string hex(const bytes& b)
{
    static const char* d = "0123456789abcdef";
    std::string s = "x";
    for (unsigned char c : b) { s += d[c >> 4]; s += d[c & 15]; }
    return s;
}
static std::string hex(const std::string& b) { return hex(bytes(b.begin(), b.end())); }

static bool unhex(const std::string& s, bytes& out)
{
    out.clear();
    if (s.empty() || s[0] != 'x' || (s.size() - 1) % 2) return false;
    auto v = [](char c) { return c >= '0' && c <= '9' ? c - '0' : c >= 'a' && c <= 'f' ? c - 'a' + 10 : c >= 'A' && c <= 'F' ? c - 'A' + 10 : -1; };
    for (std::size_t i = 1; i < s.size(); i += 2)
    {
        int a = v(s[i]), b = v(s[i + 1]);
        if (a < 0 || b < 0) return false;
        out.push_back(static_cast<unsigned char>(a * 16 + b));
    }
    return true;
}

// printable rendering for messages: ASCII as is, everything else \xHH
static std::string show(const bytes& b)
{
    static const char* d = "0123456789abcdef";
    auto piece = [&](std::size_t lo, std::size_t hi) {
        std::string s;
        for (std::size_t i = lo; i < hi; ++i)
        {
            unsigned char c = b[i];
            if (c >= 0x20 && c < 0x7f && c != '"' && c != '\\') s += char(c);
            else { s += "\\x"; s += d[c >> 4]; s += d[c & 15]; }
        }
        return s;
    };
    if (b.size() <= 48) return "\"" + piece(0, b.size()) + "\" (" + vf::str(b.size()) + " bytes, hex " + hex(b).substr(1) + ")";
    // long strings (length sweep): first 24 and last 12 bytes only; the replay arguments regenerate the whole string
    return "\"" + piece(0, 24) + "\" ... \"" + piece(b.size() - 12, b.size()) + "\" (" + vf::str(b.size()) + " bytes)";
}
// where two long strings first differ (for messages about the length sweep)
template <class A, class B>
static std::string diffnote(const A& a, const B& b)
{
    if (a.size() <= 48 && b.size() <= 48) return "";
    std::size_t n = a.size() < b.size() ? a.size() : b.size(), i = 0;
    while (i < n && static_cast<unsigned char>(a[i]) == static_cast<unsigned char>(b[i])) ++i;
    return " [lengths " + vf::str(a.size()) + " vs " + vf::str(b.size()) + ", first difference at offset " + vf::str(i) + "]";
}
static std::string show(const std::string& b) { return show(bytes(b.begin(), b.end())); }

struct Family
{
    std::string spec;
    int kind = 0;            // 0 full, 1 enc6, 2 dec13, 3 heap13, 4 long, 5 lit, 6 sweep, 7 sweepdec, 8 pow2, 9 pow2dec
    std::vector<std::size_t> lens;   // pow2 / pow2dec: the lengths, in index order
    char content = 'c';      // sweep: 'c' counting pattern 00 01 .. FF 00 .., 'f' fill: all FF for even length, all 80 for odd length
    int term = 0;            // sweepdec: terminator appended to the encoding: 0 none, 1 "=", 2 "\n", 3 "\x80", 4 "-"
    bool unpadded = false;   // sweepdec: '=' padding of the canonical encoding removed (only lengths with L % 3 != 0)
    int L = 0, P = 0;
    bytes lit;
    unsigned long long count = 0;

    static unsigned long long ipow(unsigned long long b, int e) { unsigned long long r = 1; while (e-- > 0) r *= b; return r; }

    bool parse(const std::string& s)
    {
        spec = s;
        if (s.compare(0, 5, "full:") == 0) { kind = 0; L = std::atoi(s.c_str() + 5); if (L < 0 || L > 7) return false; count = ipow(256, L); return true; }
        if (s.compare(0, 5, "enc6:") == 0) { kind = 1; L = std::atoi(s.c_str() + 5); if (L < 0 || L > 20) return false; count = ipow(6, L); return true; }
        if (s.compare(0, 6, "dec13:") == 0) { kind = 2; L = std::atoi(s.c_str() + 6); if (L < 0 || L > 15) return false; count = ipow(13, L); return true; }
        if (s.compare(0, 7, "heap13:") == 0)
        {
            kind = 3;
            if (std::sscanf(s.c_str() + 7, "%d:%d", &P, &L) != 2) return false;
            if (P < 16 || P > 20 || L < 0 || L > 15) return false;
            count = ipow(13, L);
            return true;
        }
        if (s == "long") { kind = 4; count = 58ull * 36 + 256; return true; }
        if (s.compare(0, 6, "sweep:") == 0)
        {
            // sweep:<c|f>:<Lmax> — index = length L in 0..Lmax
            kind = 6;
            int lmax = 0;
            if (std::sscanf(s.c_str() + 6, "%c:%d", &content, &lmax) != 2 || (content != 'c' && content != 'f') || lmax < 0 || lmax > 1000000) return false;
            count = (unsigned long long)lmax + 1;
            return true;
        }
        if (s.compare(0, 9, "sweepdec:") == 0)
        {
            // sweepdec:<c|f>:<none|pad|nl|high|dash>:<p|u>:<Lmax> — RFC 4648 encoding (reference) of the sweep string of length L, padded (p: L = index)
            // or with its padding removed (u: only L % 3 != 0, L = 3*(index/2) + 1 + index%2), followed by the terminator
            kind = 7;
            char tn[8] = {0}, pu = 0;
            int lmax = 0;
            if (std::sscanf(s.c_str() + 9, "%c:%7[a-z]:%c:%d", &content, tn, &pu, &lmax) != 4 || (content != 'c' && content != 'f') || lmax < 0 || lmax > 1000000) return false;
            const std::string t = tn;
            term = t == "none" ? 0 : t == "pad" ? 1 : t == "nl" ? 2 : t == "high" ? 3 : t == "dash" ? 4 : -1;
            if (term < 0 || (pu != 'p' && pu != 'u')) return false;
            unpadded = pu == 'u';
            count = unpadded ? (unsigned long long)(lmax - lmax / 3) : (unsigned long long)lmax + 1;
            return true;
        }
        if (s.compare(0, 5, "pow2:") == 0 || s.compare(0, 8, "pow2dec:") == 0)
        {
            // pow2:<c|f>:<klo>:<khi> / pow2dec:<c|f>:<term>:<p|u>:<klo>:<khi> — index runs over the window 2^k-WIN_BELOW .. 2^k+WIN_ABOVE of every k in klo..khi
            const bool dec = s[4] == 'd';
            kind = dec ? 9 : 8;
            int klo = 0, khi = 0;
            if (!dec)
            {
                if (std::sscanf(s.c_str() + 5, "%c:%d:%d", &content, &klo, &khi) != 3) return false;
            }
            else
            {
                char tn[8] = {0}, pu = 0;
                if (std::sscanf(s.c_str() + 8, "%c:%7[a-z]:%c:%d:%d", &content, tn, &pu, &klo, &khi) != 5) return false;
                const std::string t = tn;
                term = t == "none" ? 0 : t == "pad" ? 1 : t == "nl" ? 2 : t == "high" ? 3 : t == "dash" ? 4 : -1;
                if (term < 0 || (pu != 'p' && pu != 'u')) return false;
                unpadded = pu == 'u';
            }
            if ((content != 'c' && content != 'f') || klo < 6 || khi > 28 || klo > khi) return false;
            for (int k = klo; k <= khi; ++k)
                for (std::size_t len = (std::size_t(1) << k) - WIN_BELOW; len <= (std::size_t(1) << k) + WIN_ABOVE; ++len)
                    if (!unpadded || len % 3 != 0) lens.push_back(len);
            count = lens.size();
            return true;
        }
        if (s.compare(0, 4, "lit:") == 0) { kind = 5; count = 1; return unhex(s.substr(4), lit); }
        return false;
    }
    enum { WIN_BELOW = 4, WIN_ABOVE = 32 };

    static void digits(unsigned long long idx, const unsigned char* alpha, unsigned base, int len, bytes& out)
    {
        std::size_t at = out.size();
        out.resize(at + std::size_t(len));
        for (int i = len - 1; i >= 0; --i)
        {
            unsigned d = unsigned(idx % base);
            idx /= base;
            out[at + std::size_t(i)] = alpha ? alpha[d] : static_cast<unsigned char>(d);
        }
    }

    void make(unsigned long long idx, bytes& out) const
    {
        out.clear();
        switch (kind)
        {
        case 0: digits(idx, nullptr, 256, L, out); break;
        case 1: digits(idx, ENC6, 6, L, out); break;
        case 2: digits(idx, DEC13, 13, L, out); break;
        case 3:
            out.assign(HEAP_PREFIX, HEAP_PREFIX + P);
            digits(idx, DEC13, 13, L, out);
            break;
        case 4:
            if (idx < 58ull * 36)
            {
                int len = 7 + int(idx / 36);
                unsigned char a = ENC6[(idx % 36) / 6], b = ENC6[idx % 6];
                for (int i = 0; i < len; ++i) out.push_back(i % 2 ? b : a);
            }
            else
            {
                unsigned r = unsigned(idx - 58ull * 36);
                for (unsigned i = 0; i < 256; ++i) out.push_back(static_cast<unsigned char>((r + i) & 255u));
            }
            break;
        case 6: sweep_content(content, std::size_t(idx), out); break;
        case 8: sweep_content(content, lens[std::size_t(idx)], out); break;
        case 7:
        case 9:
        {
            static bytes plain;
            const std::size_t len = kind == 9 ? lens[std::size_t(idx)] : unpadded ? std::size_t(3 * (idx / 2) + 1 + idx % 2) : std::size_t(idx);
            sweep_content(content, len, plain);
            ref4648::encode(plain, out);
            if (unpadded) while (!out.empty() && out.back() == '=') out.pop_back();
            static const char* T[5] = {"", "=", "\n", "\x80", "-"};
            for (const char* t = T[term]; *t; ++t) out.push_back(static_cast<unsigned char>(*t));
            break;
        }
        default: out = lit; break;
        }
    }

    // Sweep strings of at most 256 plain bytes can coincide with a case of the short-string families (full:L, enc6:L, long, dec13:L) or with the
    // other sweep content (L = 0); they are executed and judged, but conservatively NOT counted in distinct_nontrivial.
    bool maybe_duplicate(unsigned long long idx) const
    {
        if (kind == 6) return idx <= 256;
        if (kind == 7) return (unpadded ? 3 * (idx / 2) + 1 + idx % 2 : idx) <= 256;
        if (kind == 8 || kind == 9) return lens[std::size_t(idx)] <= 70000;   // may coincide with a case of the complete length sweep (0..20000 / 0..70000)
        return false;
    }

    static void sweep_content(char content, std::size_t len, bytes& out)
    {
        out.resize(len);
        if (content == 'c') for (std::size_t i = 0; i < len; ++i) out[i] = static_cast<unsigned char>(i & 255u);
        else std::fill(out.begin(), out.end(), static_cast<unsigned char>(len % 2 == 0 ? 0xFF : 0x80));
    }
};

// ---------------------------------------------------------------------------------------------------------------------
// state shared between the enumerating parent and the executing children

enum { ST_END = 0, ST_PAD, ST_NUL, ST_HIGH, ST_OTHER, N_STOP };
static const char* STOP_NAME[N_STOP] = {"end-of-input", "pad", "NUL", "high-byte", "other-ascii"};
enum { CT_ASCII = 0, CT_NUL, CT_HIGH, N_CONTENT };
static const char* CONTENT_NAME[N_CONTENT] = {"ascii", "NUL", "high-byte"};
enum { PH_NONE = 0, PH_ENCODE, PH_DECODE_OF_ENCODED, PH_DECODE };

struct Shared
{
    volatile long long cur;        // index of the case being executed
    volatile int phase;            // which library call is running (PH_*)
    volatile int chunk_done;       // set by the child after the last case of its chunk (exit status alone proves nothing: ASan's fatal errors exit with exitcode=0)
    long long enc_cases, dec_cases, enc_nontrivial, dec_nontrivial;
    long long skipped, violating_cases, forks, max_len, decoded_bytes;
    long long dec_class[N_STOP][4];
    long long enc_class[3][N_CONTENT];
    int dec_crashes[N_STOP];
    int enc_crashes[3][N_CONTENT];
    int n_sigs;
    unsigned long long sigs[256];
    int job_samples, proc_samples;
};
static Shared* S = nullptr;
static const int CRASH_LIMIT = 2;   // after this many killed children for one input class the class is no longer executed (and the run is capped)
static int g_samples = 0;
static inline bool want_sample() { return S->job_samples < 1 && S->proc_samples < g_samples; }   // at most one per job, --samples N per process

static void report(const std::string& sig, const std::string& msg, const std::vector<std::string>& replay)
{
    S->violating_cases++;
    unsigned long long h = 1469598103934665603ull;
    for (unsigned char c : sig) { h ^= c; h *= 1099511628211ull; }
    for (int i = 0; i < S->n_sigs; ++i) if (S->sigs[i] == h) return;
    if (S->n_sigs < 256) S->sigs[S->n_sigs++] = h;
    vf::violation(sig, msg, replay);
}

static int stop_class(const bytes& in, std::size_t k)
{
    if (k >= in.size()) return ST_END;
    unsigned char c = in[k];
    return c == '=' ? ST_PAD : c == 0 ? ST_NUL : c >= 0x80 ? ST_HIGH : ST_OTHER;
}
static int content_class(const bytes& in)
{
    int c = CT_ASCII;
    for (unsigned char b : in) { if (b >= 0x80) return CT_HIGH; if (b == 0) c = CT_NUL; }
    return c;
}
static std::string enc_class_name(const bytes& in) { return "len%3=" + vf::str(in.size() % 3) + "," + CONTENT_NAME[content_class(in)]; }
static std::string dec_class_name(const bytes& in)
{
    std::size_t k = ref4648::leading_run(in);
    return "run%4=" + vf::str(k % 4) + ",stop=" + STOP_NAME[stop_class(in, k)];
}
// the case being judged (set before every case, also by the parent when it attributes a crash): long inputs are replayed by (family, index)
static const Family* g_fam = nullptr;
static unsigned long long g_idx = 0;
static std::vector<std::string> replay_args(const char* mode, const bytes& in)
{
    if (in.size() <= 64 || !g_fam) return {"--job", mode, "lit:" + hex(in), "0", "1"};
    return {"--job", mode, g_fam->spec, vf::str(g_idx), vf::str(g_idx + 1)};
}
static std::string origin(const bytes& in) { return in.size() <= 64 || !g_fam ? std::string() : " {input = " + g_fam->spec + " #" + vf::str(g_idx) + "}"; }
// plain char is a build configuration: the harness is built twice (default = signed here, and -funsigned-char)
static const bool CHAR_IS_UNSIGNED = static_cast<char>(-1) > 0;
static const std::string FN_ENC = CHAR_IS_UNSIGNED ? "base64encode[-funsigned-char]" : "base64encode";
static const std::string FN_DEC = CHAR_IS_UNSIGNED ? "base64decode[-funsigned-char]" : "base64decode";
static const std::string FN_RT = CHAR_IS_UNSIGNED ? "roundtrip[-funsigned-char]" : "roundtrip";

static bool same(const std::string& a, const bytes& b)
{
    return a.size() == b.size() && (a.empty() || std::memcmp(a.data(), b.data(), a.size()) == 0);
}

// ---------------------------------------------------------------------------------------------------------------------
// one case (runs in the child)

static void enc_case(const Family& f, unsigned long long idx, bytes& in)
{
    f.make(idx, in);
    g_fam = &f;
    g_idx = idx;
    const int r = int(in.size() % 3), ct = content_class(in);
    if (S->enc_crashes[r][ct] >= CRASH_LIMIT) { S->skipped++; return; }
    static bytes expected;   // reused buffer (one heap block for the whole chunk instead of one per case)
    ref4648::encode(in, expected);
    std::string e, d;
    bool threw = false;
    std::string what;
    S->cur = (long long)idx;
    try
    {
        const std::string s(reinterpret_cast<const char*>(in.data()), in.size());   // capacity == size for size > 15: exact heap block
        S->phase = PH_ENCODE;
        e = xtl::base64encode(s);
        S->phase = PH_DECODE_OF_ENCODED;
        d = xtl::base64decode(e);
    }
    catch (const std::exception& ex) { threw = true; what = ex.what(); }
    catch (...) { threw = true; what = "unknown exception"; }
    const int ph = S->phase;
    S->phase = PH_NONE;
    const bool asan = vf::take_asan();

    S->enc_cases++;
    S->enc_class[r][ct]++;
    if ((long long)in.size() > S->max_len) S->max_len = (long long)in.size();
    const bool nontrivial = ct != CT_ASCII && !f.maybe_duplicate(idx);
    if (nontrivial) S->enc_nontrivial++;

    if (!threw && !asan && same(e, expected) && same(d, in) && !(nontrivial && want_sample())) return;   // the common case
    const std::string cls = enc_class_name(in);
    if (threw)
    {
        report("C13/" + (ph == PH_ENCODE ? FN_ENC : FN_RT) + "/" + cls + "/exception",
               std::string(ph == PH_ENCODE ? "base64encode(s)" : "base64decode(base64encode(s))") + " threw '" + what + "' for s = " + show(in), replay_args("enc", in));
        return;
    }
    if (asan)
        report("C13/" + FN_RT + "/" + cls + "/asan-report", "AddressSanitizer reported a memory error during base64encode(s) / base64decode(base64encode(s)) for s = " + show(in),
               replay_args("enc", in));
    if (!same(e, expected))
        report("C13/" + FN_ENC + "/" + cls + "/wrong-encoding",
               "base64encode(s) for s = " + show(in) + origin(in) + ": RFC 4648 says " + show(expected) + ", observed " + show(e) + diffnote(expected, e), replay_args("enc", in));
    if (!same(d, in))
        report("C13/" + FN_RT + "/" + cls + "/decode-of-encode-differs",
               "base64decode(base64encode(s)) != s for s = " + show(in) + origin(in) + ": base64encode(s) = " + show(e) + ", decoded back to " + show(d) + diffnote(in, d), replay_args("enc", in));
    if (nontrivial && want_sample() && (idx & 0xff) >= 0x80)
    {
        S->job_samples++;
        S->proc_samples++;
        vf::sample(std::string(CHAR_IS_UNSIGNED ? "[-funsigned-char build] " : "") + "enc " + f.spec + " #" + vf::str(idx) + ": base64encode(" + show(in) + ") = " + show(e) + ", decodes back to " + show(d), 1 << 30);
    }
}

static void dec_case(const Family& f, unsigned long long idx, bytes& in)
{
    f.make(idx, in);
    g_fam = &f;
    g_idx = idx;
    const std::size_t k = ref4648::leading_run(in);
    const int st = stop_class(in, k);
    if (S->dec_crashes[st] >= CRASH_LIMIT) { S->skipped++; return; }
    static bytes expected, canon;   // reused buffers
    ref4648::spec_decode(in, expected);
    std::string d;
    bool threw = false;
    std::string what;
    S->cur = (long long)idx;
    try
    {
        const std::string s(reinterpret_cast<const char*>(in.data()), in.size());   // capacity == size for size > 15: exact heap block
        S->phase = PH_DECODE;
        d = xtl::base64decode(s);
    }
    catch (const std::exception& ex) { threw = true; what = ex.what(); }
    catch (...) { threw = true; what = "unknown exception"; }
    S->phase = PH_NONE;
    const bool asan = vf::take_asan();

    S->dec_cases++;
    S->dec_class[st][k % 4]++;
    S->decoded_bytes += (long long)expected.size();
    if ((long long)in.size() > S->max_len) S->max_len = (long long)in.size();
    // non-trivial: the input is not the canonical RFC 4648 encoding of anything (those are what the round-trip family presents)
    ref4648::encode(expected, canon);
    const bool nontrivial = canon != in && !f.maybe_duplicate(idx);
    if (nontrivial) S->dec_nontrivial++;

    if (!threw && !asan && same(d, expected) && !(nontrivial && want_sample())) return;   // the common case
    const std::string cls = dec_class_name(in);
    if (threw)
    {
        report("C13/" + FN_DEC + "/" + cls + "/exception", "base64decode(t) threw '" + what + "' for t = " + show(in), replay_args("dec", in));
        return;
    }
    if (asan)
        report("C13/" + FN_DEC + "/stop=" + std::string(STOP_NAME[st]) + "/asan-report",
               "AddressSanitizer reported a memory error during base64decode(t) for t = " + show(in) + " (leading alphabet run " + vf::str(k) + ", first other byte: " + STOP_NAME[st] + ")",
               replay_args("dec", in));
    if (!same(d, expected))
    {
        const char* kind = d.size() > expected.size() ? "output-too-long" : d.size() < expected.size() ? "output-too-short" : "wrong-bytes";
        // output-too-long = something behind the stop was decoded: keyed by WHAT stopped the run; otherwise keyed by the phase of the accumulator
        const std::string where = d.size() > expected.size() ? std::string("stop=") + STOP_NAME[st] : "run%4=" + vf::str(k % 4);
        report("C13/" + FN_DEC + "/" + where + "/" + kind,
               "base64decode(t) for t = " + show(in) + ": leading alphabet run has " + vf::str(k) + " characters (then: " + STOP_NAME[st] + "), so the result must be the " +
                   vf::str(expected.size()) + " whole bytes " + show(expected) + "; observed " + show(d) + diffnote(expected, d) + origin(in),
               replay_args("dec", in));
    }
    if (nontrivial && want_sample() && k > 0 && (idx % 13) >= 5)
    {
        S->job_samples++;
        S->proc_samples++;
        vf::sample(std::string(CHAR_IS_UNSIGNED ? "[-funsigned-char build] " : "") + "dec " + f.spec + " #" + vf::str(idx) + ": base64decode(" + show(in) + ") = " + show(d) + " [run " + vf::str(k) + ", stop " + STOP_NAME[st] + "]", 1 << 30);
    }
}

// ---------------------------------------------------------------------------------------------------------------------
// chunked execution in forked children

static std::string first_diag(int fd)
{
    // first informative line of what the dying child wrote to stderr (goes into the message only, never into a signature)
    char buf[4096];
    ssize_t n = pread(fd, buf, sizeof buf - 1, 0);
    if (n <= 0) return "";
    buf[n] = 0;
    std::string all(buf), best;
    std::size_t p = 0;
    while (p < all.size())
    {
        std::size_t q = all.find('\n', p);
        if (q == std::string::npos) q = all.size();
        std::string line = all.substr(p, q - p);
        if (line.find("Assertion") != std::string::npos || line.find("runtime error") != std::string::npos || line.find("ERROR: ") != std::string::npos ||
            line.find("terminate called") != std::string::npos)
        {
            best = line;
            break;
        }
        p = q + 1;
    }
    if (best.empty()) best = all.substr(0, all.find('\n'));
    // drop "==PID==" so that the text does not vary from run to run
    std::size_t a = best.find("==");
    if (a == 0) { std::size_t b = best.find("==", 2); if (b != std::string::npos) best = best.substr(b + 2); }
    if (best.size() > 300) best.resize(300);
    return best;
}

static const char* signame(int s)
{
    return s == SIGSEGV ? "SIGSEGV" : s == SIGABRT ? "SIGABRT" : s == SIGFPE ? "SIGFPE" : s == SIGBUS ? "SIGBUS" : s == SIGILL ? "SIGILL" : s == SIGALRM ? "timeout" :
           s == SIGKILL ? "SIGKILL" : "signal";
}

static void run_range(bool enc, const Family& f, unsigned long long lo, unsigned long long hi)
{
    unsigned long long at = lo;
    while (at < hi)
    {
        std::fflush(stdout);
        std::fflush(stderr);
        int efd = open("/tmp", O_TMPFILE | O_RDWR, 0600);
        S->phase = PH_NONE;
        S->cur = -1;
        S->chunk_done = 0;
        pid_t pid = fork();
        if (pid < 0) { std::perror("fork"); std::exit(2); }
        if (pid == 0)
        {
            if (efd >= 0) dup2(efd, 2);
            bytes in;
            in.reserve(300);
            for (unsigned long long i = at; i < hi; ++i)
            {
                // watchdog: 64 cases (<= 70000 bytes each) never take 60 s unless a call does not return; one power-of-two-window case (<= 2^28 bytes) never takes 900 s
                if (f.kind == 8 || f.kind == 9) alarm(900);
                else if (((i - at) & 0x3f) == 0) alarm(60);
                if (enc) enc_case(f, i, in); else dec_case(f, i, in);
            }
            alarm(0);
            std::fflush(stdout);
            S->chunk_done = 1;
            _exit(0);
        }
        S->forks++;
        int st = 0;
        while (waitpid(pid, &st, 0) < 0 && errno == EINTR) {}
        if (WIFEXITED(st) && WEXITSTATUS(st) == 0 && S->chunk_done) { if (efd >= 0) close(efd); return; }
        const long long cur = S->cur;
        const int ph = S->phase;
        if (ph == PH_NONE || cur < (long long)at || cur >= (long long)hi)
        {
            // not inside a library call: this is a harness failure, never a verdict
            std::fprintf(stderr, "C13 harness: child ended abnormally outside a library call (status 0x%x, phase %d, index %lld): %s\n", st, ph, cur, first_diag(efd).c_str());
            std::exit(2);
        }
        bytes in;
        f.make((unsigned long long)cur, in);
        g_fam = &f;
        g_idx = (unsigned long long)cur;
        // killed by a signal, or ended inside the call by a fatal sanitizer error / exit (ASan's Die() uses exitcode=0 here)
        const std::string how = WIFSIGNALED(st) ? signame(WTERMSIG(st)) : "a premature exit(" + vf::str(WEXITSTATUS(st)) + ")";
        const std::string diag = first_diag(efd);
        if (efd >= 0) close(efd);
        const std::string kind = !WIFSIGNALED(st) ? "fatal-exit" : how == "timeout" ? "timeout" : "crash-" + how;
        if (enc)
        {
            const int r = int(in.size() % 3), ct = content_class(in);
            S->enc_crashes[r][ct]++;
            S->enc_cases++;
            S->enc_class[r][ct]++;
            if (ct != CT_ASCII && !f.maybe_duplicate((unsigned long long)cur)) S->enc_nontrivial++;
            if ((long long)in.size() > S->max_len) S->max_len = (long long)in.size();
            report("C13/" + (ph == PH_ENCODE ? FN_ENC : FN_RT) + "/" + enc_class_name(in) + "/" + kind,
                   std::string(ph == PH_ENCODE ? "base64encode(s)" : "base64decode(base64encode(s))") + " did not return for s = " + show(in) + origin(in) + ": the process was ended by " + how +
                       (diag.empty() ? "" : " [" + diag + "]"),
                   replay_args("enc", in));
        }
        else
        {
            const std::size_t k = ref4648::leading_run(in);
            const int sc = stop_class(in, k);
            S->dec_crashes[sc]++;
            S->dec_cases++;
            S->dec_class[sc][k % 4]++;
            if (ref4648::encode(ref4648::spec_decode(in)) != in && !f.maybe_duplicate((unsigned long long)cur)) S->dec_nontrivial++;
            if ((long long)in.size() > S->max_len) S->max_len = (long long)in.size();
            report("C13/" + FN_DEC + "/stop=" + std::string(STOP_NAME[sc]) + "/" + kind,
                   "base64decode(t) did not return for t = " + show(in) + origin(in) + " (leading alphabet run " + vf::str(k) + ", first other byte: " + STOP_NAME[sc] +
                       "; expected result " + show(ref4648::spec_decode(in)) + "): the process was ended by " + how + (diag.empty() ? "" : " [" + diag + "]"),
                   replay_args("dec", in));
        }
        at = (unsigned long long)cur + 1;
    }
}

struct Job { bool enc; bool refdump; bool digest; Family f; unsigned long long lo, hi; };

// CRC-32 (IEEE 802.3, reflected, as zlib.crc32) - only used to let check.py compare long reference answers without shipping them as hex
static unsigned long crc32_of(const bytes& b)
{
    static unsigned long table[256];
    static bool have = false;
    if (!have)
    {
        for (unsigned long n = 0; n < 256; ++n)
        {
            unsigned long c = n;
            for (int k = 0; k < 8; ++k) c = (c & 1ul) ? 0xEDB88320ul ^ (c >> 1) : c >> 1;
            table[n] = c;
        }
        have = true;
    }
    unsigned long c = 0xFFFFFFFFul;
    for (unsigned char x : b) c = table[(c ^ x) & 0xFFul] ^ (c >> 8);
    return (c ^ 0xFFFFFFFFul) & 0xFFFFFFFFul;
}

// --refdump: print what the REFERENCE says (no library call) so that check.py can cross-check the reference itself
// against a second, unrelated implementation (python's base64 module) before any verdict is based on it
static void refdump(const Job& j)
{
    bytes in;
    for (unsigned long long i = j.lo; i < j.hi; ++i)
    {
        j.f.make(i, in);
        const bytes out = j.enc ? ref4648::encode(in) : ref4648::spec_decode(in);
        if (j.digest)
            std::printf("@@{\"t\":\"refd\",\"m\":\"%s\",\"f\":\"%s\",\"idx\":%llu,\"in\":%llu,\"icrc\":%lu,\"on\":%llu,\"ocrc\":%lu}\n", j.enc ? "enc" : "dec", j.f.spec.c_str(), i,
                        (unsigned long long)in.size(), crc32_of(in), (unsigned long long)out.size(), crc32_of(out));
        else
        std::printf("@@{\"t\":\"ref\",\"m\":\"%s\",\"i\":\"%s\",\"o\":\"%s\"}\n", j.enc ? "enc" : "dec", hex(in).c_str() + 1, hex(out).c_str() + 1);
    }
    vf::stat("reference_selfcheck_cases", (long long)(j.hi - j.lo));
}

int main(int argc, char** argv)
{
    unsigned long long chunk = 1ull << 20;
    long deadline = 0;
    std::vector<Job> jobs;
    for (int i = 1; i < argc; ++i)
    {
        std::string a = argv[i];
        if (a == "--chunk" && i + 1 < argc) chunk = std::strtoull(argv[++i], nullptr, 10);
        else if (a == "--deadline" && i + 1 < argc) deadline = std::atol(argv[++i]);
        else if (a == "--samples" && i + 1 < argc) g_samples = std::atoi(argv[++i]);
        else if ((a == "--job" || a == "--refdump" || a == "--refdigest") && i + 4 < argc)
        {
            Job j;
            j.digest = a == "--refdigest";
            j.refdump = a == "--refdump" || j.digest;
            std::string m = argv[i + 1];
            if (m != "enc" && m != "dec") { std::fprintf(stderr, "bad mode %s\n", m.c_str()); return 2; }
            j.enc = m == "enc";
            if (!j.f.parse(argv[i + 2])) { std::fprintf(stderr, "bad family %s\n", argv[i + 2]); return 2; }
            j.lo = std::strtoull(argv[i + 3], nullptr, 10);
            j.hi = std::strtoull(argv[i + 4], nullptr, 10);
            if (j.hi > j.f.count) j.hi = j.f.count;
            if (j.lo > j.hi) j.lo = j.hi;
            jobs.push_back(j);
            i += 4;
        }
        else { std::fprintf(stderr, "bad argument %s\n", a.c_str()); return 2; }
    }
    if (chunk == 0) chunk = 1;
    void* mem = mmap(nullptr, sizeof(Shared), PROT_READ | PROT_WRITE, MAP_SHARED | MAP_ANONYMOUS, -1, 0);
    if (mem == MAP_FAILED) { std::perror("mmap"); return 2; }
    std::memset(mem, 0, sizeof(Shared));
    S = static_cast<Shared*>(mem);

    const time_t t0 = time(nullptr);
    for (const Job& j : jobs)
    {
        if (j.refdump) { refdump(j); continue; }
        S->job_samples = 0;
        for (unsigned long long a = j.lo; a < j.hi; a += chunk)
        {
            if (deadline > 0 && time(nullptr) - t0 >= deadline)
            {
                vf::cap(std::string(j.enc ? "enc " : "dec ") + j.f.spec + " [" + vf::str(j.lo) + "," + vf::str(j.hi) + "): deadline reached, indices from " + vf::str(a) + " on were not enumerated");
                break;
            }
            unsigned long long b = a + chunk < j.hi ? a + chunk : j.hi;
            run_range(j.enc, j.f, a, b);
        }
    }

    long long total = S->enc_cases + S->dec_cases;
    vf::stat("evaluations", total);
    vf::stat("distinct_nontrivial", S->enc_nontrivial + S->dec_nontrivial);
    vf::stat("enc_cases", S->enc_cases);
    vf::stat("dec_cases", S->dec_cases);
    vf::stat("enc_nontrivial", S->enc_nontrivial);
    vf::stat("dec_nontrivial", S->dec_nontrivial);
    vf::stat("decoded_bytes_expected", S->decoded_bytes);
    vf::stat("forked_children", S->forks);
    vf::stat("violating_cases", S->violating_cases);
    vf::smax("max_input_length", S->max_len);
    for (int s = 0; s < N_STOP; ++s)
        for (int k = 0; k < 4; ++k)
            if (S->dec_class[s][k]) vf::stat(std::string("dec[stop=") + STOP_NAME[s] + ",run%4=" + vf::str(k) + "]", S->dec_class[s][k]);
    for (int r = 0; r < 3; ++r)
        for (int c = 0; c < N_CONTENT; ++c)
            if (S->enc_class[r][c]) vf::stat(std::string("enc[len%3=") + vf::str(r) + "," + CONTENT_NAME[c] + "]", S->enc_class[r][c]);
    if (S->skipped) vf::stat("not_executed_after_crash", S->skipped);   // check.py turns this into a cap: the run is then not exhaustive
    vf::done();
    return 0;
}
