// C13 call-time harness, translation unit linked BEFORE the one that includes xtl/xbase64.hpp (does not include the library).
#include "calltime.hpp"

namespace
{
    void early_handler() { c13ct::probe(c13ct::T_ATEXIT_FIRST_INIT); }
    c13ct::Probe probe_before(c13ct::T_INIT_TU_BEFORE, c13ct::T_DTOR_TU_BEFORE, early_handler);
}
