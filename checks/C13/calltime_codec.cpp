// C13 call-time harness: the ONLY translation unit that includes xtl/xbase64.hpp.  Whatever namespace-scope or static-member
// objects the header defines are initialised by this TU's static-initialisation function and destroyed with this TU's statics.
#include "calltime.hpp"

namespace
{
    // defined above the #include: its initialiser reaches the library through the wrappers declared in calltime.hpp
    c13ct::Probe probe_above_include(c13ct::T_INIT_SAME_TU_ABOVE, c13ct::T_DTOR_SAME_TU_ABOVE);
}

#include <xtl/xbase64.hpp>

namespace c13ct
{
    std::string lib_encode(const std::string& s) { return xtl::base64encode(s); }
    std::string lib_decode(const std::string& s) { return xtl::base64decode(s); }
}

namespace
{
    c13ct::Probe probe_below_include(c13ct::T_INIT_SAME_TU_BELOW, c13ct::T_DTOR_SAME_TU_BELOW);
}
