"""C13 base64 — exhaustive enumeration of byte strings through xtl::base64encode / base64decode against an independent
RFC 4648 reference and the property's "specification decode".  See NOTES.md in this directory."""
import base64
import os
import re
import time
import zlib

import vlib
import locales

LEVEL = "exploration"
HERE = os.path.dirname(os.path.abspath(__file__))
SRC = os.path.join(HERE, "harness.cpp")
# CALL-TIME harness: four translation units, linked in this order (the third is the only one that includes xtl/xbase64.hpp)
CT_SRCS = [os.path.join(HERE, f) for f in ("calltime_main.cpp", "calltime_before.cpp", "calltime_codec.cpp", "calltime_after.cpp")]
ASAN_ENV = {"ASAN_OPTIONS": vlib.ASAN_ENV + ":max_allocation_size_mb=256"}


TAGS = {"san": "c13", "fast": "c13-fast", "uchar": "c13-uchar", "ct": "c13-ct", "huge": "c13-huge"}
# HUGE part: lengths at which `int` / `unsigned` length arithmetic wraps; one process per list (peak memory: input + encoding + decoding
# of the largest length of the list, about 3.4 x that length)
HUGE_LENS = {
    "quick": [[2 ** 31]],
    "thorough": [[2 ** 31 - 1, 2 ** 31, 2 ** 31 + 1, 2 ** 31 + 2, 2 ** 31 + 3], [2 ** 32 - 1, 2 ** 32, 2 ** 32 + 1], [2 ** 32 + 2, 2 ** 32 + 3]],
}

# TARGET-ISA dimension: the predefined macros of the instruction-set options a client compiles with (__SSSE3__, __SSE4_2__, __AVX2__,
# __BMI2__, __AVX512*__ ...) are visible to a header-only library, which may select another code path under them.  The same
# harness is therefore built once per option set (all sanitizers on, like the main build) and a complete sub-plan is run in each
# build.  (name, compiler options, /proc/cpuinfo flags the machine must have to RUN the build; a set this CPU cannot run is a
# reported capability gap, not a pass).  "native" is what the repository's own test CMake uses.
ISA_SETS = [
    ("native", ["-march=native"], []),
    ("v3", ["-march=x86-64-v3"], ["avx2", "bmi2", "fma", "f16c", "movbe"]),
    ("bmi2", ["-mbmi", "-mbmi2"], ["bmi1", "bmi2"]),
    ("avx2", ["-mavx2"], ["avx2"]),
    ("sse42", ["-msse4.2", "-mpopcnt"], ["sse4_2", "popcnt"]),
    ("v2", ["-march=x86-64-v2"], ["sse4_2", "ssse3", "popcnt"]),
    ("ssse3", ["-mssse3"], ["ssse3"]),
    ("v4", ["-march=x86-64-v4"], ["avx512f", "avx512bw", "avx512vl", "avx512dq", "avx512cd"]),
    ("avx512vbmi", ["-mavx512f", "-mavx512bw", "-mavx512vl", "-mavx512vbmi"], ["avx512f", "avx512bw", "avx512vl", "avx512vbmi"]),
]
ISA_QUICK = ("native", "v3", "bmi2", "avx2", "sse42")
for _n, _f, _r in ISA_SETS:
    TAGS["isa:" + _n] = "c13-isa-" + _n


def cpu_flags():
    try:
        for line in open("/proc/cpuinfo"):
            if line.startswith("flags"):
                return set(line.split(":", 1)[1].split())
    except OSError:
        pass
    return set()


def isa_kinds(tier):
    """(runnable kinds of this tier, [names that this machine cannot run])"""
    have = cpu_flags()
    run_, gap = [], []
    for n, f, r in ISA_SETS:
        if tier != "thorough" and n not in ISA_QUICK:
            continue
        (run_ if all(x in have for x in r) else gap).append(n)
    return ["isa:" + n for n in run_], gap


def build(kind="san"):
    # _GLIBCXX_ASSERTIONS + -fsanitize=bounds: the property itself is about indexing (DESIGN.md section 2)
    if kind == "ct":
        # g++ links the objects in command-line order = the order of CT_SRCS; same flags as the main sanitizer build
        return vlib.compile_cxx(CT_SRCS[0], "c13ct", std="c++14", opt="-O2", san="asan", defines=["_GLIBCXX_ASSERTIONS"], extra_srcs=CT_SRCS[1:])
    if kind == "huge":
        # HUGE part (huge.cpp): lengths around 2^31 and 2^32, several GiB per string: no sanitizers
        return vlib.compile_cxx(os.path.join(HERE, "huge.cpp"), "c13huge", std="c++14", opt="-O2", san="none")
    if kind == "fast":
        # same source, no sanitizers: for the two 2^32 families of the thorough tier and the power-of-two windows above 2^21 (quick) / 2^23 (thorough)
        return vlib.compile_cxx(SRC, "c13fast", std="c++14", opt="-O2", san="none", defines=["_GLIBCXX_ASSERTIONS"])
    if kind.startswith("isa:"):
        flags = [f for n, f, r in ISA_SETS if n == kind[4:]][0]
        return vlib.compile_cxx(SRC, "c13isa-" + kind[4:], std="c++14", opt="-O2", san="asan", defines=["_GLIBCXX_ASSERTIONS"], flags=flags)
    if kind == "uchar":
        # CONFIGURATION: plain char unsigned (as on ARM/PowerPC Linux), all sanitizers on
        return vlib.compile_cxx(SRC, "c13uchar", std="c++14", opt="-O2", san="asan", defines=["_GLIBCXX_ASSERTIONS"], flags=["-funsigned-char"])
    return vlib.compile_cxx(SRC, "c13", std="c++14", opt="-O2", san="asan", defines=["_GLIBCXX_ASSERTIONS"])


TERMS = ("none", "pad", "nl", "high", "dash")


def sweep_jobs(lmax, a, b):
    """every length-sweep family restricted to the lengths a <= L < b: encode x 2 contents, decode x 2 contents x 5 terminators x (padded, and
    for L % 3 != 0 also with the padding removed)"""
    def nu(x):      # number of L in [1, x) with L % 3 != 0 = index of the first such L >= x in an unpadded family
        return 0 if x <= 0 else (x - 1) - (x - 1) // 3
    jobs = []
    for c in "cf":
        jobs.append(("--job", "enc", "sweep:%s:%d" % (c, lmax), str(a), str(b)))
        for t in TERMS:
            jobs.append(("--job", "dec", "sweepdec:%s:%s:p:%d" % (c, t, lmax), str(a), str(b)))
            # unpadded + "=" would repeat the padded string for L % 3 == 2, so the unpadded variant takes the other four terminators
            if nu(b) > nu(a) and t != "pad":
                jobs.append(("--job", "dec", "sweepdec:%s:%s:u:%d" % (c, t, lmax), str(nu(a)), str(nu(b))))
    return jobs


def sweep_plan(kind, lmax, n, sample_shard):
    """n processes; cost grows with L^2, so the L ranges are cut at lmax*sqrt(k/n) to give every process about the same work"""
    out = []
    cuts = sorted(set([0] + [int((lmax + 1) * (k / n) ** 0.5) for k in range(1, n)] + [lmax + 1]))
    for k in range(len(cuts) - 1):
        out.append((kind, sweep_jobs(lmax, cuts[k], cuts[k + 1]), 2 if k == sample_shard else 0))
    return out


WIN = 37        # lengths per power-of-two window: 2^k-4 .. 2^k+32 (harness.cpp: WIN_BELOW, WIN_ABOVE)


def pow2_enc_jobs(kind, contents, klo, khi, unit_k):
    """enc pow2:<c>:klo:khi, cut into index ranges of about 37 * 2^unit_k input bytes each (one harness process per range), largest lengths first"""
    out = []
    for c in contents:
        fam = "pow2:%s:%d:%d" % (c, klo, khi)
        small_hi = None
        for k in range(khi, klo - 1, -1):
            base = WIN * (k - klo)
            if k > unit_k:
                n = min(WIN, 2 ** (k - unit_k))
                for p in range(n):
                    out.append((kind, [("--job", "enc", fam, str(base + WIN * p // n), str(base + WIN * (p + 1) // n))], 0))
            else:
                small_hi = base + WIN
                break
        if small_hi:
            out.append((kind, [("--job", "enc", fam, "0", str(small_hi))], 0))
    return out


def pow2_dec_jobs(kind, klo, khi, per_k):
    """dec pow2dec: the complete product content x terminator x padded/unpadded over the windows klo..khi; one process per (content, padding[, k])"""
    out = []
    for c in "cf":
        for pu in "pu":
            ks = [(k, k) for k in range(khi, klo - 1, -1)] if per_k else [(klo, khi)]
            for a, b in ks:
                out.append((kind, [("--job", "dec", "pow2dec:%s:%s:%s:%d:%d" % (c, t, pu, a, b), "0", "1000000") for t in TERMS if not (pu == "u" and t == "pad")], 0))
    return out


def pow2_plan(tier):
    """POWER-OF-TWO WINDOWS (lengths 2^k-4 .. 2^k+32).  Below the stated k the windows lie inside the complete length sweep."""
    if tier == "thorough":
        return (pow2_enc_jobs("fast", "cf", 24, 26, 23) + pow2_enc_jobs("san", "cf", 17, 23, 21) + pow2_dec_jobs("san", 17, 22, True))
    return pow2_enc_jobs("fast", "c", 22, 24, 22) + pow2_enc_jobs("san", "cf", 15, 21, 20) + pow2_dec_jobs("san", 15, 17, False)


def calltime_plan(tier):
    """CALL TIME and AMBIENT PROCESS STATE (calling thread, LC_CTYPE locale): (input set, schedule list, number of shards); the lists are
    described at the top of calltime_main.cpp, every one is enumerated completely and no schedule occurs in two of them (verified in every run)"""
    if tier == "thorough":
        return [("wide", "le2", 16), ("small", "all", 16),
                ("small", "thr:4", 4), ("small", "thrmom:4", 8),
                ("widebytes", "loc1", 8), ("bytes", "loc2:all", 32), ("small", "locthr:3", 32), ("bytes", "locmom:2", 16)]
    return [("small", "le2", 2),
            ("small", "thr:3", 1), ("small", "thrmom:3", 3),
            ("bytes", "loc1", 1), ("bytes", "loc2:one", 4), ("small", "locthr:2", 8), ("bytes", "locmom:1", 2)]


def ct_env():
    """environment of the call-time / ambient harness: LOCPATH = the directory with the compiled 8-bit locales (locales.py)"""
    e = dict(ASAN_ENV)
    e["LOCPATH"] = locales.locale_dir()
    for k in ("LC_ALL", "LC_CTYPE", "LANG", "LANGUAGE"):      # the harness starts in the "C" locale whatever the caller's environment says
        e[k] = "C" if k != "LANGUAGE" else ""
    return e


def schedules_selfcheck(ctx, binary, env, tier):
    """every schedule list of the plan, printed (not run): no process description may occur twice, and the counts go into the evidence"""
    seen = {}
    per_list = {}
    for setname, lst, _n in calltime_plan(tier):
        recs = ctx.run_harness(binary, ["--calltime", setname, lst, "--print"], tag=TAGS["ct"], env=env)
        names = [r["v"] for r in recs if r.get("t") == "sched"]
        per_list[lst] = len(names)
        for v in names:
            if v in seen and not (lst in ("le2", "all") and seen[v] in ("le2", "all")):      # thorough runs the 68 le2 masks twice on purpose: with the wide and with the small input set
                raise vlib.HarnessError("C13 call-time plan: the schedule %s occurs in the lists %s and %s" % (v, seen[v], lst))
            seen[v] = lst
    for lst, n in per_list.items():
        ctx.smax("calltime_schedules[%s]" % lst, n)
    ctx.note("call-time / ambient-state plan: %s process descriptions, pairwise distinct (%s)" % (sum(per_list.values()), ", ".join("%s: %d" % kv for kv in per_list.items())))
    return per_list


def shards(mode, family, count, n):
    """n contiguous index ranges covering [0,count)"""
    out = []
    for k in range(n):
        lo, hi = count * k // n, count * (k + 1) // n
        if hi > lo:
            out.append([("--job", mode, family, str(lo), str(hi))])
    return out


def small(mode, fams):
    return [("--job", mode, f, "0", str(c)) for f, c in fams]


def plan(tier):
    """list of (binary kind, [job tuples], number of samples to print) — every family is enumerated completely.
    Inside one process the families are ordered shortest first, so the first report of a signature is a short input."""
    thorough = tier == "thorough"
    P = []
    # ---- POWER-OF-TWO WINDOWS first: they are the longest single jobs -------------------------------------------------------------------
    P += pow2_plan(tier)
    # ---- encode + round trip --------------------------------------------------------------------------------------
    P.append(("san", small("enc", [("full:0", 1), ("full:1", 256), ("full:2", 256 ** 2)]), 1))
    enc_b = [("enc6:5", 6 ** 5), ("long", 58 * 36 + 256), ("enc6:6", 6 ** 6)]
    if not thorough:
        enc_b.insert(0, ("enc6:4", 6 ** 4))        # thorough: subsumed by full:4
    else:
        enc_b += [("enc6:7", 6 ** 7), ("enc6:8", 6 ** 8)]
    P.append(("san", small("enc", enc_b), 1 if thorough else 2))
    P += [("san", j, int(k == 9)) for k, j in enumerate(shards("enc", "full:3", 256 ** 3, 16))]
    # ---- decode of arbitrary text ---------------------------------------------------------------------------------
    P.append(("san", small("dec", [("full:0", 1), ("full:1", 256), ("full:2", 256 ** 2)]), 1))
    dec_b = [("dec13:5", 13 ** 5)]
    if not thorough:
        dec_b.insert(0, ("dec13:4", 13 ** 4))      # thorough: subsumed by full:4
    for l in range(0, 5 if thorough else 4):
        for p in (16, 17, 18, 19):
            dec_b.append(("heap13:%d:%d" % (p, l), 13 ** l))
    P.append(("san", small("dec", dec_b), 1 if thorough else 2))
    P += [("san", j, int(k == 1)) for k, j in enumerate(shards("dec", "dec13:6", 13 ** 6, 4))]
    P += [("san", j, int(k == 4)) for k, j in enumerate(shards("dec", "full:3", 256 ** 3, 16))]
    # ---- LENGTH SWEEP: every length 0..LMAX x 2 contents (x 5 terminators x padded/unpadded for decode) ----------------
    P += sweep_plan("san", 70000 if thorough else 20000, 64 if thorough else 16, 1)
    # ---- CONFIGURATION: the same harness built with -funsigned-char -------------------------------------------------------
    P.append(("uchar", small("dec", [("full:0", 1), ("full:1", 256), ("full:2", 256 ** 2)]) + small("enc", [("full:0", 1), ("full:1", 256), ("full:2", 256 ** 2)]), 1))
    P.append(("uchar", small("dec", [(f, c) for f, c in dec_b] + ([("dec13:4", 13 ** 4)] if thorough else [])), 0))
    P += [("uchar", j, 0) for j in shards("dec", "dec13:6", 13 ** 6, 4)]
    P += sweep_plan("uchar", 3000, 1, -1)
    if thorough:
        P += [("uchar", j, 0) for j in shards("dec", "full:3", 256 ** 3, 16)]
        P += [("uchar", j, 0) for j in shards("dec", "dec13:7", 13 ** 7, 16)]
    # ---- CONFIGURATION: the same harness built for every target-ISA option set (see ISA_SETS) -----------------------------------
    for kind in isa_kinds(tier)[0]:
        P.append((kind, small("dec", [("full:0", 1), ("full:1", 256), ("full:2", 256 ** 2)]) + small("enc", [("full:0", 1), ("full:1", 256), ("full:2", 256 ** 2)]), 0))
        P.append((kind, small("dec", [(f, c) for f, c in dec_b]) + small("enc", [("enc6:5", 6 ** 5), ("long", 58 * 36 + 256)]), 0))
        P += sweep_plan(kind, 3000 if thorough else 1500, 1, -1)
        if thorough:
            P += [(kind, j, 0) for j in shards("dec", "dec13:6", 13 ** 6, 4)]
            P += [(kind, j, 0) for j in shards("enc", "full:3", 256 ** 3, 16)]
            P += [(kind, j, 0) for j in shards("dec", "full:3", 256 ** 3, 16)]
    if thorough:
        P += [("san", j, 0) for j in shards("dec", "dec13:7", 13 ** 7, 16)]
        P += [("san", j, 0) for j in shards("dec", "dec13:8", 13 ** 8, 96)]
        P += [("fast", j, int(k == 200)) for k, j in enumerate(shards("enc", "full:4", 256 ** 4, 256))]
        P += [("fast", j, int(k == 70)) for k, j in enumerate(shards("dec", "full:4", 256 ** 4, 256))]
    return P


def py_spec_decode(t):
    """the property's decode, written a second time on top of python's base64 module (cross-check of the C++ reference)"""
    run = re.match(rb"[A-Za-z0-9+/]*", t).group(0)
    k = len(run)
    whole, rest = run[:k - k % 4], run[k - k % 4:]
    out = base64.b64decode(whole, validate=True)
    if len(rest) == 2:      # 12 bits -> 1 whole byte
        v = [b"ABCDEFGHIJKLMNOPQRSTUVWXYZabcdefghijklmnopqrstuvwxyz0123456789+/".index(bytes([c])) for c in rest]
        out += bytes([(v[0] << 2) | (v[1] >> 4)])
    elif len(rest) == 3:    # 18 bits -> 2 whole bytes
        v = [b"ABCDEFGHIJKLMNOPQRSTUVWXYZabcdefghijklmnopqrstuvwxyz0123456789+/".index(bytes([c])) for c in rest]
        out += bytes([(v[0] << 2) | (v[1] >> 4), ((v[1] & 15) << 4) | (v[2] >> 2)])
    return out


def py_sweep_content(c, n):
    """the two length-sweep contents, written a second time"""
    if c == "c":
        return (bytes(range(256)) * (n // 256 + 1))[:n]
    return bytes([0xFF if n % 2 == 0 else 0x80]) * n


def pow2_len(family, idx):
    """plain length of case idx of a pow2 / pow2dec family"""
    f = family.split(":")
    dec = f[0] == "pow2dec"
    klo, khi = int(f[-2]), int(f[-1])
    lens = [L for k in range(klo, khi + 1) for L in range(2 ** k - 4, 2 ** k + 33) if not (dec and f[3] == "u" and L % 3 == 0)]
    return lens[idx]


def py_pow2_input(family, idx):
    """input string of case idx of a pow2 / pow2dec family, built without the harness"""
    f = family.split(":")
    dec = f[0] == "pow2dec"
    plain = py_sweep_content(f[1], pow2_len(family, idx))
    if not dec:
        return plain
    e = base64.b64encode(plain)
    if f[3] == "u":
        e = e.rstrip(b"=")
    return e + {"none": b"", "pad": b"=", "nl": b"\n", "high": b"\x80", "dash": b"-"}[f[2]]


def reference_selfcheck_long(ctx, binary, tier):
    """the reference on LONG strings (power-of-two windows): lengths and CRC-32 of its answers against python's base64 on inputs python builds itself"""
    kq = 26 if tier == "thorough" else 24
    kd = 22 if tier == "thorough" else 17
    want = [("enc", "pow2:c:24:24", 4), ("enc", "pow2:c:24:24", 13), ("enc", "pow2:f:24:24", 15), ("enc", "pow2:c:%d:%d" % (kq, kq), 36),
            ("dec", "pow2dec:c:high:u:%d:%d" % (kd, kd), 3), ("dec", "pow2dec:f:nl:p:%d:%d" % (kd, kd), 36), ("dec", "pow2dec:c:none:p:20:20", 6)]
    args = []
    for m, f, i in want:
        args += ["--refdigest", m, f, str(i), str(i + 1)]
    recs = [r for r in ctx.run_harness(binary, args, tag="c13-fast") if r.get("t") == "refd"]
    if len(recs) != len(want):
        raise vlib.HarnessError("reference self-check (long strings): %d of %d records" % (len(recs), len(want)))
    for (m, f, i), r in zip(want, recs):
        inp = py_pow2_input(f, i)
        out = base64.b64encode(inp) if m == "enc" else py_spec_decode(inp)
        got = (r["in"], r["icrc"], r["on"], r["ocrc"])
        exp = (len(inp), zlib.crc32(inp) & 0xFFFFFFFF, len(out), zlib.crc32(out) & 0xFFFFFFFF)
        if got != exp:
            raise vlib.HarnessError("reference self-check failed on the long string %s %s #%d: harness (len, crc32) of input/answer %r, python says %r" % (m, f, i, got, exp))
    ctx.note("reference self-check, long strings: refs/C13_rfc4648.hpp and the input generator agreed with python (own generator + base64 module; lengths and CRC-32) on %d strings of "
             "%d..%d bytes from the power-of-two windows" % (len(want), min(r["in"] for r in recs), max(r["in"] for r in recs)))


def reference_selfcheck(ctx, binary):
    """The oracle is only as good as refs/C13_rfc4648.hpp: compare it with python's base64 on every string of length <= 2,
    the long family, and (decode) every dec13 string of length <= 4 and the heap family.  A disagreement is a harness error."""
    args = []
    for f, c in [("full:0", 1), ("full:1", 256), ("full:2", 65536), ("long", 58 * 36 + 256), ("enc6:4", 6 ** 4)]:
        args += ["--refdump", "enc", f, "0", str(c)]
    for f, c in [("full:0", 1), ("full:1", 256), ("dec13:2", 13 ** 2), ("dec13:3", 13 ** 3), ("dec13:4", 13 ** 4), ("heap13:16:2", 169), ("heap13:17:2", 169),
                 ("heap13:18:2", 169), ("heap13:19:2", 169)]:
        args += ["--refdump", "dec", f, "0", str(c)]
    # long strings: the reference's own behaviour across group/quantum boundaries far from the start (length sweep families)
    for f, lo, hi in [("sweep:c:70000", 254, 259), ("sweep:f:70000", 4094, 4099), ("sweep:c:70000", 19998, 20001), ("sweep:f:70000", 65535, 65538)]:
        args += ["--refdump", "enc", f, str(lo), str(hi)]
    for f, lo, hi in [("sweepdec:c:none:p:70000", 766, 770), ("sweepdec:c:high:u:70000", 2000, 2004), ("sweepdec:f:dash:p:70000", 19998, 20001),
                      ("sweepdec:c:nl:u:70000", 43690, 43693), ("sweepdec:f:pad:p:70000", 65535, 65538)]:
        args += ["--refdump", "dec", f, str(lo), str(hi)]
    recs = ctx.run_harness(binary, args, tag="c13", env=ASAN_ENV)
    n = 0
    for r in recs:
        if r.get("t") != "ref":
            continue
        i, o = bytes.fromhex(r["i"]), bytes.fromhex(r["o"])
        want = base64.b64encode(i) if r["m"] == "enc" else py_spec_decode(i)
        if o != want:
            raise vlib.HarnessError("reference self-check failed: refs/C13_rfc4648.hpp %s(%r) = %r, python says %r" % (r["m"], i, o, want))
        n += 1
    vectors = {b"": b"", b"f": b"Zg==", b"fo": b"Zm8=", b"foo": b"Zm9v", b"foob": b"Zm9vYg==", b"fooba": b"Zm9vYmE=", b"foobar": b"Zm9vYmFy"}  # RFC 4648 section 10
    for k, v in vectors.items():
        if base64.b64encode(k) != v or py_spec_decode(v) != k:
            raise vlib.HarnessError("python base64 disagrees with the RFC 4648 test vectors")
    if n < 100000:
        raise vlib.HarnessError("reference self-check saw only %d records" % n)
    ctx.note("reference self-check: refs/C13_rfc4648.hpp agreed with python's base64 module on %d strings (encode: all of length <= 2, enc6^4, long family; "
             "spec decode: all dec13 strings of length <= 4, all single bytes, heap family; plus 33 length-sweep strings of 254..87388 bytes)" % n)


def run(ctx):
    thorough = ctx.tier == "thorough"
    bins = {}
    isa_run, isa_gap = isa_kinds(ctx.tier)
    kinds = ["san", "uchar", "fast", "ct", "huge"] + isa_run
    ctx.note("target-ISA builds of the harness (option sets whose predefined macros a header may test): %s; sets this machine cannot run (capability gap, not judged): %s"
             % (", ".join("%s = %s" % (k[4:], " ".join([f for n, f, r in ISA_SETS if n == k[4:]][0])) for k in isa_run), ", ".join(isa_gap) or "none"))
    for k, b in zip(kinds, vlib.parallel([(lambda k=k: build(k)) for k in kinds])):
        bins[k] = b
    ctenv = ct_env()
    vlib.parallel([lambda: reference_selfcheck(ctx, bins["san"]), lambda: reference_selfcheck_long(ctx, bins["fast"], ctx.tier), lambda: schedules_selfcheck(ctx, bins["ct"], ctenv, ctx.tier)])
    budget_end = time.time() + min(ctx.time_left() - 45, 2400 if thorough else 300)

    def job(kind, jobs, sampled):
        def f():
            left = budget_end - time.time()
            desc = " ".join("%s %s [%s,%s)" % (j[1], j[2], j[3], j[4]) for j in jobs)
            if left < 20:
                ctx.cap("not started before the deadline: " + desc)
                return
            args = ["--deadline", str(int(left))]
            if sampled:
                args += ["--samples", str(sampled)]
            for j in jobs:
                args += list(j)
            recs = ctx.run_harness(bins[kind], args, tag=TAGS[kind], env=ASAN_ENV, timeout=left + 300)
            n = sum(r["v"] for r in recs if r.get("t") == "stat" and r.get("k") == "evaluations")
            if kind == "uchar":
                ctx.stat("cases_in_unsigned_char_build", n)
            if kind.startswith("isa:"):
                ctx.stat("cases_in_target_isa_builds", n)
            if jobs and jobs[0][2].startswith("sweep"):
                ctx.stat("length_sweep_cases", n)
            if jobs and jobs[0][2].startswith("pow2"):
                ctx.stat("pow2_window_cases", n)
                if kind == "fast":
                    ctx.stat("pow2_window_cases_in_build_without_sanitizers", n)
        return f

    def ctjob(setname, masks, i, n):
        def f():
            if budget_end - time.time() < 20:
                ctx.cap("not started before the deadline: calltime %s %s shard %d/%d" % (setname, masks, i, n))
                return
            ctx.run_harness(bins["ct"], ["--calltime", setname, masks, "--shard", str(i), str(n)], tag=TAGS["ct"], env=ctenv, timeout=budget_end - time.time() + 300)
        return f

    def hugejob(lens):
        def f():
            left = budget_end - time.time()
            if left < 60:
                ctx.cap("not started before the deadline: huge lengths %s" % lens)
                return
            args = []
            for L in lens:
                args += ["--len", str(L)]
            ctx.run_harness(bins["huge"], args, tag=TAGS["huge"], timeout=left + 900)
        return f

    todo = [job(k, j, s) for k, j, s in plan(ctx.tier)]
    todo = [hugejob(l) for l in HUGE_LENS[ctx.tier]] + todo
    npow2 = len(pow2_plan(ctx.tier))
    ct = [ctjob(sn, ml, i, n) for sn, ml, n in calltime_plan(ctx.tier) for i in range(n)]
    vlib.parallel(todo[:npow2] + ct + todo[npow2:], workers=min(vlib.NCPU, 16))

    # the driver keeps the first violation per signature: make that the one with the shortest input (then the smallest)
    def size_key(v):
        a = v["args"]
        if len(a) < 5:
            return 0
        if a[2].startswith("pow2"):
            return 100 + pow2_len(a[2], int(a[3]))
        return (len(a[2]) - 5) // 2 if a[2].startswith("lit:x") else 100 + int(a[3])     # sweep cases: index ~ length, always > 64 bytes
    ctx.viols.sort(key=lambda v: (v["sig"], size_key(v), v["args"]))
    if ctx.stats.get("not_executed_after_crash", 0):
        ctx.cap("%d cases were NOT executed: in each harness process, after 2 inputs of one input class (e.g. 'first non-alphabet byte is >= 0x80') had killed the child, "
                "the remaining inputs of that class were skipped, and a call-time process that died inside a library call did not run its remaining cases "
                "(see the crash violations); the run is therefore not exhaustive" % ctx.stats["not_executed_after_crash"])
    t = thorough
    ctx.rule = (
        "Each case is one input string pushed through the real xtl code in a forked child. "
        "HUGE lengths (huge.cpp, -O2 without sanitizers): one input of exactly 2^31 bytes (thorough: every length 2^31-1..2^31+3 and 2^32-1..2^32+3): base64encode compared character by "
        "character with a streaming RFC 4648 encoder, base64decode of the padded and of the unpadded reference text compared with the input; a length the machine cannot allocate is a reported cap. "
        "TARGET-ISA builds: the harness is additionally built once per instruction-set option set a client may compile with (-march=native, x86-64-v2/v3/v4, -mbmi2, -mavx2, -msse4.2, "
        "-mssse3, AVX-512 VBMI; quick: native, v3, bmi2, avx2, sse4.2) and in each build ALL strings of length 0..2 (encode and decode), the structured decode and encode families and "
        "every length 0..1500 (thorough 3000; thorough also all 3-byte strings) are enumerated against the same references: a header-only library sees __BMI2__/__AVX2__/... and may "
        "take another path under them. "
        "ENCODE+ROUND-TRIP cases (s -> base64encode(s) compared byte for byte with an independent RFC 4648 encoder, then base64decode of that text compared with s): "
        "ALL strings of length 0..%s over all 256 byte values; all strings of length %s over {00,01,7F,80,FF,'A'}; 2088 alternating strings a,b,a,b.. of every length 7..64 "
        "over the same 6x6 bytes and the 256 rotations of 00..FF. "
        "DECODE cases (t -> base64decode(t) compared with the specification decode: longest leading run of alphabet characters, floor(6k/8) whole bytes): "
        "ALL strings of length 0..%s over all 256 byte values; all strings of length %s over {A,z,9,+,/,=,space,\\n,-,_,00,80,FF}; and 16..19 valid characters followed by every "
        "string of length 0..%s over those 13 bytes (input in an exact-size heap block). "
        "LENGTH SWEEP: every length L in 0..%d with two contents per length (counting pattern 00 01 .. FF 00 ..; all FF for even L / all 80 for odd L): encode + RFC comparison + round trip, "
        "and decode of the reference encoding of each of those strings followed by each of the terminators {'', '=', '\\n', '\\x80', '-'}, once padded and (for L %% 3 != 0, terminators other than '=') once with the '=' removed "
        "- the complete length x content x terminator x padding product. Sweep strings of at most 256 plain bytes can coincide with a short-string case and are executed but not counted in distinct_nontrivial. "
        "CONFIGURATION: the harness is built a second time with -funsigned-char and, in that build, runs all strings of length 0..%s over all 256 bytes (decode, and 0..2 encode), the 13-byte-alphabet "
        "family of length %s, the 16..19-character-prefix family and the same sweep product for L in 0..3000; a case is (configuration, operation, input). "
        "POWER-OF-TWO WINDOWS: the same two contents at every length 2^k-4 .. 2^k+32 (37 consecutive lengths: every residue mod 3 and mod 12 on both sides of the power) for every k in %s: "
        "encode + RFC comparison (exact length, padding, content) + round trip, k <= %d with both contents under AddressSanitizer, k = %s %s in a build without sanitizers (_GLIBCXX_ASSERTIONS kept); "
        "and for k in %s the decode product (reference encoding x 5 terminators x padded / '=' removed) under AddressSanitizer; smaller powers of two lie inside the complete length sweep. "
        "CALL TIME: a four-translation-unit program (only one TU includes xbase64.hpp; one TU is linked before it, one after it) calls the library at 11 moments of a process' life: "
        "static initialisers (TU linked before / same TU above the #include / below it / TU linked after), main(), an atexit handler registered in main(), the four static destructors, and an atexit handler "
        "registered by the first initialiser (after all static destructors). A process is a SUBSET of those moments (the library is untouched at the others, so each moment is met as the first call "
        "of the process and after earlier calls): %s; at every selected moment the whole input set runs (%s). "
        "A case there is (subset, moment, operation, input). "
        "AMBIENT PROCESS STATE (same harness; a process is in general a SCHEDULE of steps (call time, thread, locale action), a subset of moments being the special case 'main thread, locale untouched'; "
        "the steps run strictly one after the other - handed over and awaited - so the part is deterministic): "
        "CALLING THREAD - threads M (main), A, B (persistent workers, created at their first step and kept alive, so thread_local state survives between steps), F (a fresh thread per step, joined after it): "
        "%s. "
        "LC_CTYPE LOCALE - %d locales: C, POSIX, C.utf8 and 11 eight-bit locales compiled offline with localedef from definitions written by the check (ISO-8859-1, KOI8-R and ISO-8859-9/Turkish-case layouts, and eight "
        "uniform ones in which EVERY byte 80..FF is upper / lower / alpha / digit / space / punct / cntrl / xdigit), installed in 4 ways (setlocale(LC_CTYPE), setlocale(LC_ALL), std::locale::global, uselocale for the calling thread only): "
        "%s. "
        "The locale steps use the input set 'bytes' = the small set + the POSITION families: decode <k valid characters> b [YmFy] for EVERY byte value b, k in 0..5 and 16..19, and encode <p bytes of foo> b <q bytes of bar> "
        "for every byte value b, p, q in 0..2 (10636 cases%s). Every step records a fingerprint of the <cctype> tables (isupper..isxdigit, toupper, tolower of all 256 values) its thread saw; a locale that was "
        "not installed exactly as compiled is a harness error, and reports name the tables the calling thread really saw. No schedule occurs in two lists (verified in every run); a case is (schedule, step, operation, input). "
        "The families are disjoint by length/content, so every case is distinct by construction; index = the string as a number in base |alphabet| (sweep: the length). "
        "distinct_nontrivial counts, as measured by the harness, the encode cases whose input contains a NUL or a byte >= 0x80 plus the decode cases whose input is NOT the canonical "
        "RFC 4648 encoding of any byte string (dirty, truncated, wrongly padded or non-zero trailing bits); the dec[...] / enc[...] counters break the cases down by "
        "first-stop class x run length mod 4 and by length mod 3 x content."
        % ("4" if t else "3", "5..8" if t else "4..6", "4" if t else "3", "5..8" if t else "4..6", "4" if t else "3",
           70000 if t else 20000, "3" if t else "2", "4..7" if t else "4..6",
           "17..26" if t else "15..24", 23 if t else 21, "24..26" if t else "22..24", "with both contents" if t else "with the counting content", "17..22" if t else "15..17",
           "all 2048 subsets with the small input set and every subset of at most two moments plus the full set (68) with the wide input set" if t else "every subset of at most two moments plus the full set (68 processes)",
           "small set: encode all strings of length 0..1 over all 256 bytes, all of length 2..3 over {00,01,7F,80,FF,'A'}, 24 heap-resident strings of 16..27 bytes; decode all strings of length 0..1 over all 256 bytes, "
           "all of length 2..3 over the 13-byte alphabet, 16..19 valid characters + every tail of length 0..1 - 3212 cases" +
           ("; wide set: additionally all strings of length 2 over all 256 bytes (encode and decode), encode length 4 over the 6 bytes, decode length 4 over the 13 bytes - 164141 cases" if t else ""),
           ("every history of 1..4 steps over {M,A,B,F} in main() (339), and every schedule of 1..2 steps over the 11 call times x {M,A,B,F} that is neither all-main-thread nor all-in-main() (1005), small input set" if t else
            "every history of 1..3 steps over {M,A,B,F} in main() (83 processes; first thread to call vs later threads, main vs spawned, persistent vs fresh), and every schedule of 1..2 steps over the 11 call times x {M,A,F} "
            "that is neither all-main-thread nor all-in-main() (540), small input set"),
           len(locales.NAMES),
           ("one step in main(): every locale x method (56 processes, input set 'widebytes' = wide + position families); two locale-installing steps in main(): every ordered pair of (locale, method) (3136); "
            "thread x locale: every history of 1..3 steps over {M,A,F} in main() in which exactly one step installs a locale (any locale x method) and either runs the input set too or only installs it (11200, small input set); "
            "call time x locale: at each of the other 10 call times one step installing each locale with setlocale(LC_ALL), and for every pair t1 < t2 'install only at t1, input set at t2' (910)" if t else
            "one step in main(): every locale x method (56 processes); two locale-installing steps in main(): every ordered pair of locales with setlocale(LC_ALL) (196: a table cached under one locale and used under another); "
            "thread x locale: every history of 1..2 steps over {M,A,F} in main() in which exactly one step installs a locale (any locale x method) and either runs the input set too or only installs it (2128, small input set); "
            "call time x locale: at each of the other 10 call times one step installing each locale with setlocale(LC_ALL) (140)"),
           "; 'widebytes' = the wide set + those, 171565 cases" if t else ""))
    ctx.assumptions += [
        "refs/C13_rfc4648.hpp (range arithmetic, 3-byte groups, bit-by-bit spec decode; no table, no accumulator) is the reference; it is cross-checked against python's base64 module on >100000 strings in every run",
        "strings longer than %s bytes are covered only by the stated structured families (6- and 13-byte alphabets up to length %s, alternating strings up to 64, rotations of 00..FF, 16..19-character valid prefixes), not exhaustively"
        % ("4" if t else "3", "8" if t else "6"),
        "out-of-table / out-of-input indexing is observed through _GLIBCXX_ASSERTIONS, -fsanitize=bounds and AddressSanitizer; inputs shorter than 16 bytes live inside the std::string object (small-string buffer), so an over-read of the INPUT is only observable for the heap-resident families (length >= 16)",
        "only the behaviour the statement fixes is judged: returned strings, termination, memory safety. Signed-overflow/shift UB of the int accumulators (val << 6, val << 8) is deliberately not judged (DESIGN.md section 2)",
        "plain char: signed (platform default, every family) and unsigned (-funsigned-char build, the decode families listed in the rule); other ABI differences of a real unsigned-char platform are not exercised",
        "lengths above %d bytes are exercised only inside the power-of-two windows 2^k-4 .. 2^k+32 (k up to %d, i.e. at most %d bytes); between %s bytes and the largest window only the two sweep contents per length are; "
        "lengths above %d bytes are not exercised" % (70000 if t else 20000, 26 if t else 24, 2 ** (26 if t else 24) + 32, "5" if t else "4", 2 ** (26 if t else 24) + 32),
        "power-of-two windows for k >= %d run in a build of the same harness WITHOUT AddressSanitizer/UBSan (with _GLIBCXX_ASSERTIONS: std::string::operator[] and std::array::operator[] are range checked), "
        "so an out-of-bounds access that neither trips such an assertion nor changes the returned string would go unnoticed there" % (24 if t else 22),
        "call time: g++ 12 / GNU ld run static initialisers in link order and destructors/atexit handlers in reverse order of registration; the harness records the actual order of the 11 moments in every process and "
        "refuses to judge (harness error) if it is not the assumed one. Dynamic libraries and other compilers' initialisation orders are not exercised; the call-time / ambient-state part runs in the "
        "signed-char build only",
        "calling thread: the steps of a process never overlap in time (each is handed to its thread and awaited), so data races between CONCURRENT calls are not examined - the statement is about values, and a "
        "deterministic check cannot judge a race; what is examined is everything that depends on thread IDENTITY and call order (thread_local state, process-wide flags, first-caller initialisation). "
        "At most %d steps and 3 distinct long-lived threads per process; worker threads are created at their first step, not in advance" % (4 if t else 3),
        "LC_CTYPE locale: the 8-bit locales are compiled in every fresh build directory with glibc's localedef from sources the check writes (identity charmap, LC_CTYPE only) and selected through LOCPATH; "
        "no multi-byte locale other than C.utf8 exists in the sandbox, and LC_CTYPE is the only category a byte-string codec could plausibly consult (LC_ALL / std::locale::global install the others with localedef's defaults). "
        "g++ expands a direct isdigit() call inline, so the 'digit' class of a locale is invisible to optimised code; the harness reads the tables through function pointers and reports what the thread saw, including "
        "glibc's mixed state (a thread that existed before another thread's setlocale keeps the old classification but sees the new case mapping)",
    ]
    if t:
        ctx.assumptions.append("the two 2^32 families (all 4-byte strings, encode and decode) run in a build of the same harness WITHOUT AddressSanitizer/UBSan (still with _GLIBCXX_ASSERTIONS); every other family except the largest power-of-two windows runs with them")
    ctx.stats.setdefault("evaluations", 0)
    ctx.stats.setdefault("distinct_nontrivial", 0)


def replay(ctx, rec):
    kind = {v: k for k, v in TAGS.items()}.get(rec.get("harness"), "san")
    ctx.run_harness(build(kind), rec["args"], tag=TAGS[kind], env=ct_env() if kind == "ct" else ASAN_ENV)
