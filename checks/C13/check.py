"""C13 base64 — exhaustive enumeration of byte strings through xtl::base64encode / base64decode against an independent
RFC 4648 reference and the property's "specification decode".  See NOTES.md in this directory."""
import base64
import os
import re
import time

import vlib

LEVEL = "exploration"
HERE = os.path.dirname(os.path.abspath(__file__))
SRC = os.path.join(HERE, "harness.cpp")
ASAN_ENV = {"ASAN_OPTIONS": vlib.ASAN_ENV + ":max_allocation_size_mb=256"}


TAGS = {"san": "c13", "fast": "c13-fast", "uchar": "c13-uchar"}


def build(kind="san"):
    # _GLIBCXX_ASSERTIONS + -fsanitize=bounds: the property itself is about indexing (DESIGN.md section 2)
    if kind == "fast":
        # same source, no sanitizers: only for the two 2^32 families of the thorough tier
        return vlib.compile_cxx(SRC, "c13fast", std="c++14", opt="-O2", san="none", defines=["_GLIBCXX_ASSERTIONS"])
    if kind == "uchar":
        # CONFIGURATION: plain char unsigned (as on ARM/PowerPC Linux), all sanitizers on
        return vlib.compile_cxx(SRC, "c13uchar", std="c++14", opt="-O2", san="asan", defines=["_GLIBCXX_ASSERTIONS"], flags=["-funsigned-char"])
    return vlib.compile_cxx(SRC, "c13", std="c++14", opt="-O2", san="asan", defines=["_GLIBCXX_ASSERTIONS"])


TERMS = ("none", "pad", "nl", "high", "dash")


def sweep_jobs(lmax, a, b):
    """every length-sweep family restricted to the lengths a <= L < b: encode x 2 contents, decode x 2 contents x 5 terminators x (padded, and
    for L % 3 != 0 also with the padding removed)"""
    def nu(x):      # number of L in [1, x) with L % 3 != 0 = index of the first such L >= x in an unpadded family
        return 0 if x <= 0 else (x - 1) - (x - 1) // 3
    jobs = []
    for c in "cf":
        jobs.append(("--job", "enc", "sweep:%s:%d" % (c, lmax), str(a), str(b)))
        for t in TERMS:
            jobs.append(("--job", "dec", "sweepdec:%s:%s:p:%d" % (c, t, lmax), str(a), str(b)))
            # unpadded + "=" would repeat the padded string for L % 3 == 2, so the unpadded variant takes the other four terminators
            if nu(b) > nu(a) and t != "pad":
                jobs.append(("--job", "dec", "sweepdec:%s:%s:u:%d" % (c, t, lmax), str(nu(a)), str(nu(b))))
    return jobs


def sweep_plan(kind, lmax, n, sample_shard):
    """n processes; cost grows with L^2, so the L ranges are cut at lmax*sqrt(k/n) to give every process about the same work"""
    out = []
    cuts = sorted(set([0] + [int((lmax + 1) * (k / n) ** 0.5) for k in range(1, n)] + [lmax + 1]))
    for k in range(len(cuts) - 1):
        out.append((kind, sweep_jobs(lmax, cuts[k], cuts[k + 1]), 2 if k == sample_shard else 0))
    return out


def shards(mode, family, count, n):
    """n contiguous index ranges covering [0,count)"""
    out = []
    for k in range(n):
        lo, hi = count * k // n, count * (k + 1) // n
        if hi > lo:
            out.append([("--job", mode, family, str(lo), str(hi))])
    return out


def small(mode, fams):
    return [("--job", mode, f, "0", str(c)) for f, c in fams]


def plan(tier):
    """list of (binary kind, [job tuples], number of samples to print) — every family is enumerated completely.
    Inside one process the families are ordered shortest first, so the first report of a signature is a short input."""
    thorough = tier == "thorough"
    P = []
    # ---- encode + round trip --------------------------------------------------------------------------------------
    P.append(("san", small("enc", [("full:0", 1), ("full:1", 256), ("full:2", 256 ** 2)]), 1))
    enc_b = [("enc6:5", 6 ** 5), ("long", 58 * 36 + 256), ("enc6:6", 6 ** 6)]
    if not thorough:
        enc_b.insert(0, ("enc6:4", 6 ** 4))        # thorough: subsumed by full:4
    else:
        enc_b += [("enc6:7", 6 ** 7), ("enc6:8", 6 ** 8)]
    P.append(("san", small("enc", enc_b), 1 if thorough else 2))
    P += [("san", j, int(k == 9)) for k, j in enumerate(shards("enc", "full:3", 256 ** 3, 16))]
    # ---- decode of arbitrary text ---------------------------------------------------------------------------------
    P.append(("san", small("dec", [("full:0", 1), ("full:1", 256), ("full:2", 256 ** 2)]), 1))
    dec_b = [("dec13:5", 13 ** 5)]
    if not thorough:
        dec_b.insert(0, ("dec13:4", 13 ** 4))      # thorough: subsumed by full:4
    for l in range(0, 5 if thorough else 4):
        for p in (16, 17, 18, 19):
            dec_b.append(("heap13:%d:%d" % (p, l), 13 ** l))
    P.append(("san", small("dec", dec_b), 1 if thorough else 2))
    P += [("san", j, int(k == 1)) for k, j in enumerate(shards("dec", "dec13:6", 13 ** 6, 4))]
    P += [("san", j, int(k == 4)) for k, j in enumerate(shards("dec", "full:3", 256 ** 3, 16))]
    # ---- LENGTH SWEEP: every length 0..LMAX x 2 contents (x 5 terminators x padded/unpadded for decode) ----------------
    P += sweep_plan("san", 70000 if thorough else 20000, 64 if thorough else 16, 1)
    # ---- CONFIGURATION: the same harness built with -funsigned-char -------------------------------------------------------
    P.append(("uchar", small("dec", [("full:0", 1), ("full:1", 256), ("full:2", 256 ** 2)]) + small("enc", [("full:0", 1), ("full:1", 256), ("full:2", 256 ** 2)]), 1))
    P.append(("uchar", small("dec", [(f, c) for f, c in dec_b] + ([("dec13:4", 13 ** 4)] if thorough else [])), 0))
    P += [("uchar", j, 0) for j in shards("dec", "dec13:6", 13 ** 6, 4)]
    P += sweep_plan("uchar", 3000, 1, -1)
    if thorough:
        P += [("uchar", j, 0) for j in shards("dec", "full:3", 256 ** 3, 16)]
        P += [("uchar", j, 0) for j in shards("dec", "dec13:7", 13 ** 7, 16)]
    if thorough:
        P += [("san", j, 0) for j in shards("dec", "dec13:7", 13 ** 7, 16)]
        P += [("san", j, 0) for j in shards("dec", "dec13:8", 13 ** 8, 96)]
        P += [("fast", j, int(k == 200)) for k, j in enumerate(shards("enc", "full:4", 256 ** 4, 256))]
        P += [("fast", j, int(k == 70)) for k, j in enumerate(shards("dec", "full:4", 256 ** 4, 256))]
    return P


def py_spec_decode(t):
    """the property's decode, written a second time on top of python's base64 module (cross-check of the C++ reference)"""
    run = re.match(rb"[A-Za-z0-9+/]*", t).group(0)
    k = len(run)
    whole, rest = run[:k - k % 4], run[k - k % 4:]
    out = base64.b64decode(whole, validate=True)
    if len(rest) == 2:      # 12 bits -> 1 whole byte
        v = [b"ABCDEFGHIJKLMNOPQRSTUVWXYZabcdefghijklmnopqrstuvwxyz0123456789+/".index(bytes([c])) for c in rest]
        out += bytes([(v[0] << 2) | (v[1] >> 4)])
    elif len(rest) == 3:    # 18 bits -> 2 whole bytes
        v = [b"ABCDEFGHIJKLMNOPQRSTUVWXYZabcdefghijklmnopqrstuvwxyz0123456789+/".index(bytes([c])) for c in rest]
        out += bytes([(v[0] << 2) | (v[1] >> 4), ((v[1] & 15) << 4) | (v[2] >> 2)])
    return out


def reference_selfcheck(ctx, binary):
    """The oracle is only as good as refs/C13_rfc4648.hpp: compare it with python's base64 on every string of length <= 2,
    the long family, and (decode) every dec13 string of length <= 4 and the heap family.  A disagreement is a harness error."""
    args = []
    for f, c in [("full:0", 1), ("full:1", 256), ("full:2", 65536), ("long", 58 * 36 + 256), ("enc6:4", 6 ** 4)]:
        args += ["--refdump", "enc", f, "0", str(c)]
    for f, c in [("full:0", 1), ("full:1", 256), ("dec13:2", 13 ** 2), ("dec13:3", 13 ** 3), ("dec13:4", 13 ** 4), ("heap13:16:2", 169), ("heap13:17:2", 169),
                 ("heap13:18:2", 169), ("heap13:19:2", 169)]:
        args += ["--refdump", "dec", f, "0", str(c)]
    # long strings: the reference's own behaviour across group/quantum boundaries far from the start (length sweep families)
    for f, lo, hi in [("sweep:c:70000", 254, 259), ("sweep:f:70000", 4094, 4099), ("sweep:c:70000", 19998, 20001), ("sweep:f:70000", 65535, 65538)]:
        args += ["--refdump", "enc", f, str(lo), str(hi)]
    for f, lo, hi in [("sweepdec:c:none:p:70000", 766, 770), ("sweepdec:c:high:u:70000", 2000, 2004), ("sweepdec:f:dash:p:70000", 19998, 20001),
                      ("sweepdec:c:nl:u:70000", 43690, 43693), ("sweepdec:f:pad:p:70000", 65535, 65538)]:
        args += ["--refdump", "dec", f, str(lo), str(hi)]
    recs = ctx.run_harness(binary, args, tag="c13", env=ASAN_ENV)
    n = 0
    for r in recs:
        if r.get("t") != "ref":
            continue
        i, o = bytes.fromhex(r["i"]), bytes.fromhex(r["o"])
        want = base64.b64encode(i) if r["m"] == "enc" else py_spec_decode(i)
        if o != want:
            raise vlib.HarnessError("reference self-check failed: refs/C13_rfc4648.hpp %s(%r) = %r, python says %r" % (r["m"], i, o, want))
        n += 1
    vectors = {b"": b"", b"f": b"Zg==", b"fo": b"Zm8=", b"foo": b"Zm9v", b"foob": b"Zm9vYg==", b"fooba": b"Zm9vYmE=", b"foobar": b"Zm9vYmFy"}  # RFC 4648 section 10
    for k, v in vectors.items():
        if base64.b64encode(k) != v or py_spec_decode(v) != k:
            raise vlib.HarnessError("python base64 disagrees with the RFC 4648 test vectors")
    if n < 100000:
        raise vlib.HarnessError("reference self-check saw only %d records" % n)
    ctx.note("reference self-check: refs/C13_rfc4648.hpp agreed with python's base64 module on %d strings (encode: all of length <= 2, enc6^4, long family; "
             "spec decode: all dec13 strings of length <= 4, all single bytes, heap family; plus 33 length-sweep strings of 254..87388 bytes)" % n)


def run(ctx):
    thorough = ctx.tier == "thorough"
    bins = {}
    kinds = ["san", "uchar"] + (["fast"] if thorough else [])
    for k, b in zip(kinds, vlib.parallel([(lambda k=k: build(k)) for k in kinds])):
        bins[k] = b
    reference_selfcheck(ctx, bins["san"])
    budget_end = time.time() + min(ctx.time_left() - 45, 1700 if thorough else 300)

    def job(kind, jobs, sampled):
        def f():
            left = budget_end - time.time()
            desc = " ".join("%s %s [%s,%s)" % (j[1], j[2], j[3], j[4]) for j in jobs)
            if left < 20:
                ctx.cap("not started before the deadline: " + desc)
                return
            args = ["--deadline", str(int(left))]
            if sampled:
                args += ["--samples", str(sampled)]
            for j in jobs:
                args += list(j)
            recs = ctx.run_harness(bins[kind], args, tag=TAGS[kind], env=ASAN_ENV, timeout=left + 300)
            n = sum(r["v"] for r in recs if r.get("t") == "stat" and r.get("k") == "evaluations")
            if kind == "uchar":
                ctx.stat("cases_in_unsigned_char_build", n)
            if jobs and jobs[0][2].startswith("sweep"):
                ctx.stat("length_sweep_cases", n)
        return f

    vlib.parallel([job(k, j, s) for k, j, s in plan(ctx.tier)], workers=min(vlib.NCPU, 16))

    # the driver keeps the first violation per signature: make that the one with the shortest input (then the smallest)
    def size_key(v):
        a = v["args"]
        if len(a) < 5:
            return 0
        return (len(a[2]) - 5) // 2 if a[2].startswith("lit:x") else 100 + int(a[3])     # sweep cases: index ~ length, always > 64 bytes
    ctx.viols.sort(key=lambda v: (v["sig"], size_key(v), v["args"]))
    if ctx.stats.get("not_executed_after_crash", 0):
        ctx.cap("%d cases were NOT executed: in each harness process, after 2 inputs of one input class (e.g. 'first non-alphabet byte is >= 0x80') had killed the child, "
                "the remaining inputs of that class were skipped (see the crash violations); the run is therefore not exhaustive" % ctx.stats["not_executed_after_crash"])
    t = thorough
    ctx.rule = (
        "Each case is one input string pushed through the real xtl code in a forked child. "
        "ENCODE+ROUND-TRIP cases (s -> base64encode(s) compared byte for byte with an independent RFC 4648 encoder, then base64decode of that text compared with s): "
        "ALL strings of length 0..%s over all 256 byte values; all strings of length %s over {00,01,7F,80,FF,'A'}; 2088 alternating strings a,b,a,b.. of every length 7..64 "
        "over the same 6x6 bytes and the 256 rotations of 00..FF. "
        "DECODE cases (t -> base64decode(t) compared with the specification decode: longest leading run of alphabet characters, floor(6k/8) whole bytes): "
        "ALL strings of length 0..%s over all 256 byte values; all strings of length %s over {A,z,9,+,/,=,space,\\n,-,_,00,80,FF}; and 16..19 valid characters followed by every "
        "string of length 0..%s over those 13 bytes (input in an exact-size heap block). "
        "LENGTH SWEEP: every length L in 0..%d with two contents per length (counting pattern 00 01 .. FF 00 ..; all FF for even L / all 80 for odd L): encode + RFC comparison + round trip, "
        "and decode of the reference encoding of each of those strings followed by each of the terminators {'', '=', '\\n', '\\x80', '-'}, once padded and (for L %% 3 != 0, terminators other than '=') once with the '=' removed "
        "- the complete length x content x terminator x padding product. Sweep strings of at most 256 plain bytes can coincide with a short-string case and are executed but not counted in distinct_nontrivial. "
        "CONFIGURATION: the harness is built a second time with -funsigned-char and, in that build, runs all strings of length 0..%s over all 256 bytes (decode, and 0..2 encode), the 13-byte-alphabet "
        "family of length %s, the 16..19-character-prefix family and the same sweep product for L in 0..3000; a case is (configuration, operation, input). "
        "The families are disjoint by length/content, so every case is distinct by construction; index = the string as a number in base |alphabet| (sweep: the length). "
        "distinct_nontrivial counts, as measured by the harness, the encode cases whose input contains a NUL or a byte >= 0x80 plus the decode cases whose input is NOT the canonical "
        "RFC 4648 encoding of any byte string (dirty, truncated, wrongly padded or non-zero trailing bits); the dec[...] / enc[...] counters break the cases down by "
        "first-stop class x run length mod 4 and by length mod 3 x content."
        % ("4" if t else "3", "5..8" if t else "4..6", "4" if t else "3", "5..8" if t else "4..6", "4" if t else "3",
           70000 if t else 20000, "3" if t else "2", "4..7" if t else "4..6"))
    ctx.assumptions += [
        "refs/C13_rfc4648.hpp (range arithmetic, 3-byte groups, bit-by-bit spec decode; no table, no accumulator) is the reference; it is cross-checked against python's base64 module on >100000 strings in every run",
        "strings longer than %s bytes are covered only by the stated structured families (6- and 13-byte alphabets up to length %s, alternating strings up to 64, rotations of 00..FF, 16..19-character valid prefixes), not exhaustively"
        % ("4" if t else "3", "8" if t else "6"),
        "out-of-table / out-of-input indexing is observed through _GLIBCXX_ASSERTIONS, -fsanitize=bounds and AddressSanitizer; inputs shorter than 16 bytes live inside the std::string object (small-string buffer), so an over-read of the INPUT is only observable for the heap-resident families (length >= 16)",
        "only the behaviour the statement fixes is judged: returned strings, termination, memory safety. Signed-overflow/shift UB of the int accumulators (val << 6, val << 8) is deliberately not judged (DESIGN.md section 2)",
        "plain char: signed (platform default, every family) and unsigned (-funsigned-char build, the decode families listed in the rule); other ABI differences of a real unsigned-char platform are not exercised",
        "lengths above %d bytes are not exercised; between %s and that bound only the two sweep contents per length are" % (70000 if t else 20000, "5" if t else "4"),
    ]
    if t:
        ctx.assumptions.append("the two 2^32 families (all 4-byte strings, encode and decode) run in a build of the same harness WITHOUT AddressSanitizer/UBSan (still with _GLIBCXX_ASSERTIONS); every other family runs with them")
    ctx.stats.setdefault("evaluations", 0)
    ctx.stats.setdefault("distinct_nontrivial", 0)


def replay(ctx, rec):
    kind = {v: k for k, v in TAGS.items()}.get(rec.get("harness"), "san")
    ctx.run_harness(build(kind), rec["args"], tag=TAGS[kind], env=ASAN_ENV)
