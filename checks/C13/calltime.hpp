// C13 call-time dimension: declarations shared by the four translation units of the call-time harness (see calltime_main.cpp).
// This header deliberately does NOT include xtl/xbase64.hpp: only calltime_codec.cpp does.
#ifndef VERIF_C13_CALLTIME_HPP
#define VERIF_C13_CALLTIME_HPP

#include <cstdlib>
#include <string>

namespace c13ct
{
    // The moments of a process' life at which the library is called, in the order in which they happen
    // (link order: calltime_main.o calltime_before.o calltime_codec.o calltime_after.o; the child verifies the order at run time).
    enum Time
    {
        T_INIT_TU_BEFORE = 0,      // initialiser of a namespace-scope object in a TU linked BEFORE the TU that includes xbase64.hpp
        T_INIT_SAME_TU_ABOVE,      // initialiser of an object defined in that TU ABOVE the #include (reaches the library through a forward-declared wrapper)
        T_INIT_SAME_TU_BELOW,      // initialiser of an object defined in that TU below the #include
        T_INIT_TU_AFTER,           // initialiser of a namespace-scope object in a TU linked AFTER it
        T_MAIN,                    // from main()
        T_ATEXIT_MAIN,             // atexit handler registered in main(): runs before every static destructor
        T_DTOR_TU_AFTER,           // destructor of the object of the TU linked after (first static destructor)
        T_DTOR_SAME_TU_BELOW,      // destructor of the object below the #include
        T_DTOR_SAME_TU_ABOVE,      // destructor of the object above the #include
        T_DTOR_TU_BEFORE,          // destructor of the object of the TU linked before (last static destructor)
        T_ATEXIT_FIRST_INIT,       // atexit handler registered by the very first static initialiser: runs after every static destructor
        N_TIMES
    };

    void probe(int t);                              // calltime_main.cpp: run the input set through the library now (if this time is selected)
    std::string lib_encode(const std::string& s);   // calltime_codec.cpp: return xtl::base64encode(s);
    std::string lib_decode(const std::string& s);   // calltime_codec.cpp: return xtl::base64decode(s);

    // a namespace-scope object whose initialiser and destructor are call times
    struct Probe
    {
        int dtor_time;
        Probe(int ctor_time, int dtor_time_, void (*early_handler)() = nullptr) : dtor_time(dtor_time_)
        {
            if (early_handler) std::atexit(early_handler);   // registered before this object's destructor, so it runs after it
            probe(ctor_time);
        }
        ~Probe() { probe(dtor_time); }
    };
}

#endif
