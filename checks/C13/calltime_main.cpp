// C13 call-time dimension: WHEN base64encode / base64decode are called.
//
// The property quantifies over inputs; it makes no exception for calls made before main() or during exit.  A header-only
// library can break exactly there: a namespace-scope / static-member object with dynamic initialisation (a table built "once")
// is still zero while another translation unit's static initialisers run, and an object with a destructor is gone while
// atexit handlers and static destructors run.  This harness enumerates the call times of a small four-TU program
//
//     link order:  calltime_main.o  calltime_before.o  calltime_codec.o (the only TU that includes xbase64.hpp)  calltime_after.o
//
//     time 0  static initialiser in the TU linked before          time 6   static destructor in the TU linked after
//     time 1  static initialiser in the codec TU, above #include  time 7   static destructor, codec TU, below #include
//     time 2  static initialiser in the codec TU, below #include  time 8   static destructor, codec TU, above #include
//     time 3  static initialiser in the TU linked after           time 9   static destructor in the TU linked before
//     time 4  main()                                              time 10  atexit handler registered by the first initialiser
//     time 5  atexit handler registered in main()
//
// (TU-before/TU-after = both link orders relative to the TU that owns the header's objects.)  A PROCESS is one subset ("mask") of
// those 11 times: at every selected time the complete input set is pushed through the library (encode + RFC comparison + round
// trip; decode against the specification decode), at the other times the library is not touched - so every time is met both
// as the FIRST call of the process (lazy initialisation happens there) and as a later call, after calls at any earlier time.
//
//   calltime_harness --calltime SET MASKS [--shard I N]
//     SET    small : enc full:0..1, enc6:2..3, 24 heap-resident strings (16..27 bytes); dec full:0..1, dec13:2..3, heap13:16..19:0..1   (3 212 cases)
//            wide  : small + enc full:2, enc6:4 + dec full:2, dec13:4                                                                 (164 141 cases)
//     MASKS  le2   : every subset of at most 2 times, and the full set     (68 processes)
//            all   : every subset of the 11 times                          (2 048 processes)
//            m:HEX : the one subset given as a bit mask (replay)
//
// The parent process forks + execs itself once per mask (a fresh process image = fresh static initialisation); the child finds
// its orders in a shared-memory block whose descriptor is named in the environment, publishes (time, case, phase) before every
// library call, and records results there, never through stdio or any object with a constructor: everything the child-side code
// touches outside the library is constant-initialised.  A child that dies inside a library call is attributed to that call.
#include "calltime.hpp"

#include "report.hpp"
#include "C13_rfc4648.hpp"

#include <cerrno>
#include <fcntl.h>
#include <sys/mman.h>
#include <sys/types.h>
#include <sys/wait.h>
#include <unistd.h>

using ref4648::bytes;
using namespace c13ct;

namespace
{
    const char* const TIME_NAME[N_TIMES] = {
        "static-init,tu-linked-before", "static-init,same-tu-above-include", "static-init,same-tu-below-include", "static-init,tu-linked-after",
        "main", "atexit-registered-in-main",
        "static-dtor,tu-linked-after", "static-dtor,same-tu-below-include", "static-dtor,same-tu-above-include", "static-dtor,tu-linked-before",
        "atexit-registered-by-first-initialiser"};
    const char* const TIME_TEXT[N_TIMES] = {
        "the initialiser of a namespace-scope object in a translation unit linked before the one that includes xbase64.hpp",
        "the initialiser of a namespace-scope object defined above '#include <xtl/xbase64.hpp>' in the same translation unit",
        "the initialiser of a namespace-scope object defined below '#include <xtl/xbase64.hpp>' in the same translation unit",
        "the initialiser of a namespace-scope object in a translation unit linked after the one that includes xbase64.hpp",
        "main()",
        "an atexit handler registered in main()",
        "the destructor of a namespace-scope object in a translation unit linked after the one that includes xbase64.hpp",
        "the destructor of a namespace-scope object defined below '#include <xtl/xbase64.hpp>' in the same translation unit",
        "the destructor of a namespace-scope object defined above '#include <xtl/xbase64.hpp>' in the same translation unit",
        "the destructor of a namespace-scope object in a translation unit linked before the one that includes xbase64.hpp",
        "an atexit handler registered by the first static initialiser of the program (runs after all static destructors)"};

    // ---- input sets (constant-initialised tables only: this code runs before and after main) ---------------------------------
    const unsigned char ENC6[6] = {0x00, 0x01, 0x7F, 0x80, 0xFF, 'A'};
    const unsigned char DEC13[13] = {'A', 'z', '9', '+', '/', '=', ' ', '\n', '-', '_', 0x00, 0x80, 0xFF};
    const char HEAP_PREFIX[] = "QUJDREVGR0hJSktMTU5P";

    enum SegKind { SK_FULL, SK_ENC6, SK_DEC13, SK_HEAPENC, SK_HEAP13 };
    struct Seg { bool enc; int kind; int L; int P; long count; bool wide_only; };
    const Seg SEGS[] = {
        {true, SK_FULL, 0, 0, 1, false},       {true, SK_FULL, 1, 0, 256, false},     {true, SK_ENC6, 2, 0, 36, false},     {true, SK_ENC6, 3, 0, 216, false},
        {true, SK_HEAPENC, 0, 0, 24, false},   // lengths 16..27 (every residue mod 3 and mod 12) x {counting from 0x78, all FF / all 80}: heap-resident inputs
        {false, SK_FULL, 0, 0, 1, false},      {false, SK_FULL, 1, 0, 256, false},    {false, SK_DEC13, 2, 0, 169, false},  {false, SK_DEC13, 3, 0, 2197, false},
        {false, SK_HEAP13, 0, 16, 1, false},   {false, SK_HEAP13, 1, 16, 13, false},  {false, SK_HEAP13, 0, 17, 1, false},  {false, SK_HEAP13, 1, 17, 13, false},
        {false, SK_HEAP13, 0, 18, 1, false},   {false, SK_HEAP13, 1, 18, 13, false},  {false, SK_HEAP13, 0, 19, 1, false},  {false, SK_HEAP13, 1, 19, 13, false},
        {true, SK_FULL, 2, 0, 65536, true},    {true, SK_ENC6, 4, 0, 1296, true},     {false, SK_FULL, 2, 0, 65536, true},  {false, SK_DEC13, 4, 0, 28561, true},
    };
    const int N_SEGS = int(sizeof SEGS / sizeof SEGS[0]);
    enum { SET_SMALL = 0, SET_WIDE = 1 };

    long n_cases(int set)
    {
        long n = 0;
        for (int i = 0; i < N_SEGS; ++i) if (set == SET_WIDE || !SEGS[i].wide_only) n += SEGS[i].count;
        return n;
    }

    void digits(long idx, const unsigned char* alpha, unsigned base, int len, bytes& out)
    {
        std::size_t at = out.size();
        out.resize(at + std::size_t(len));
        for (int i = len - 1; i >= 0; --i)
        {
            unsigned d = unsigned(idx % base);
            idx /= base;
            out[at + std::size_t(i)] = alpha ? alpha[d] : static_cast<unsigned char>(d);
        }
    }

    // case idx of the set: which operation, which input; seg_out/sub_out name it (family, index inside the family)
    void make_case(int set, long idx, bool& enc, bytes& in, int* seg_out = nullptr, long* sub_out = nullptr)
    {
        in.clear();
        for (int i = 0; i < N_SEGS; ++i)
        {
            const Seg& s = SEGS[i];
            if (set != SET_WIDE && s.wide_only) continue;
            if (idx >= s.count) { idx -= s.count; continue; }
            enc = s.enc;
            if (seg_out) *seg_out = i;
            if (sub_out) *sub_out = idx;
            switch (s.kind)
            {
            case SK_FULL: digits(idx, nullptr, 256, s.L, in); break;
            case SK_ENC6: digits(idx, ENC6, 6, s.L, in); break;
            case SK_DEC13: digits(idx, DEC13, 13, s.L, in); break;
            case SK_HEAPENC:
            {
                const std::size_t len = 16 + std::size_t(idx / 2);
                in.resize(len);
                for (std::size_t k = 0; k < len; ++k)
                    in[k] = idx % 2 == 0 ? static_cast<unsigned char>((0x78 + k) & 255u) : static_cast<unsigned char>(len % 2 == 0 ? 0xFF : 0x80);
                break;
            }
            default:
                in.assign(HEAP_PREFIX, HEAP_PREFIX + s.P);
                digits(idx, DEC13, 13, s.L, in);
                break;
            }
            return;
        }
    }

    std::string seg_name(int seg)
    {
        const Seg& s = SEGS[seg];
        switch (s.kind)
        {
        case SK_FULL: return "full:" + vf::str(s.L);
        case SK_ENC6: return "enc6:" + vf::str(s.L);
        case SK_DEC13: return "dec13:" + vf::str(s.L);
        case SK_HEAPENC: return "heapenc";
        default: return "heap13:" + vf::str(s.P) + ":" + vf::str(s.L);
        }
    }

    // ---- the block shared between the parent (enumerates masks, judges, reports) and one child (one process life) ------------
    enum { PH_NONE = 0, PH_ENCODE, PH_DECODE_OF_ENCODED, PH_DECODE };
    enum { FK_WRONG_ENCODING = 0, FK_ROUNDTRIP, FK_DECODE, FK_EXC_ENCODE, FK_EXC_ROUNDTRIP, FK_EXC_DECODE, FK_ASAN_ENCODE, FK_ASAN_DECODE, N_FK };
    enum { OBS_MAX = 96 };
    struct Fail
    {
        int time, kind;
        long idx;
        int obs_len, obs2_len;            // observed result (encode: the text; decode: the bytes), obs2: decode-of-encode for round-trip failures
        unsigned char obs[OBS_MAX], obs2[OBS_MAX];
        char what[OBS_MAX];
    };
    struct Ctl
    {
        unsigned mask;
        int set;
        volatile int cur_time;
        volatile long cur_case;
        volatile int phase;
        int n_events;
        int order[32];
        unsigned done_mask;
        long long cases[N_TIMES], enc_cases[N_TIMES], nontrivial[N_TIMES], failing[N_TIMES];
        int n_fail;
        Fail fail[N_TIMES * N_FK];
    };

    Ctl* g_ctl = nullptr;   // constant-initialised: usable before this TU's dynamic initialisation
    int g_mode = 0;         // 0 not decided yet, 1 child (g_ctl mapped), 2 parent / replay driver

    Ctl* ctl()
    {
        if (g_mode == 0)
        {
            const char* e = std::getenv("C13_CALLTIME_CHILD_FD");
            g_mode = 2;
            if (e)
            {
                void* m = mmap(nullptr, sizeof(Ctl), PROT_READ | PROT_WRITE, MAP_SHARED, std::atoi(e), 0);
                if (m == MAP_FAILED) _exit(97);
                g_ctl = static_cast<Ctl*>(m);
                g_mode = 1;
            }
        }
        return g_ctl;
    }

    void add_fail(Ctl* c, int t, int kind, long idx, const std::string* obs, const std::string* obs2, const char* what)
    {
        for (int i = 0; i < c->n_fail; ++i) if (c->fail[i].time == t && c->fail[i].kind == kind) return;   // the first case per (time, kind); cases are ordered short first
        if (c->n_fail >= N_TIMES * N_FK) return;
        Fail& f = c->fail[c->n_fail];
        f.time = t;
        f.kind = kind;
        f.idx = idx;
        f.obs_len = obs ? int(obs->size()) : -1;
        f.obs2_len = obs2 ? int(obs2->size()) : -1;
        if (obs) std::memcpy(f.obs, obs->data(), obs->size() < OBS_MAX ? obs->size() : std::size_t(OBS_MAX));
        if (obs2) std::memcpy(f.obs2, obs2->data(), obs2->size() < OBS_MAX ? obs2->size() : std::size_t(OBS_MAX));
        std::memset(f.what, 0, sizeof f.what);
        if (what) std::strncpy(f.what, what, sizeof f.what - 1);
        c->n_fail++;
    }

    bool same(const std::string& a, const bytes& b) { return a.size() == b.size() && (a.empty() || std::memcmp(a.data(), b.data(), a.size()) == 0); }

    // the whole input set, now (child side)
    void run_time(Ctl* c, int t)
    {
        const long n = n_cases(c->set);
        bytes in, expected, canon;
        c->cur_time = t;
        alarm(300);   // watchdog: one time = at most 164 141 short cases
        for (long idx = 0; idx < n; ++idx)
        {
            bool enc = false;
            make_case(c->set, idx, enc, in);
            c->cur_case = idx;
            std::string e, d;
            bool threw = false;
            int threw_phase = PH_NONE;
            char what[OBS_MAX] = {0};
            if (enc) ref4648::encode(in, expected); else ref4648::spec_decode(in, expected);
            try
            {
                const std::string s(reinterpret_cast<const char*>(in.data()), in.size());
                if (enc)
                {
                    c->phase = PH_ENCODE;
                    e = lib_encode(s);
                    c->phase = PH_DECODE_OF_ENCODED;
                    d = lib_decode(e);
                }
                else
                {
                    c->phase = PH_DECODE;
                    d = lib_decode(s);
                }
            }
            catch (const std::exception& ex) { threw = true; threw_phase = c->phase; std::strncpy(what, ex.what(), sizeof what - 1); }
            catch (...) { threw = true; threw_phase = c->phase; std::strncpy(what, "unknown exception", sizeof what - 1); }
            c->phase = PH_NONE;
            const bool asan = vf::take_asan();
            c->cases[t]++;
            bool bad = false, nontrivial = false;
            if (enc)
            {
                c->enc_cases[t]++;
                for (unsigned char b : in) if (b == 0 || b >= 0x80) nontrivial = true;
                if (threw) { add_fail(c, t, threw_phase == PH_ENCODE ? FK_EXC_ENCODE : FK_EXC_ROUNDTRIP, idx, nullptr, nullptr, what); bad = true; }
                else
                {
                    if (asan) { add_fail(c, t, FK_ASAN_ENCODE, idx, &e, &d, nullptr); bad = true; }
                    if (!same(e, expected)) { add_fail(c, t, FK_WRONG_ENCODING, idx, &e, &d, nullptr); bad = true; }
                    if (!same(d, in)) { add_fail(c, t, FK_ROUNDTRIP, idx, &e, &d, nullptr); bad = true; }
                }
            }
            else
            {
                ref4648::encode(expected, canon);
                nontrivial = canon != in;
                if (threw) { add_fail(c, t, FK_EXC_DECODE, idx, nullptr, nullptr, what); bad = true; }
                else
                {
                    if (asan) { add_fail(c, t, FK_ASAN_DECODE, idx, &d, nullptr, nullptr); bad = true; }
                    if (!same(d, expected)) { add_fail(c, t, FK_DECODE, idx, &d, nullptr, nullptr); bad = true; }
                }
            }
            if (nontrivial) c->nontrivial[t]++;
            if (bad) c->failing[t]++;
        }
        alarm(0);
        c->cur_time = -1;
    }

    void atexit_main_handler() { probe(T_ATEXIT_MAIN); }
}

void c13ct::probe(int t)
{
    Ctl* c = ctl();
    if (!c) return;   // parent / driver process: the probes of its own image do nothing
    if (c->n_events < 32) c->order[c->n_events] = t;
    c->n_events++;
    if ((c->mask >> t) & 1u) run_time(c, t);
    c->done_mask |= 1u << t;
}

// =====================================================================================================================
// parent side
namespace
{
    std::string hexs(const unsigned char* p, std::size_t n)
    {
        static const char* d = "0123456789abcdef";
        std::string s;
        for (std::size_t i = 0; i < n; ++i) { s += d[p[i] >> 4]; s += d[p[i] & 15]; }
        return s;
    }
    std::string show(const unsigned char* p, std::size_t n, long full_len = -1)
    {
        static const char* d = "0123456789abcdef";
        std::string s = "\"";
        for (std::size_t i = 0; i < n; ++i)
        {
            unsigned char c = p[i];
            if (c >= 0x20 && c < 0x7f && c != '"' && c != '\\') s += char(c);
            else { s += "\\x"; s += d[c >> 4]; s += d[c & 15]; }
        }
        s += "\"";
        if (full_len >= 0 && std::size_t(full_len) > n) s += "...";
        return s + " (" + vf::str(full_len >= 0 ? full_len : long(n)) + " bytes, hex " + hexs(p, n) + ")";
    }
    std::string show(const bytes& b) { return show(b.data(), b.size()); }
    std::string show_obs(const unsigned char* p, int len) { return len < 0 ? std::string("(nothing)") : show(p, std::size_t(len < OBS_MAX ? len : OBS_MAX), len); }

    std::string mask_text(unsigned mask)
    {
        std::string s;
        for (int t = 0; t < N_TIMES; ++t) if ((mask >> t) & 1u) { if (!s.empty()) s += "; "; s += TIME_NAME[t]; }
        return s.empty() ? "never" : s;
    }
    std::string mask_hex(unsigned mask) { char b[16]; std::snprintf(b, sizeof b, "m:%03x", mask); return b; }

    std::string first_diag(int fd)
    {
        char buf[4096];
        ssize_t n = pread(fd, buf, sizeof buf - 1, 0);
        if (n <= 0) return "";
        buf[n] = 0;
        std::string all(buf), best;
        std::size_t p = 0;
        while (p < all.size())
        {
            std::size_t q = all.find('\n', p);
            if (q == std::string::npos) q = all.size();
            std::string line = all.substr(p, q - p);
            if (line.find("Assertion") != std::string::npos || line.find("runtime error") != std::string::npos || line.find("ERROR: ") != std::string::npos ||
                line.find("terminate called") != std::string::npos) { best = line; break; }
            p = q + 1;
        }
        if (best.empty()) best = all.substr(0, all.find('\n'));
        std::size_t a = best.find("==");
        if (a == 0) { std::size_t b = best.find("==", 2); if (b != std::string::npos) best = best.substr(b + 2); }
        if (best.size() > 300) best.resize(300);
        return best;
    }
    const char* signame(int s)
    {
        return s == SIGSEGV ? "SIGSEGV" : s == SIGABRT ? "SIGABRT" : s == SIGFPE ? "SIGFPE" : s == SIGBUS ? "SIGBUS" : s == SIGILL ? "SIGILL" : s == SIGALRM ? "timeout" :
               s == SIGKILL ? "SIGKILL" : "signal";
    }

    std::string sig_of(unsigned mask, int t, const std::string& op, const std::string& kind)
    {
        const bool first = (mask & ((1u << t) - 1u)) == 0;
        return std::string("C13/calltime/") + TIME_NAME[t] + (first ? ",first-call-of-process" : ",after-earlier-calls") + "/" + op + "/" + kind;
    }
    std::string where(unsigned mask, int t, const char* setname)
    {
        return std::string("called from ") + TIME_TEXT[t] + " [process that calls the library at: " + mask_text(mask) + "; replay: --calltime " + setname + " " + mask_hex(mask) + "]";
    }

    long long g_processes = 0, g_cases = 0, g_enc = 0, g_nontrivial = 0, g_failing = 0, g_lost = 0;
    long long g_time_cases[N_TIMES], g_time_first[N_TIMES], g_time_later[N_TIMES];

    void run_mask(int set, const char* setname, unsigned mask)
    {
        std::fflush(stdout);
        std::fflush(stderr);
        int cfd = open("/tmp", O_TMPFILE | O_RDWR, 0600);
        int efd = open("/tmp", O_TMPFILE | O_RDWR, 0600);
        if (cfd < 0 || efd < 0 || ftruncate(cfd, sizeof(Ctl)) != 0) { std::perror("calltime: tmpfile"); std::exit(2); }
        void* m = mmap(nullptr, sizeof(Ctl), PROT_READ | PROT_WRITE, MAP_SHARED, cfd, 0);
        if (m == MAP_FAILED) { std::perror("calltime: mmap"); std::exit(2); }
        Ctl* c = static_cast<Ctl*>(m);
        std::memset(c, 0, sizeof(Ctl));
        c->mask = mask;
        c->set = set;
        c->cur_time = -1;
        c->cur_case = -1;
        pid_t pid = fork();
        if (pid < 0) { std::perror("fork"); std::exit(2); }
        if (pid == 0)
        {
            char fdtxt[16];
            std::snprintf(fdtxt, sizeof fdtxt, "%d", cfd);
            setenv("C13_CALLTIME_CHILD_FD", fdtxt, 1);
            dup2(efd, 2);
            int nul = open("/dev/null", O_WRONLY);
            if (nul >= 0) dup2(nul, 1);
            char arg0[] = "calltime-child";
            char* argv[] = {arg0, nullptr};
            execv("/proc/self/exe", argv);
            _exit(98);
        }
        int st = 0;
        while (waitpid(pid, &st, 0) < 0 && errno == EINTR) {}
        g_processes++;
        const unsigned all = (1u << N_TIMES) - 1u;
        bool ordered = c->n_events == N_TIMES;
        for (int i = 0; ordered && i < N_TIMES; ++i) ordered = c->order[i] == i;
        const bool completed = WIFEXITED(st) && WEXITSTATUS(st) == 0 && c->done_mask == all;
        if (completed && !ordered)
        {
            // the toolchain did not run initialisers / destructors / handlers in the order the time names assume: harness error, never a verdict
            std::string o;
            for (int i = 0; i < c->n_events && i < 32; ++i) o += vf::str(c->order[i]) + " ";
            std::fprintf(stderr, "C13 calltime harness: unexpected order of call times: %s(expected 0 1 2 .. 10)\n", o.c_str());
            std::exit(2);
        }
        // counters and recorded failures (also of a child that died later: what it recorded before is kept)
        for (int t = 0; t < N_TIMES; ++t)
        {
            g_cases += c->cases[t];
            g_enc += c->enc_cases[t];
            g_nontrivial += c->nontrivial[t];
            g_failing += c->failing[t];
            g_time_cases[t] += c->cases[t];
            if (c->cases[t]) { if ((mask & ((1u << t) - 1u)) == 0) g_time_first[t]++; else g_time_later[t]++; }
        }
        bytes in, expected;
        for (int i = 0; i < c->n_fail; ++i)
        {
            const Fail& f = c->fail[i];
            bool enc = false;
            int seg = 0;
            long sub = 0;
            make_case(set, f.idx, enc, in, &seg, &sub);
            const std::string cs = " {case " + std::string(enc ? "enc " : "dec ") + seg_name(seg) + " #" + vf::str(sub) + "}";
            const std::vector<std::string> rp = {"--calltime", setname, mask_hex(mask)};
            const std::string w = where(mask, f.time, setname);
            switch (f.kind)
            {
            case FK_WRONG_ENCODING:
                ref4648::encode(in, expected);
                vf::violation(sig_of(mask, f.time, "base64encode", "wrong-encoding"),
                              "base64encode(s) for s = " + show(in) + cs + " " + w + ": RFC 4648 says " + show(expected) + ", observed " + show_obs(f.obs, f.obs_len), rp);
                break;
            case FK_ROUNDTRIP:
                vf::violation(sig_of(mask, f.time, "roundtrip", "decode-of-encode-differs"),
                              "base64decode(base64encode(s)) != s for s = " + show(in) + cs + " " + w + ": base64encode(s) = " + show_obs(f.obs, f.obs_len) + ", decoded back to " +
                                  show_obs(f.obs2, f.obs2_len), rp);
                break;
            case FK_DECODE:
            {
                ref4648::spec_decode(in, expected);
                const std::size_t k = ref4648::leading_run(in);
                const char* kind = std::size_t(f.obs_len) > expected.size() ? "output-too-long" : std::size_t(f.obs_len) < expected.size() ? "output-too-short" : "wrong-bytes";
                vf::violation(sig_of(mask, f.time, "base64decode", kind),
                              "base64decode(t) for t = " + show(in) + cs + " " + w + ": leading alphabet run has " + vf::str(k) + " characters, so the result must be the " +
                                  vf::str(expected.size()) + " whole bytes " + show(expected) + "; observed " + show_obs(f.obs, f.obs_len), rp);
                break;
            }
            case FK_EXC_ENCODE:
            case FK_EXC_ROUNDTRIP:
            case FK_EXC_DECODE:
                vf::violation(sig_of(mask, f.time, f.kind == FK_EXC_ENCODE ? "base64encode" : f.kind == FK_EXC_ROUNDTRIP ? "roundtrip" : "base64decode", "exception"),
                              std::string(f.kind == FK_EXC_ENCODE ? "base64encode(s)" : f.kind == FK_EXC_ROUNDTRIP ? "base64decode(base64encode(s))" : "base64decode(t)") + " threw '" + f.what +
                                  "' for the input " + show(in) + cs + " " + w, rp);
                break;
            default:
                vf::violation(sig_of(mask, f.time, f.kind == FK_ASAN_ENCODE ? "roundtrip" : "base64decode", "asan-report"),
                              std::string("a sanitizer reported a memory error during ") + (f.kind == FK_ASAN_ENCODE ? "base64encode(s) / base64decode(base64encode(s))" : "base64decode(t)") +
                                  " for the input " + show(in) + cs + " " + w + (first_diag(efd).empty() ? "" : " [" + first_diag(efd) + "]"), rp);
                break;
            }
        }
        if (!completed)
        {
            const int t = c->cur_time, ph = c->phase;
            const long idx = c->cur_case;
            if (ph == PH_NONE || t < 0 || t >= N_TIMES || idx < 0 || idx >= n_cases(set))
            {
                std::fprintf(stderr, "C13 calltime harness: child (mask %s) ended abnormally outside a library call (status 0x%x, time %d, case %ld, phase %d, done 0x%x): %s\n",
                             mask_hex(mask).c_str(), st, t, idx, ph, c->done_mask, first_diag(efd).c_str());
                std::exit(2);
            }
            bool enc = false;
            int seg = 0;
            long sub = 0;
            make_case(set, idx, enc, in, &seg, &sub);
            const std::string how = WIFSIGNALED(st) ? signame(WTERMSIG(st)) : "a premature exit(" + vf::str(WEXITSTATUS(st)) + ")";
            const std::string kind = !WIFSIGNALED(st) ? "fatal-exit" : how == "timeout" ? "timeout" : "crash-" + how;
            const std::string diag = first_diag(efd);
            g_cases++;
            g_failing++;
            g_time_cases[t]++;
            // the cases this process life would still have executed
            long long lost = n_cases(set) - idx - 1;
            for (int u = t + 1; u < N_TIMES; ++u) if ((mask >> u) & 1u) lost += n_cases(set);
            g_lost += lost;
            vf::violation(sig_of(mask, t, ph == PH_ENCODE ? "base64encode" : ph == PH_DECODE_OF_ENCODED ? "roundtrip" : "base64decode", kind),
                          std::string(ph == PH_ENCODE ? "base64encode(s)" : ph == PH_DECODE_OF_ENCODED ? "base64decode(base64encode(s))" : "base64decode(t)") + " did not return for the input " +
                              show(in) + " {case " + (enc ? "enc " : "dec ") + seg_name(seg) + " #" + vf::str(sub) + "} " + where(mask, t, setname) + ": the process was ended by " + how +
                              (diag.empty() ? "" : " [" + diag + "]"),
                          {"--calltime", setname, mask_hex(mask)});
        }
        munmap(m, sizeof(Ctl));
        close(cfd);
        close(efd);
    }

    int popcount(unsigned m) { int n = 0; while (m) { n += int(m & 1u); m >>= 1; } return n; }
}

int main(int argc, char** argv)
{
    if (ctl())
    {
        // child: one process life; times 0..3 have happened, the rest follows from here
        probe(T_MAIN);
        std::atexit(atexit_main_handler);
        return 0;
    }
    int set = -1;
    std::string setname, masks;
    long shard = 0, nshards = 1;
    for (int i = 1; i < argc; ++i)
    {
        std::string a = argv[i];
        if (a == "--calltime" && i + 2 < argc)
        {
            setname = argv[i + 1];
            masks = argv[i + 2];
            set = setname == "small" ? SET_SMALL : setname == "wide" ? SET_WIDE : -1;
            i += 2;
        }
        else if (a == "--shard" && i + 2 < argc) { shard = std::atol(argv[i + 1]); nshards = std::atol(argv[i + 2]); i += 2; }
        else { std::fprintf(stderr, "bad argument %s\n", a.c_str()); return 2; }
    }
    if (set < 0 || nshards < 1 || shard < 0 || shard >= nshards) { std::fprintf(stderr, "usage: --calltime small|wide le2|all|m:HEX [--shard I N]\n"); return 2; }
    const unsigned all = (1u << N_TIMES) - 1u;
    std::vector<unsigned> list;
    if (masks == "all") for (unsigned m = 0; m <= all; ++m) list.push_back(m);
    else if (masks == "le2") { for (unsigned m = 0; m <= all; ++m) if (popcount(m) <= 2 || m == all) list.push_back(m); }
    else if (masks.compare(0, 2, "m:") == 0) list.push_back(unsigned(std::strtoul(masks.c_str() + 2, nullptr, 16)) & all);
    else { std::fprintf(stderr, "bad mask list %s\n", masks.c_str()); return 2; }

    for (std::size_t i = 0; i < list.size(); ++i)
        if (long(i % std::size_t(nshards)) == shard) run_mask(set, setname.c_str(), list[i]);

    vf::stat("evaluations", g_cases);
    vf::stat("distinct_nontrivial", g_nontrivial);
    vf::stat("enc_cases", g_enc);
    vf::stat("dec_cases", g_cases - g_enc);
    vf::stat("calltime_cases", g_cases);
    vf::stat("calltime_processes", g_processes);
    vf::stat("violating_cases", g_failing);
    vf::smax("calltime_call_times", N_TIMES);
    vf::smax("calltime_input_set_size", n_cases(set));
    for (int t = 0; t < N_TIMES; ++t)
    {
        if (g_time_cases[t]) vf::stat(std::string("calltime[") + TIME_NAME[t] + "]", g_time_cases[t]);
        if (g_time_first[t]) vf::stat(std::string("calltime_processes_first_call[") + TIME_NAME[t] + "]", g_time_first[t]);
        if (g_time_later[t]) vf::stat(std::string("calltime_processes_later_call[") + TIME_NAME[t] + "]", g_time_later[t]);
    }
    if (g_lost) vf::stat("not_executed_after_crash", g_lost);
    vf::done();
    return 0;
}
