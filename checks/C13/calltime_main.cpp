// C13 call-time dimension: WHEN base64encode / base64decode are called.
//
// The property quantifies over inputs; it makes no exception for calls made before main() or during exit.  A header-only
// library can break exactly there: a namespace-scope / static-member object with dynamic initialisation (a table built "once")
// is still zero while another translation unit's static initialisers run, and an object with a destructor is gone while
// atexit handlers and static destructors run.  This harness enumerates the call times of a small four-TU program
//
//     link order:  calltime_main.o  calltime_before.o  calltime_codec.o (the only TU that includes xbase64.hpp)  calltime_after.o
//
//     time 0  static initialiser in the TU linked before          time 6   static destructor in the TU linked after
//     time 1  static initialiser in the codec TU, above #include  time 7   static destructor, codec TU, below #include
//     time 2  static initialiser in the codec TU, below #include  time 8   static destructor, codec TU, above #include
//     time 3  static initialiser in the TU linked after           time 9   static destructor in the TU linked before
//     time 4  main()                                              time 10  atexit handler registered by the first initialiser
//     time 5  atexit handler registered in main()
//
// (TU-before/TU-after = both link orders relative to the TU that owns the header's objects.)  A PROCESS is one subset ("mask") of
// those 11 times: at every selected time the complete input set is pushed through the library (encode + RFC comparison + round
// trip; decode against the specification decode), at the other times the library is not touched - so every time is met both
// as the FIRST call of the process (lazy initialisation happens there) and as a later call, after calls at any earlier time.
//
//   calltime_harness --calltime SET MASKS [--shard I N]
//     SET    small : enc full:0..1, enc6:2..3, 24 heap-resident strings (16..27 bytes); dec full:0..1, dec13:2..3, heap13:16..19:0..1   (3 212 cases)
//            wide  : small + enc full:2, enc6:4 + dec full:2, dec13:4                                                                 (164 141 cases)
//     MASKS  le2   : every subset of at most 2 times, and the full set     (68 processes)
//            all   : every subset of the 11 times                          (2 048 processes)
//            m:HEX : the one subset given as a bit mask (replay)
//
// The parent process forks + execs itself once per mask (a fresh process image = fresh static initialisation); the child finds
// its orders in a shared-memory block whose descriptor is named in the environment, publishes (time, case, phase) before every
// library call, and records results there, never through stdio or any object with a constructor: everything the child-side code
// touches outside the library is constant-initialised.  A child that dies inside a library call is attributed to that call.
//
// AMBIENT PROCESS STATE (wave 6): "when" is not the only coordinate of a call that the statement is silent about - it also makes
// no exception for WHICH THREAD calls or for the LC_CTYPE LOCALE the program happens to be in.  A process is therefore, in
// general, a SCHEDULE: a sequence of steps (call time, thread, locale action); a mask is the special case "every step on the
// main thread, locale untouched".  At a step the step's thread first performs the locale action (if any), then pushes the whole
// input set through the library (unless the step is "set only").
//     thread   M  the main thread                 A, B  persistent worker threads (created at their first step, alive - blocked on a
//              F  a fresh thread, created for           semaphore - until the process ends; thread_local state survives between steps)
//                 this one step and joined after it     All steps run strictly one after the other (handed over and awaited): no
//                                                       concurrency, fully deterministic.
//     locale   one of C, POSIX, C.utf8 or the 8-bit locales that check.py compiles with localedef into $LOCPATH (MANIFEST there
//              lists name, fingerprint of the <cctype> tables, description), installed by one of
//                 ctype : setlocale(LC_CTYPE, name)         cxx    : std::locale::global(std::locale(name))
//                 all   : setlocale(LC_ALL, name)           thread : uselocale(newlocale(LC_CTYPE_MASK, name, 0)) - this thread only
//     Every step records the fingerprint of the <cctype> classification (isupper .. isxdigit, toupper, tolower of all 256 values)
//     that ITS thread sees; the step that installed a locale must see exactly that locale's tables (otherwise harness error: the
//     part would be vacuous), the others are named after the tables they saw (glibc: a thread that already existed when another
//     thread called setlocale keeps the old tables - the harness does not model that, it observes it).
//
//   SCHEDULE LISTS (MASKS argument, besides le2 / all / m:HEX)
//     thr:N      every history of 1..N steps over {M, A, B, F} in main(), except the single step "M" (= mask m:010)   (N=3: 83)
//     thrmom:K   K=3: threads {M, A, F}; K=4: {M, A, B, F}.  Every schedule of 1..2 steps over the 11 call times (t1 <= t2) x threads,
//                except those with every step on M (= masks) and those with every step in main() (= thr)            (K=3: 540)
//     loc1       one step in main() on M: every locale x every installation method                                  (14 x 4 = 56)
//     loc2:one   two steps in main() on M, each installs a locale: every ordered pair of locales, method "all"     (196)
//     loc2:all   ... every ordered pair of (locale, method)                                                         (3 136)
//     locthr:N   histories of 1..N steps over {M, A, F} in main() in which exactly ONE step installs a locale (every locale x method),
//                that step either runs the input set too or is "set only"; except the one-step history on M (= loc1)   (N=2: 38 per (locale, method))
//     locmom:1   one step at every call time other than main() on M, installing every locale with method "all"      (10 x 14)
//     locmom:2   locmom:1 + every pair t1 < t2: "set only" at t1, input set at t2                                    (+ 55 x 14)
//     s:STEPS    one schedule (replay): steps joined by '+', each TIME.THREAD[.LOCALE.METHOD][!]   ('!' = set only), e.g. s:4.M.x8l1.ctype!+4.F
//     --print    print the schedules of the list instead of running them (check.py verifies that no schedule is run twice)
//   INPUT SETS   bytes = small + the POSITION families: decode  <k valid characters> b [YmFy]  for every byte b, k in 0..5 and 16..19;
//                encode  <p bytes of "foo"> b <q bytes of "bar">  for every byte b, p, q in 0..2   (10 636 cases);  widebytes = wide + those.
#include "calltime.hpp"

#include "report.hpp"
#include "C13_rfc4648.hpp"

#include <cctype>
#include <cerrno>
#include <clocale>
#include <fcntl.h>
#include <locale>
#include <locale.h>
#include <pthread.h>
#include <semaphore.h>
#include <sys/mman.h>
#include <sys/types.h>
#include <sys/wait.h>
#include <unistd.h>

using ref4648::bytes;
using namespace c13ct;

namespace
{
    const char* const TIME_NAME[N_TIMES] = {
        "static-init,tu-linked-before", "static-init,same-tu-above-include", "static-init,same-tu-below-include", "static-init,tu-linked-after",
        "main", "atexit-registered-in-main",
        "static-dtor,tu-linked-after", "static-dtor,same-tu-below-include", "static-dtor,same-tu-above-include", "static-dtor,tu-linked-before",
        "atexit-registered-by-first-initialiser"};
    const char* const TIME_TEXT[N_TIMES] = {
        "the initialiser of a namespace-scope object in a translation unit linked before the one that includes xbase64.hpp",
        "the initialiser of a namespace-scope object defined above '#include <xtl/xbase64.hpp>' in the same translation unit",
        "the initialiser of a namespace-scope object defined below '#include <xtl/xbase64.hpp>' in the same translation unit",
        "the initialiser of a namespace-scope object in a translation unit linked after the one that includes xbase64.hpp",
        "main()",
        "an atexit handler registered in main()",
        "the destructor of a namespace-scope object in a translation unit linked after the one that includes xbase64.hpp",
        "the destructor of a namespace-scope object defined below '#include <xtl/xbase64.hpp>' in the same translation unit",
        "the destructor of a namespace-scope object defined above '#include <xtl/xbase64.hpp>' in the same translation unit",
        "the destructor of a namespace-scope object in a translation unit linked before the one that includes xbase64.hpp",
        "an atexit handler registered by the first static initialiser of the program (runs after all static destructors)"};

    // ---- input sets (constant-initialised tables only: this code runs before and after main) ---------------------------------
    const unsigned char ENC6[6] = {0x00, 0x01, 0x7F, 0x80, 0xFF, 'A'};
    const unsigned char DEC13[13] = {'A', 'z', '9', '+', '/', '=', ' ', '\n', '-', '_', 0x00, 0x80, 0xFF};
    const char HEAP_PREFIX[] = "QUJDREVGR0hJSktMTU5P";
    const char POS_TAIL[] = "YmFy", POS_FOO[] = "foo", POS_BAR[] = "bar";

    enum SegKind { SK_FULL, SK_ENC6, SK_DEC13, SK_HEAPENC, SK_HEAP13, SK_POSDEC, SK_POSENC };
    enum { IN_ALL = 0, IN_WIDE = 1, IN_POS = 2 };   // which input sets contain the segment
    struct Seg { bool enc; int kind; int L; int P; long count; int only; };
    const Seg SEGS[] = {
        {true, SK_FULL, 0, 0, 1, IN_ALL},       {true, SK_FULL, 1, 0, 256, IN_ALL},     {true, SK_ENC6, 2, 0, 36, IN_ALL},     {true, SK_ENC6, 3, 0, 216, IN_ALL},
        {true, SK_HEAPENC, 0, 0, 24, IN_ALL},   // lengths 16..27 (every residue mod 3 and mod 12) x {counting from 0x78, all FF / all 80}: heap-resident inputs
        {false, SK_FULL, 0, 0, 1, IN_ALL},      {false, SK_FULL, 1, 0, 256, IN_ALL},    {false, SK_DEC13, 2, 0, 169, IN_ALL},  {false, SK_DEC13, 3, 0, 2197, IN_ALL},
        {false, SK_HEAP13, 0, 16, 1, IN_ALL},   {false, SK_HEAP13, 1, 16, 13, IN_ALL},  {false, SK_HEAP13, 0, 17, 1, IN_ALL},  {false, SK_HEAP13, 1, 17, 13, IN_ALL},
        {false, SK_HEAP13, 0, 18, 1, IN_ALL},   {false, SK_HEAP13, 1, 18, 13, IN_ALL},  {false, SK_HEAP13, 0, 19, 1, IN_ALL},  {false, SK_HEAP13, 1, 19, 13, IN_ALL},
        {true, SK_FULL, 2, 0, 65536, IN_WIDE},    {true, SK_ENC6, 4, 0, 1296, IN_WIDE},     {false, SK_FULL, 2, 0, 65536, IN_WIDE},  {false, SK_DEC13, 4, 0, 28561, IN_WIDE},
        // POSITION families (input sets bytes / widebytes): every byte value at every position class of a short input.
        // decode: P valid characters, the byte b, then nothing (index b) or "YmFy" (index 256 + b): b met in every accumulator phase, at the end and mid-text, in the
        // small-string buffer (P = 0..5) and in an exact-size heap block (P = 16..19)
        {false, SK_POSDEC, 0, 0, 512, IN_POS},  {false, SK_POSDEC, 0, 1, 512, IN_POS},  {false, SK_POSDEC, 0, 2, 512, IN_POS},  {false, SK_POSDEC, 0, 3, 512, IN_POS},
        {false, SK_POSDEC, 0, 4, 512, IN_POS},  {false, SK_POSDEC, 0, 5, 512, IN_POS},  {false, SK_POSDEC, 0, 16, 512, IN_POS}, {false, SK_POSDEC, 0, 17, 512, IN_POS},
        {false, SK_POSDEC, 0, 18, 512, IN_POS}, {false, SK_POSDEC, 0, 19, 512, IN_POS},
        // encode: P bytes of "foo", the byte b, L bytes of "bar": b as first / second / third byte of a group, in a full group and in both tail shapes
        {true, SK_POSENC, 0, 0, 256, IN_POS},   {true, SK_POSENC, 1, 0, 256, IN_POS},   {true, SK_POSENC, 2, 0, 256, IN_POS},   {true, SK_POSENC, 0, 1, 256, IN_POS},
        {true, SK_POSENC, 1, 1, 256, IN_POS},   {true, SK_POSENC, 2, 1, 256, IN_POS},   {true, SK_POSENC, 0, 2, 256, IN_POS},   {true, SK_POSENC, 1, 2, 256, IN_POS},
        {true, SK_POSENC, 2, 2, 256, IN_POS},
    };
    const int N_SEGS = int(sizeof SEGS / sizeof SEGS[0]);
    enum { SET_SMALL = 0, SET_WIDE = 1, SET_BYTES = 2, SET_WIDEBYTES = 3 };   // bit 0: + the wide segments, bit 1: + the position families
    bool in_set(int set, const Seg& s) { return s.only == IN_ALL || (s.only == IN_WIDE && (set & 1)) || (s.only == IN_POS && (set & 2)); }

    long n_cases(int set)
    {
        long n = 0;
        for (int i = 0; i < N_SEGS; ++i) if (in_set(set, SEGS[i])) n += SEGS[i].count;
        return n;
    }

    void digits(long idx, const unsigned char* alpha, unsigned base, int len, bytes& out)
    {
        std::size_t at = out.size();
        out.resize(at + std::size_t(len));
        for (int i = len - 1; i >= 0; --i)
        {
            unsigned d = unsigned(idx % base);
            idx /= base;
            out[at + std::size_t(i)] = alpha ? alpha[d] : static_cast<unsigned char>(d);
        }
    }

    // case idx of the set: which operation, which input; seg_out/sub_out name it (family, index inside the family)
    void make_case(int set, long idx, bool& enc, bytes& in, int* seg_out = nullptr, long* sub_out = nullptr)
    {
        in.clear();
        for (int i = 0; i < N_SEGS; ++i)
        {
            const Seg& s = SEGS[i];
            if (!in_set(set, s)) continue;
            if (idx >= s.count) { idx -= s.count; continue; }
            enc = s.enc;
            if (seg_out) *seg_out = i;
            if (sub_out) *sub_out = idx;
            switch (s.kind)
            {
            case SK_FULL: digits(idx, nullptr, 256, s.L, in); break;
            case SK_ENC6: digits(idx, ENC6, 6, s.L, in); break;
            case SK_DEC13: digits(idx, DEC13, 13, s.L, in); break;
            case SK_HEAPENC:
            {
                const std::size_t len = 16 + std::size_t(idx / 2);
                in.resize(len);
                for (std::size_t k = 0; k < len; ++k)
                    in[k] = idx % 2 == 0 ? static_cast<unsigned char>((0x78 + k) & 255u) : static_cast<unsigned char>(len % 2 == 0 ? 0xFF : 0x80);
                break;
            }
            case SK_POSDEC:
                in.assign(HEAP_PREFIX, HEAP_PREFIX + s.P);
                in.push_back(static_cast<unsigned char>(idx & 255));
                if (idx >= 256) in.insert(in.end(), POS_TAIL, POS_TAIL + 4);
                break;
            case SK_POSENC:
                in.assign(POS_FOO, POS_FOO + s.P);
                in.push_back(static_cast<unsigned char>(idx & 255));
                in.insert(in.end(), POS_BAR, POS_BAR + s.L);
                break;
            default:
                in.assign(HEAP_PREFIX, HEAP_PREFIX + s.P);
                digits(idx, DEC13, 13, s.L, in);
                break;
            }
            return;
        }
    }

    std::string seg_name(int seg)
    {
        const Seg& s = SEGS[seg];
        switch (s.kind)
        {
        case SK_FULL: return "full:" + vf::str(s.L);
        case SK_ENC6: return "enc6:" + vf::str(s.L);
        case SK_DEC13: return "dec13:" + vf::str(s.L);
        case SK_HEAPENC: return "heapenc";
        case SK_POSDEC: return "posdec:" + vf::str(s.P);
        case SK_POSENC: return "posenc:" + vf::str(s.P) + ":" + vf::str(s.L);
        default: return "heap13:" + vf::str(s.P) + ":" + vf::str(s.L);
        }
    }

    // ---- the block shared between the parent (enumerates schedules, judges, reports) and one child (one process life) --------
    enum { PH_NONE = 0, PH_ENCODE, PH_DECODE_OF_ENCODED, PH_DECODE };
    enum { FK_WRONG_ENCODING = 0, FK_ROUNDTRIP, FK_DECODE, FK_EXC_ENCODE, FK_EXC_ROUNDTRIP, FK_EXC_DECODE, FK_ASAN_ENCODE, FK_ASAN_DECODE, N_FK };
    enum { OBS_MAX = 96 };
    enum { MAX_STEPS = 12, MAX_LOC = 24, LOC_NAME_MAX = 24 };
    enum { TH_MAIN = 0, TH_A, TH_B, TH_FRESH, N_THREADS };
    enum { LM_CTYPE = 0, LM_ALL, LM_CXX, LM_THREAD, N_LM };
    struct Step
    {
        int time;       // call time 0..10
        int thread;     // TH_*
        int loc;        // index into Ctl::loc_name, -1 = leave the locale alone
        int method;     // LM_*
        int run;        // 1: push the input set through the library; 0: only install the locale
    };
    struct Sched { int n; Step st[MAX_STEPS]; };
    struct Fail
    {
        int step, kind;
        long idx;
        int obs_len, obs2_len;            // observed result (encode: the text; decode: the bytes), obs2: decode-of-encode for round-trip failures
        unsigned char obs[OBS_MAX], obs2[OBS_MAX];
        char what[OBS_MAX];
    };
    struct Ctl
    {
        Sched sched;
        char loc_name[MAX_LOC][LOC_NAME_MAX];
        int set;
        volatile int cur_step;
        volatile long cur_case;
        volatile int phase;
        int n_events;
        int order[32];
        unsigned done_mask;               // call times that have passed
        unsigned step_done;               // steps that have completed
        int step_locale_ok[MAX_STEPS];    // 1: the locale was installed, -1: the installation call failed, 0: no locale action
        unsigned step_ctype[MAX_STEPS];   // fingerprints of the <cctype> tables the step's thread saw (after its locale action): classification ...
        unsigned step_case[MAX_STEPS];    // ... and case mapping
        int step_fp_taken[MAX_STEPS];
        int thread_error;                 // pthread_create / semaphore failure: harness error
        long long cases[MAX_STEPS], enc_cases[MAX_STEPS], nontrivial[MAX_STEPS], failing[MAX_STEPS];
        int n_fail;
        Fail fail[MAX_STEPS * N_FK];
    };

    Ctl* g_ctl = nullptr;   // constant-initialised: usable before this TU's dynamic initialisation
    int g_mode = 0;         // 0 not decided yet, 1 child (g_ctl mapped), 2 parent / replay driver

    Ctl* ctl()
    {
        if (g_mode == 0)
        {
            const char* e = std::getenv("C13_CALLTIME_CHILD_FD");
            g_mode = 2;
            if (e)
            {
                void* m = mmap(nullptr, sizeof(Ctl), PROT_READ | PROT_WRITE, MAP_SHARED, std::atoi(e), 0);
                if (m == MAP_FAILED) _exit(97);
                g_ctl = static_cast<Ctl*>(m);
                g_mode = 1;
            }
        }
        return g_ctl;
    }

    void add_fail(Ctl* c, int step, int kind, long idx, const std::string* obs, const std::string* obs2, const char* what)
    {
        for (int i = 0; i < c->n_fail; ++i) if (c->fail[i].step == step && c->fail[i].kind == kind) return;   // the first case per (step, kind); cases are ordered short first
        if (c->n_fail >= MAX_STEPS * N_FK) return;
        Fail& f = c->fail[c->n_fail];
        f.step = step;
        f.kind = kind;
        f.idx = idx;
        f.obs_len = obs ? int(obs->size()) : -1;
        f.obs2_len = obs2 ? int(obs2->size()) : -1;
        if (obs) std::memcpy(f.obs, obs->data(), obs->size() < OBS_MAX ? obs->size() : std::size_t(OBS_MAX));
        if (obs2) std::memcpy(f.obs2, obs2->data(), obs2->size() < OBS_MAX ? obs2->size() : std::size_t(OBS_MAX));
        std::memset(f.what, 0, sizeof f.what);
        if (what) std::strncpy(f.what, what, sizeof f.what - 1);
        c->n_fail++;
    }

    bool same(const std::string& a, const bytes& b) { return a.size() == b.size() && (a.empty() || std::memcmp(a.data(), b.data(), a.size()) == 0); }

    // the whole input set, now, on the calling thread (child side)
    void run_set(Ctl* c, int st)
    {
        const long n = n_cases(c->set);
        bytes in, expected, canon;
        alarm(300);   // watchdog: one step = at most 171 565 short cases
        for (long idx = 0; idx < n; ++idx)
        {
            bool enc = false;
            make_case(c->set, idx, enc, in);
            c->cur_case = idx;
            std::string e, d;
            bool threw = false;
            int threw_phase = PH_NONE;
            char what[OBS_MAX] = {0};
            if (enc) ref4648::encode(in, expected); else ref4648::spec_decode(in, expected);
            try
            {
                const std::string s(reinterpret_cast<const char*>(in.data()), in.size());
                if (enc)
                {
                    c->phase = PH_ENCODE;
                    e = lib_encode(s);
                    c->phase = PH_DECODE_OF_ENCODED;
                    d = lib_decode(e);
                }
                else
                {
                    c->phase = PH_DECODE;
                    d = lib_decode(s);
                }
            }
            catch (const std::exception& ex) { threw = true; threw_phase = c->phase; std::strncpy(what, ex.what(), sizeof what - 1); }
            catch (...) { threw = true; threw_phase = c->phase; std::strncpy(what, "unknown exception", sizeof what - 1); }
            c->phase = PH_NONE;
            const bool asan = vf::take_asan();
            c->cases[st]++;
            bool bad = false, nontrivial = false;
            if (enc)
            {
                c->enc_cases[st]++;
                for (unsigned char b : in) if (b == 0 || b >= 0x80) nontrivial = true;
                if (threw) { add_fail(c, st, threw_phase == PH_ENCODE ? FK_EXC_ENCODE : FK_EXC_ROUNDTRIP, idx, nullptr, nullptr, what); bad = true; }
                else
                {
                    if (asan) { add_fail(c, st, FK_ASAN_ENCODE, idx, &e, &d, nullptr); bad = true; }
                    if (!same(e, expected)) { add_fail(c, st, FK_WRONG_ENCODING, idx, &e, &d, nullptr); bad = true; }
                    if (!same(d, in)) { add_fail(c, st, FK_ROUNDTRIP, idx, &e, &d, nullptr); bad = true; }
                }
            }
            else
            {
                ref4648::encode(expected, canon);
                nontrivial = canon != in;
                if (threw) { add_fail(c, st, FK_EXC_DECODE, idx, nullptr, nullptr, what); bad = true; }
                else
                {
                    if (asan) { add_fail(c, st, FK_ASAN_DECODE, idx, &d, nullptr, nullptr); bad = true; }
                    if (!same(d, expected)) { add_fail(c, st, FK_DECODE, idx, &d, nullptr, nullptr); bad = true; }
                }
            }
            if (nontrivial) c->nontrivial[st]++;
            if (bad) c->failing[st]++;
        }
        alarm(0);
    }

    // Fingerprint (FNV-1a, 32 bit) of what <cctype> says about all 256 values ON THE CALLING THREAD: class bits, toupper, tolower.
    // check.py computes the same number from the locale definition it compiled (MANIFEST).
    struct CtypeFp { unsigned cls, cas; };   // classification (isupper .. isxdigit) and case mapping (toupper, tolower) separately: glibc can leave a thread with the two from different locales
    CtypeFp ctype_fingerprint()
    {
        // through volatile function pointers: g++ expands a direct isdigit() call inline to "c - '0' < 10" and would never consult the locale
        typedef int (*fn)(int);
        static fn volatile F[10] = {static_cast<fn>(std::isupper), static_cast<fn>(std::islower), static_cast<fn>(std::isalpha), static_cast<fn>(std::isdigit), static_cast<fn>(std::isspace),
                                    static_cast<fn>(std::ispunct), static_cast<fn>(std::iscntrl), static_cast<fn>(std::isxdigit), static_cast<fn>(std::toupper), static_cast<fn>(std::tolower)};
        CtypeFp r = {2166136261u, 2166136261u};
        for (int b = 0; b < 256; ++b)
        {
            unsigned m = 0;
            for (int k = 0; k < 8; ++k) if (F[k](b)) m |= 1u << k;
            r.cls = (r.cls ^ m) * 16777619u;
            r.cas = (r.cas ^ (unsigned(F[8](b)) & 255u)) * 16777619u;
            r.cas = (r.cas ^ (unsigned(F[9](b)) & 255u)) * 16777619u;
        }
        return r;
    }

    locale_t g_keep_locale[MAX_STEPS];   // locale objects installed with uselocale stay alive (and reachable) until the process ends

    void install_locale(Ctl* c, int st)
    {
        const Step& s = c->sched.st[st];
        const char* name = c->loc_name[s.loc];
        bool ok = false;
        switch (s.method)
        {
        case LM_CTYPE: ok = std::setlocale(LC_CTYPE, name) != nullptr; break;
        case LM_ALL: ok = std::setlocale(LC_ALL, name) != nullptr; break;
        case LM_CXX:
            try { std::locale::global(std::locale(name)); ok = true; }
            catch (...) { ok = false; }
            break;
        default:
        {
            locale_t l = newlocale(LC_CTYPE_MASK, name, static_cast<locale_t>(0));
            if (l) { g_keep_locale[st] = l; uselocale(l); ok = true; }
            break;
        }
        }
        c->step_locale_ok[st] = ok ? 1 : -1;
    }

    // one step, on the calling thread
    void exec_step(Ctl* c, int st)
    {
        const Step& s = c->sched.st[st];
        c->cur_step = st;
        if (s.loc >= 0) install_locale(c, st);
        const CtypeFp fp = ctype_fingerprint();
        c->step_ctype[st] = fp.cls;
        c->step_case[st] = fp.cas;
        c->step_fp_taken[st] = 1;
        if (s.run) run_set(c, st);
        c->step_done |= 1u << st;
        c->cur_step = -1;
    }

    // ---- threads: everything is handed over and awaited, so exactly one thread of the child runs at any time ----------------
    struct Worker
    {
        pthread_t th;
        sem_t go, done;
        int started;
        volatile int step;
    };
    Worker g_worker[2];   // A, B: zero-initialised, created at their first step

    void sem_wait_retry(sem_t* s) { while (sem_wait(s) != 0 && errno == EINTR) {} }

    void* worker_main(void* p)
    {
        Worker* w = static_cast<Worker*>(p);
        for (;;)
        {
            sem_wait_retry(&w->go);
            exec_step(g_ctl, w->step);
            sem_post(&w->done);
        }
        return nullptr;
    }
    void* fresh_main(void* p)
    {
        exec_step(g_ctl, int(reinterpret_cast<std::intptr_t>(p)));
        return nullptr;
    }
    void thread_failure(Ctl* c) { c->thread_error = 1; _exit(96); }

    void dispatch(Ctl* c, int st)
    {
        const Step& s = c->sched.st[st];
        if (s.thread == TH_MAIN) { exec_step(c, st); return; }
        if (s.thread == TH_FRESH)
        {
            pthread_t th;
            if (pthread_create(&th, nullptr, fresh_main, reinterpret_cast<void*>(std::intptr_t(st))) != 0) thread_failure(c);
            if (pthread_join(th, nullptr) != 0) thread_failure(c);
            return;
        }
        Worker& w = g_worker[s.thread - TH_A];
        if (!w.started)
        {
            if (sem_init(&w.go, 0, 0) != 0 || sem_init(&w.done, 0, 0) != 0) thread_failure(c);
            if (pthread_create(&w.th, nullptr, worker_main, &w) != 0) thread_failure(c);
            w.started = 1;
        }
        w.step = st;
        sem_post(&w.go);
        sem_wait_retry(&w.done);
    }

    void atexit_main_handler() { probe(T_ATEXIT_MAIN); }
}

void c13ct::probe(int t)
{
    Ctl* c = ctl();
    if (!c) return;   // parent / driver process: the probes of its own image do nothing
    if (c->n_events < 32) c->order[c->n_events] = t;
    c->n_events++;
    for (int i = 0; i < c->sched.n; ++i)
        if (c->sched.st[i].time == t) dispatch(c, i);
    c->done_mask |= 1u << t;
}

// =====================================================================================================================
// parent side
namespace
{
    std::string hexs(const unsigned char* p, std::size_t n)
    {
        static const char* d = "0123456789abcdef";
        std::string s;
        for (std::size_t i = 0; i < n; ++i) { s += d[p[i] >> 4]; s += d[p[i] & 15]; }
        return s;
    }
    std::string show(const unsigned char* p, std::size_t n, long full_len = -1)
    {
        static const char* d = "0123456789abcdef";
        std::string s = "\"";
        for (std::size_t i = 0; i < n; ++i)
        {
            unsigned char c = p[i];
            if (c >= 0x20 && c < 0x7f && c != '"' && c != '\\') s += char(c);
            else { s += "\\x"; s += d[c >> 4]; s += d[c & 15]; }
        }
        s += "\"";
        if (full_len >= 0 && std::size_t(full_len) > n) s += "...";
        return s + " (" + vf::str(full_len >= 0 ? full_len : long(n)) + " bytes, hex " + hexs(p, n) + ")";
    }
    std::string show(const bytes& b) { return show(b.data(), b.size()); }
    std::string show_obs(const unsigned char* p, int len) { return len < 0 ? std::string("(nothing)") : show(p, std::size_t(len < OBS_MAX ? len : OBS_MAX), len); }

    // ---- locales known to this run: the three built-in ones + whatever check.py compiled into $LOCPATH (MANIFEST) ------------
    struct Loc { std::string name, text; unsigned fp, fp_case; bool compiled; };
    std::vector<Loc> g_locs;
    CtypeFp g_ascii_fp = {0, 0};

    void load_locales()
    {
        if (!g_locs.empty()) return;
        g_ascii_fp = ctype_fingerprint();   // the driver itself never leaves the "C" locale
        const char* builtin[3] = {"C", "POSIX", "C.utf8"};
        for (int i = 0; i < 3; ++i) g_locs.push_back({builtin[i], "bytes >= 0x80 belong to no character class", g_ascii_fp.cls, g_ascii_fp.cas, false});
        const char* lp = std::getenv("LOCPATH");
        if (!lp) return;
        std::FILE* f = std::fopen((std::string(lp) + "/MANIFEST").c_str(), "r");
        if (!f) return;
        char line[512];
        while (std::fgets(line, sizeof line, f))
        {
            char name[64];
            unsigned fp = 0, fpc = 0;
            int used = 0;
            if (std::sscanf(line, "%63s %x %x %n", name, &fp, &fpc, &used) < 3) continue;
            std::string text = line + used;
            while (!text.empty() && (text.back() == '\n' || text.back() == ' ')) text.pop_back();
            if (std::string(name) == "ascii")
            {
                // check.py's own idea of the "C" classification: the fingerprint function itself is cross-checked here
                if (fp != g_ascii_fp.cls || fpc != g_ascii_fp.cas)
                {
                    std::fprintf(stderr, "C13 calltime harness: <cctype> fingerprints of the C locale are %08x %08x, check.py expects %08x %08x\n", g_ascii_fp.cls, g_ascii_fp.cas, fp, fpc);
                    std::exit(2);
                }
                continue;
            }
            if (std::strlen(name) >= LOC_NAME_MAX || g_locs.size() >= MAX_LOC) { std::fprintf(stderr, "C13 calltime harness: bad MANIFEST entry %s\n", name); std::exit(2); }
            g_locs.push_back({name, text, fp, fpc, true});
        }
        std::fclose(f);
    }
    int find_locale(const std::string& name)
    {
        for (std::size_t i = 0; i < g_locs.size(); ++i) if (g_locs[i].name == name) return int(i);
        return -1;
    }
    // What a thread saw, named after the locales of this run.  cls / cas: index of a locale with that classification / case mapping ("ascii" = index 0
    // stands for C, POSIX and C.utf8, which treat single bytes identically); the two differ when glibc left the thread with tables from two locales
    // (a thread that already existed when ANOTHER thread called setlocale keeps its old classification tables but sees the new case mapping).
    struct Seen { int cls, cas; };
    bool seen_by_fp(unsigned fp, unsigned fpc, Seen& out)
    {
        for (std::size_t i = 0; i < g_locs.size(); ++i)
            if (g_locs[i].fp == fp && g_locs[i].fp_case == fpc) { out.cls = out.cas = int(i); return true; }
        out.cls = out.cas = -1;
        for (std::size_t i = 0; i < g_locs.size(); ++i)
        {
            if (out.cls < 0 && g_locs[i].fp == fp) out.cls = int(i);
            if (out.cas < 0 && g_locs[i].fp_case == fpc) out.cas = int(i);
        }
        return out.cls >= 0 && out.cas >= 0;
    }
    std::string loc_label(int li) { return li < 3 ? std::string("ascii") : g_locs[std::size_t(li)].name; }
    std::string ctype_label(const Seen& s) { return s.cls == s.cas ? loc_label(s.cls) : "classes-of-" + loc_label(s.cls) + "+case-maps-of-" + loc_label(s.cas); }
    std::string loc_words(int li) { return li < 3 ? std::string("the C / POSIX / C.utf8 locales") : "the 8-bit locale '" + g_locs[std::size_t(li)].name + "'"; }
    std::string ctype_words(const Seen& s)
    {
        if (s.cls == s.cas) return "whose <cctype> classification and case mapping at that moment are those of " + loc_words(s.cls) + " (" + g_locs[std::size_t(s.cls)].text + ")";
        return "whose <cctype> classification at that moment is that of " + loc_words(s.cls) + " (" + g_locs[std::size_t(s.cls)].text + ") while toupper / tolower are those of " + loc_words(s.cas) +
               " (glibc: the locale was changed by another thread after this thread had been created)";
    }

    // ---- schedules: text form, properties --------------------------------------------------------------------------------
    const char THREAD_LETTER[N_THREADS] = {'M', 'A', 'B', 'F'};
    const char* const THREAD_NAME[N_THREADS] = {"main-thread", "persistent-worker-thread", "persistent-worker-thread", "fresh-thread"};
    const char* const THREAD_TEXT[N_THREADS] = {"the main thread", "worker thread A (created at its first step, kept alive)", "worker thread B (created at its first step, kept alive)",
                                                "a fresh thread (created for this step, joined after it)"};
    const char* const METHOD_NAME[N_LM] = {"ctype", "all", "cxx", "thread"};
    const char* const METHOD_TEXT[N_LM] = {"setlocale(LC_CTYPE, ..)", "setlocale(LC_ALL, ..)", "std::locale::global(std::locale(..))", "uselocale(newlocale(LC_CTYPE_MASK, ..)) for this thread"};

    bool is_plain(const Sched& s)   // a mask: main thread only, locale untouched, at most one step per call time, all of them run
    {
        for (int i = 0; i < s.n; ++i)
            if (s.st[i].thread != TH_MAIN || s.st[i].loc >= 0 || !s.st[i].run || (i && s.st[i].time <= s.st[i - 1].time)) return false;
        return true;
    }
    bool is_threaded(const Sched& s) { for (int i = 0; i < s.n; ++i) if (s.st[i].thread != TH_MAIN) return true; return false; }
    bool is_localed(const Sched& s) { for (int i = 0; i < s.n; ++i) if (s.st[i].loc >= 0) return true; return false; }
    unsigned mask_of(const Sched& s) { unsigned m = 0; for (int i = 0; i < s.n; ++i) m |= 1u << s.st[i].time; return m; }

    std::string mask_hex(unsigned mask) { char b[16]; std::snprintf(b, sizeof b, "m:%03x", mask); return b; }
    std::string sched_arg(const Sched& s)   // the replay argument
    {
        if (is_plain(s)) return mask_hex(mask_of(s));
        std::string o = "s:";
        for (int i = 0; i < s.n; ++i)
        {
            const Step& st = s.st[i];
            if (i) o += "+";
            o += vf::str(st.time) + "." + THREAD_LETTER[st.thread];
            if (st.loc >= 0) o += "." + g_locs[std::size_t(st.loc)].name + "." + METHOD_NAME[st.method];
            if (!st.run) o += "!";
        }
        return o;
    }
    bool parse_sched(const std::string& text, Sched& s)
    {
        s.n = 0;
        std::size_t p = 0;
        while (p <= text.size())
        {
            std::size_t q = text.find('+', p);
            if (q == std::string::npos) q = text.size();
            std::string item = text.substr(p, q - p);
            p = q + 1;
            if (s.n >= MAX_STEPS || item.empty()) return false;
            Step st = {0, TH_MAIN, -1, LM_CTYPE, 1};
            if (item.back() == '!') { st.run = 0; item.pop_back(); }
            std::vector<std::string> part;
            // the locale name may contain '.', (C.utf8): TIME.THREAD.<locale>.METHOD - method = text after the last '.', locale = what lies between
            std::size_t d1 = item.find('.');
            if (d1 == std::string::npos) return false;
            part.push_back(item.substr(0, d1));
            std::size_t d2 = item.find('.', d1 + 1);
            part.push_back(item.substr(d1 + 1, d2 == std::string::npos ? std::string::npos : d2 - d1 - 1));
            if (d2 != std::string::npos)
            {
                std::size_t d3 = item.rfind('.');
                if (d3 <= d2) return false;
                part.push_back(item.substr(d2 + 1, d3 - d2 - 1));
                part.push_back(item.substr(d3 + 1));
            }
            st.time = std::atoi(part[0].c_str());
            if (part[0].empty() || part[0].find_first_not_of("0123456789") != std::string::npos || st.time < 0 || st.time >= N_TIMES) return false;
            st.thread = -1;
            for (int k = 0; k < N_THREADS; ++k) if (part[1].size() == 1 && part[1][0] == THREAD_LETTER[k]) st.thread = k;
            if (st.thread < 0) return false;
            if (part.size() == 4)
            {
                st.loc = find_locale(part[2]);
                st.method = -1;
                for (int k = 0; k < N_LM; ++k) if (part[3] == METHOD_NAME[k]) st.method = k;
                if (st.loc < 0 || st.method < 0) return false;
            }
            if (!st.run && st.loc < 0) return false;
            if (s.n && st.time < s.st[s.n - 1].time) return false;   // steps are listed in the order in which they happen
            s.st[s.n++] = st;
            if (q == text.size()) break;
        }
        return s.n > 0;
    }

    std::string mask_text(unsigned mask)
    {
        std::string s;
        for (int t = 0; t < N_TIMES; ++t) if ((mask >> t) & 1u) { if (!s.empty()) s += "; "; s += TIME_NAME[t]; }
        return s.empty() ? "never" : s;
    }
    std::string sched_text(const Sched& s)
    {
        std::string o;
        for (int i = 0; i < s.n; ++i)
        {
            const Step& st = s.st[i];
            o += (i ? "; " : "") + vf::str(i + 1) + ") " + TIME_NAME[st.time] + ": " + THREAD_TEXT[st.thread];
            if (st.loc >= 0) o += std::string(" installs the locale '") + g_locs[std::size_t(st.loc)].name + "' with " + METHOD_TEXT[st.method] + (st.run ? " and" : "");
            if (st.run) o += " runs the input set";
        }
        return o;
    }

    std::string first_diag(int fd)
    {
        char buf[4096];
        ssize_t n = pread(fd, buf, sizeof buf - 1, 0);
        if (n <= 0) return "";
        buf[n] = 0;
        std::string all(buf), best;
        std::size_t p = 0;
        while (p < all.size())
        {
            std::size_t q = all.find('\n', p);
            if (q == std::string::npos) q = all.size();
            std::string line = all.substr(p, q - p);
            if (line.find("Assertion") != std::string::npos || line.find("runtime error") != std::string::npos || line.find("ERROR: ") != std::string::npos ||
                line.find("terminate called") != std::string::npos) { best = line; break; }
            p = q + 1;
        }
        if (best.empty()) best = all.substr(0, all.find('\n'));
        std::size_t a = best.find("==");
        if (a == 0) { std::size_t b = best.find("==", 2); if (b != std::string::npos) best = best.substr(b + 2); }
        if (best.size() > 300) best.resize(300);
        return best;
    }
    const char* signame(int s)
    {
        return s == SIGSEGV ? "SIGSEGV" : s == SIGABRT ? "SIGABRT" : s == SIGFPE ? "SIGFPE" : s == SIGBUS ? "SIGBUS" : s == SIGILL ? "SIGILL" : s == SIGALRM ? "timeout" :
               s == SIGKILL ? "SIGKILL" : "signal";
    }

    // history class of step i: has the library been called before in this process, and by whom
    bool same_thread(const Step& a, const Step& b) { return a.thread == b.thread && a.thread != TH_FRESH; }   // every F is a thread of its own
    const char* history_class(const Sched& s, int i)
    {
        bool same = false, other = false;
        for (int k = 0; k < i; ++k)
            if (s.st[k].run) { if (same_thread(s.st[k], s.st[i])) same = true; else other = true; }
        if (!same && !other) return "first-call-of-process";
        if (!is_threaded(s)) return "after-earlier-calls";
        if (same && other) return "after-calls-on-this-and-another-thread";
        return same ? "after-earlier-calls-on-this-thread-only" : "first-call-on-this-thread-after-calls-on-another-thread";
    }

    // seen: the locale(s) whose <cctype> tables the step's thread saw
    std::string sig_of(const Sched& s, int i, const Seen& seen, const std::string& op, const std::string& kind)
    {
        std::string o = std::string("C13/calltime/") + TIME_NAME[s.st[i].time] + "," + history_class(s, i);
        if (is_threaded(s)) o += std::string(",thread=") + THREAD_NAME[s.st[i].thread];
        if (is_localed(s)) o += ",lc-ctype=" + ctype_label(seen);
        return o + "/" + op + "/" + kind;
    }
    std::string where(const Sched& s, int i, const Seen& seen, const char* setname)
    {
        if (is_plain(s))
            return std::string("called from ") + TIME_TEXT[s.st[i].time] + " [process that calls the library at: " + mask_text(mask_of(s)) + "; replay: --calltime " + setname + " " + sched_arg(s) + "]";
        std::string o = std::string("called from ") + TIME_TEXT[s.st[i].time] + " on " + THREAD_TEXT[s.st[i].thread];
        if (is_localed(s)) o += ", " + ctype_words(seen);
        return o + " [step " + vf::str(i + 1) + " of the process: " + sched_text(s) + "; replay: --calltime " + setname + " " + sched_arg(s) + "]";
    }

    long long g_processes = 0, g_cases = 0, g_enc = 0, g_nontrivial = 0, g_failing = 0, g_lost = 0;
    long long g_time_cases[N_TIMES], g_time_first[N_TIMES], g_time_later[N_TIMES];
    long long g_thr_processes = 0, g_thr_cases = 0, g_loc_processes = 0, g_loc_cases = 0, g_thrloc_processes = 0, g_setonly_steps = 0;
    std::map<std::string, long long> g_extra;   // per-coordinate step / case counters of the non-plain schedules

    void run_sched(int set, const char* setname, const Sched& s)
    {
        std::fflush(stdout);
        std::fflush(stderr);
        int cfd = open("/tmp", O_TMPFILE | O_RDWR, 0600);
        int efd = open("/tmp", O_TMPFILE | O_RDWR, 0600);
        if (cfd < 0 || efd < 0 || ftruncate(cfd, sizeof(Ctl)) != 0) { std::perror("calltime: tmpfile"); std::exit(2); }
        void* m = mmap(nullptr, sizeof(Ctl), PROT_READ | PROT_WRITE, MAP_SHARED, cfd, 0);
        if (m == MAP_FAILED) { std::perror("calltime: mmap"); std::exit(2); }
        Ctl* c = static_cast<Ctl*>(m);
        std::memset(c, 0, sizeof(Ctl));
        c->sched = s;
        for (std::size_t i = 0; i < g_locs.size(); ++i) std::strncpy(c->loc_name[i], g_locs[i].name.c_str(), LOC_NAME_MAX - 1);
        c->set = set;
        c->cur_step = -1;
        c->cur_case = -1;
        pid_t pid = fork();
        if (pid < 0) { std::perror("fork"); std::exit(2); }
        if (pid == 0)
        {
            char fdtxt[16];
            std::snprintf(fdtxt, sizeof fdtxt, "%d", cfd);
            setenv("C13_CALLTIME_CHILD_FD", fdtxt, 1);
            // no leak check at the exit of a child: its report would go unread (stderr is the private diagnostics file, the exit code is forced to 0), glibc's
            // newlocale() with LOCPATH leaks 72 bytes of its own, and symbolising that costs 0.1 s per process
            const char* ao = std::getenv("ASAN_OPTIONS");
            setenv("ASAN_OPTIONS", ((ao ? std::string(ao) + ":" : std::string()) + "detect_leaks=0").c_str(), 1);
            dup2(efd, 2);
            int nul = open("/dev/null", O_WRONLY);
            if (nul >= 0) dup2(nul, 1);
            char arg0[] = "calltime-child";
            char* argv[] = {arg0, nullptr};
            execv("/proc/self/exe", argv);
            _exit(98);
        }
        int st = 0;
        while (waitpid(pid, &st, 0) < 0 && errno == EINTR) {}
        g_processes++;
        const bool plain = is_plain(s), threaded = is_threaded(s), localed = is_localed(s);
        const std::string arg = sched_arg(s);
        const unsigned all = (1u << N_TIMES) - 1u;
        bool ordered = c->n_events == N_TIMES;
        for (int i = 0; ordered && i < N_TIMES; ++i) ordered = c->order[i] == i;
        const bool completed = WIFEXITED(st) && WEXITSTATUS(st) == 0 && c->done_mask == all && c->step_done == (1u << s.n) - 1u;
        if (completed && !ordered)
        {
            // the toolchain did not run initialisers / destructors / handlers in the order the time names assume: harness error, never a verdict
            std::string o;
            for (int i = 0; i < c->n_events && i < 32; ++i) o += vf::str(c->order[i]) + " ";
            std::fprintf(stderr, "C13 calltime harness: unexpected order of call times: %s(expected 0 1 2 .. 10)\n", o.c_str());
            std::exit(2);
        }
        if (c->thread_error)
        {
            std::fprintf(stderr, "C13 calltime harness: child (%s) could not create / join a thread or semaphore\n", arg.c_str());
            std::exit(2);
        }
        // which <cctype> tables did every executed step see?  (harness error if a locale could not be installed or is not the compiled one)
        Seen ctype_li[MAX_STEPS];
        for (int i = 0; i < s.n; ++i)
        {
            ctype_li[i].cls = ctype_li[i].cas = 0;
            const bool reached = ((c->step_done >> i) & 1u) || c->cur_step == i;
            if (!reached) continue;
            if (s.st[i].loc >= 0 && c->step_locale_ok[i] == -1)
            {
                std::fprintf(stderr, "C13 calltime harness: child (%s) could not install the locale '%s' with %s in step %d (LOCPATH=%s)\n", arg.c_str(),
                             g_locs[std::size_t(s.st[i].loc)].name.c_str(), METHOD_TEXT[s.st[i].method], i + 1, std::getenv("LOCPATH") ? std::getenv("LOCPATH") : "(unset)");
                std::exit(2);
            }
            if (!c->step_fp_taken[i]) continue;   // died before the fingerprint was taken (inside the locale installation: a harness error, reported below)
            const bool known = seen_by_fp(c->step_ctype[i], c->step_case[i], ctype_li[i]);
            // the installing thread must see the new locale - unless it is a thread that has put itself under a locale of its own before (uselocale), which a later
            // process-wide setlocale / std::locale::global does not touch
            bool shadowed = false;
            for (int k = 0; k < i; ++k)
                if (s.st[k].loc >= 0 && s.st[k].method == LM_THREAD && same_thread(s.st[k], s.st[i]) && s.st[i].method != LM_THREAD) shadowed = true;
            const bool own = s.st[i].loc < 0 || shadowed || (c->step_ctype[i] == g_locs[std::size_t(s.st[i].loc)].fp && c->step_case[i] == g_locs[std::size_t(s.st[i].loc)].fp_case);
            if (!known || !own)
            {
                char want[32] = "";
                if (s.st[i].loc >= 0) std::snprintf(want, sizeof want, "%08x %08x", g_locs[std::size_t(s.st[i].loc)].fp, g_locs[std::size_t(s.st[i].loc)].fp_case);
                std::fprintf(stderr, "C13 calltime harness: child (%s), step %d: the thread's <cctype> tables have the fingerprints %08x %08x, %s%s\n", arg.c_str(), i + 1, c->step_ctype[i], c->step_case[i],
                             !own ? ("but the locale just installed, '" + g_locs[std::size_t(s.st[i].loc)].name + "', should give ").c_str() : "which are not those of any locale of this run", want);
                std::exit(2);
            }
        }
        // counters and recorded failures (also of a child that died later: what it recorded before is kept)
        if (threaded) g_thr_processes++;
        if (localed) g_loc_processes++;
        if (threaded && localed) g_thrloc_processes++;
        for (int i = 0; i < s.n; ++i)
        {
            const int t = s.st[i].time;
            g_cases += c->cases[i];
            g_enc += c->enc_cases[i];
            g_nontrivial += c->nontrivial[i];
            g_failing += c->failing[i];
            g_time_cases[t] += c->cases[i];
            if (threaded) g_thr_cases += c->cases[i];
            if (localed) g_loc_cases += c->cases[i];
            if (!s.st[i].run) g_setonly_steps++;
            if (c->cases[i])
            {
                const std::string h = history_class(s, i);
                if (h == "first-call-of-process") g_time_first[t]++; else g_time_later[t]++;
                if (!plain)
                {
                    g_extra[std::string("ambient_steps[") + h + "]"]++;
                    if (threaded) g_extra[std::string("ambient_cases[thread=") + THREAD_NAME[s.st[i].thread] + "]"] += c->cases[i];
                    if (localed) g_extra["ambient_cases[lc-ctype=" + ctype_label(ctype_li[i]) + "]"] += c->cases[i];
                }
            }
            if (s.st[i].loc >= 0 && ((c->step_done >> i) & 1u))
            {
                g_extra["ambient_locale_installed[" + g_locs[std::size_t(s.st[i].loc)].name + "]"]++;
                g_extra[std::string("ambient_locale_installed_by[") + METHOD_NAME[s.st[i].method] + "]"]++;
            }
        }
        bytes in, expected;
        const std::vector<std::string> rp = {"--calltime", setname, arg};
        for (int i = 0; i < c->n_fail; ++i)
        {
            const Fail& f = c->fail[i];
            bool enc = false;
            int seg = 0;
            long sub = 0;
            make_case(set, f.idx, enc, in, &seg, &sub);
            const std::string cs = " {case " + std::string(enc ? "enc " : "dec ") + seg_name(seg) + " #" + vf::str(sub) + "}";
            const Seen& li = ctype_li[f.step];
            const std::string w = where(s, f.step, li, setname);
            switch (f.kind)
            {
            case FK_WRONG_ENCODING:
                ref4648::encode(in, expected);
                vf::violation(sig_of(s, f.step, li, "base64encode", "wrong-encoding"),
                              "base64encode(s) for s = " + show(in) + cs + " " + w + ": RFC 4648 says " + show(expected) + ", observed " + show_obs(f.obs, f.obs_len), rp);
                break;
            case FK_ROUNDTRIP:
                vf::violation(sig_of(s, f.step, li, "roundtrip", "decode-of-encode-differs"),
                              "base64decode(base64encode(s)) != s for s = " + show(in) + cs + " " + w + ": base64encode(s) = " + show_obs(f.obs, f.obs_len) + ", decoded back to " +
                                  show_obs(f.obs2, f.obs2_len), rp);
                break;
            case FK_DECODE:
            {
                ref4648::spec_decode(in, expected);
                const std::size_t k = ref4648::leading_run(in);
                const char* kind = std::size_t(f.obs_len) > expected.size() ? "output-too-long" : std::size_t(f.obs_len) < expected.size() ? "output-too-short" : "wrong-bytes";
                vf::violation(sig_of(s, f.step, li, "base64decode", kind),
                              "base64decode(t) for t = " + show(in) + cs + " " + w + ": leading alphabet run has " + vf::str(k) + " characters, so the result must be the " +
                                  vf::str(expected.size()) + " whole bytes " + show(expected) + "; observed " + show_obs(f.obs, f.obs_len), rp);
                break;
            }
            case FK_EXC_ENCODE:
            case FK_EXC_ROUNDTRIP:
            case FK_EXC_DECODE:
                vf::violation(sig_of(s, f.step, li, f.kind == FK_EXC_ENCODE ? "base64encode" : f.kind == FK_EXC_ROUNDTRIP ? "roundtrip" : "base64decode", "exception"),
                              std::string(f.kind == FK_EXC_ENCODE ? "base64encode(s)" : f.kind == FK_EXC_ROUNDTRIP ? "base64decode(base64encode(s))" : "base64decode(t)") + " threw '" + f.what +
                                  "' for the input " + show(in) + cs + " " + w, rp);
                break;
            default:
                vf::violation(sig_of(s, f.step, li, f.kind == FK_ASAN_ENCODE ? "roundtrip" : "base64decode", "asan-report"),
                              std::string("a sanitizer reported a memory error during ") + (f.kind == FK_ASAN_ENCODE ? "base64encode(s) / base64decode(base64encode(s))" : "base64decode(t)") +
                                  " for the input " + show(in) + cs + " " + w + (first_diag(efd).empty() ? "" : " [" + first_diag(efd) + "]"), rp);
                break;
            }
        }
        if (!completed)
        {
            const int i = c->cur_step, ph = c->phase;
            const long idx = c->cur_case;
            if (ph == PH_NONE || i < 0 || i >= s.n || idx < 0 || idx >= n_cases(set))
            {
                std::fprintf(stderr, "C13 calltime harness: child (%s) ended abnormally outside a library call (status 0x%x, step %d, case %ld, phase %d, times done 0x%x, steps done 0x%x): %s\n",
                             arg.c_str(), st, i, idx, ph, c->done_mask, c->step_done, first_diag(efd).c_str());
                std::exit(2);
            }
            const int t = s.st[i].time;
            bool enc = false;
            int seg = 0;
            long sub = 0;
            make_case(set, idx, enc, in, &seg, &sub);
            const std::string how = WIFSIGNALED(st) ? signame(WTERMSIG(st)) : "a premature exit(" + vf::str(WEXITSTATUS(st)) + ")";
            const std::string kind = !WIFSIGNALED(st) ? "fatal-exit" : how == "timeout" ? "timeout" : "crash-" + how;
            const std::string diag = first_diag(efd);
            g_cases++;
            g_failing++;
            g_time_cases[t]++;
            // the cases this process life would still have executed
            long long lost = n_cases(set) - idx - 1;
            for (int u = i + 1; u < s.n; ++u) if (s.st[u].run) lost += n_cases(set);
            g_lost += lost;
            vf::violation(sig_of(s, i, ctype_li[i], ph == PH_ENCODE ? "base64encode" : ph == PH_DECODE_OF_ENCODED ? "roundtrip" : "base64decode", kind),
                          std::string(ph == PH_ENCODE ? "base64encode(s)" : ph == PH_DECODE_OF_ENCODED ? "base64decode(base64encode(s))" : "base64decode(t)") + " did not return for the input " +
                              show(in) + " {case " + (enc ? "enc " : "dec ") + seg_name(seg) + " #" + vf::str(sub) + "} " + where(s, i, ctype_li[i], setname) + ": the process was ended by " + how +
                              (diag.empty() ? "" : " [" + diag + "]"),
                          rp);
        }
        munmap(m, sizeof(Ctl));
        close(cfd);
        close(efd);
    }

    int popcount(unsigned m) { int n = 0; while (m) { n += int(m & 1u); m >>= 1; } return n; }

    // ---- schedule lists ------------------------------------------------------------------------------------------------------
    Step mk(int time, int thread, int loc = -1, int method = LM_CTYPE, int run = 1) { Step s = {time, thread, loc, method, run}; return s; }
    Sched from_mask(unsigned mask)
    {
        Sched s;
        s.n = 0;
        for (int t = 0; t < N_TIMES; ++t) if ((mask >> t) & 1u) s.st[s.n++] = mk(t, TH_MAIN);
        return s;
    }
    bool all_main(const Sched& s) { for (int i = 0; i < s.n; ++i) if (s.st[i].thread != TH_MAIN) return false; return true; }

    // every sequence of `len` threads out of `alpha`
    void thread_words(const std::vector<int>& alpha, int len, std::vector<std::vector<int>>& out)
    {
        std::vector<int> w(std::size_t(len), 0);
        long total = 1;
        for (int i = 0; i < len; ++i) total *= long(alpha.size());
        for (long k = 0; k < total; ++k)
        {
            long r = k;
            for (int i = len - 1; i >= 0; --i) { w[std::size_t(i)] = alpha[std::size_t(r % long(alpha.size()))]; r /= long(alpha.size()); }
            out.push_back(w);
        }
    }

    bool make_list(const std::string& masks, std::vector<Sched>& list)
    {
        const unsigned all = (1u << N_TIMES) - 1u;
        const int NL = int(g_locs.size());
        const std::size_t colon = masks.find(':');
        const std::string head = masks.substr(0, colon), par = colon == std::string::npos ? "" : masks.substr(colon + 1);
        if (masks == "all") { for (unsigned m = 0; m <= all; ++m) list.push_back(from_mask(m)); return true; }
        if (masks == "le2") { for (unsigned m = 0; m <= all; ++m) if (popcount(m) <= 2 || m == all) list.push_back(from_mask(m)); return true; }
        if (head == "m") { list.push_back(from_mask(unsigned(std::strtoul(par.c_str(), nullptr, 16)) & all)); return true; }
        if (head == "s") { Sched s; if (!parse_sched(par, s)) return false; list.push_back(s); return true; }
        if (head == "thr")
        {
            const int n = std::atoi(par.c_str());
            if (n < 1 || n > 6) return false;
            const std::vector<int> alpha = {TH_MAIN, TH_A, TH_B, TH_FRESH};
            for (int len = 1; len <= n; ++len)
            {
                std::vector<std::vector<int>> words;
                thread_words(alpha, len, words);
                for (const auto& w : words)
                {
                    if (len == 1 && w[0] == TH_MAIN) continue;   // = mask m:010
                    Sched s;
                    s.n = len;
                    for (int i = 0; i < len; ++i) s.st[i] = mk(T_MAIN, w[std::size_t(i)]);
                    list.push_back(s);
                }
            }
            return true;
        }
        if (head == "thrmom")
        {
            const int k = std::atoi(par.c_str());
            if (k != 3 && k != 4) return false;
            const std::vector<int> alpha = k == 3 ? std::vector<int>{TH_MAIN, TH_A, TH_FRESH} : std::vector<int>{TH_MAIN, TH_A, TH_B, TH_FRESH};
            for (int t = 0; t < N_TIMES; ++t)
                for (int th : alpha)
                {
                    if (t == T_MAIN || th == TH_MAIN) continue;   // main(): list thr; main thread: the masks
                    Sched s;
                    s.n = 1;
                    s.st[0] = mk(t, th);
                    list.push_back(s);
                }
            for (int t1 = 0; t1 < N_TIMES; ++t1)
                for (int t2 = t1; t2 < N_TIMES; ++t2)
                    for (int a : alpha)
                        for (int b : alpha)
                        {
                            if ((t1 == T_MAIN && t2 == T_MAIN) || (a == TH_MAIN && b == TH_MAIN)) continue;
                            Sched s;
                            s.n = 2;
                            s.st[0] = mk(t1, a);
                            s.st[1] = mk(t2, b);
                            list.push_back(s);
                        }
            return true;
        }
        if (masks == "loc1")
        {
            for (int l = 0; l < NL; ++l)
                for (int m = 0; m < N_LM; ++m) { Sched s; s.n = 1; s.st[0] = mk(T_MAIN, TH_MAIN, l, m); list.push_back(s); }
            return true;
        }
        if (head == "loc2")
        {
            if (par != "one" && par != "all") return false;
            const int mlo = par == "one" ? LM_ALL : 0, mhi = par == "one" ? LM_ALL : N_LM - 1;
            for (int l1 = 0; l1 < NL; ++l1)
                for (int m1 = mlo; m1 <= mhi; ++m1)
                    for (int l2 = 0; l2 < NL; ++l2)
                        for (int m2 = mlo; m2 <= mhi; ++m2)
                        {
                            Sched s;
                            s.n = 2;
                            s.st[0] = mk(T_MAIN, TH_MAIN, l1, m1);
                            s.st[1] = mk(T_MAIN, TH_MAIN, l2, m2);
                            list.push_back(s);
                        }
            return true;
        }
        if (head == "locthr")
        {
            const int n = std::atoi(par.c_str());
            if (n < 1 || n > 4) return false;
            const std::vector<int> alpha = {TH_MAIN, TH_A, TH_FRESH};
            for (int l = 0; l < NL; ++l)
                for (int m = 0; m < N_LM; ++m)
                    for (int len = 1; len <= n; ++len)
                    {
                        std::vector<std::vector<int>> words;
                        thread_words(alpha, len, words);
                        for (const auto& w : words)
                            for (int at = 0; at < len; ++at)
                                for (int run = 1; run >= 0; --run)
                                {
                                    if (len == 1 && (run == 0 || w[0] == TH_MAIN)) continue;   // nothing would be called / = loc1
                                    Sched s;
                                    s.n = len;
                                    for (int i = 0; i < len; ++i) s.st[i] = i == at ? mk(T_MAIN, w[std::size_t(i)], l, m, run) : mk(T_MAIN, w[std::size_t(i)]);
                                    list.push_back(s);
                                }
                    }
            return true;
        }
        if (head == "locmom")
        {
            const int k = std::atoi(par.c_str());
            if (k != 1 && k != 2) return false;
            for (int l = 0; l < NL; ++l)
            {
                for (int t = 0; t < N_TIMES; ++t)
                    if (t != T_MAIN) { Sched s; s.n = 1; s.st[0] = mk(t, TH_MAIN, l, LM_ALL); list.push_back(s); }
                if (k == 2)
                    for (int t1 = 0; t1 < N_TIMES; ++t1)
                        for (int t2 = t1 + 1; t2 < N_TIMES; ++t2)
                        {
                            Sched s;
                            s.n = 2;
                            s.st[0] = mk(t1, TH_MAIN, l, LM_ALL, 0);
                            s.st[1] = mk(t2, TH_MAIN);
                            list.push_back(s);
                        }
            }
            return true;
        }
        return false;
    }
}

int main(int argc, char** argv)
{
    if (ctl())
    {
        // child: one process life; times 0..3 have happened, the rest follows from here
        probe(T_MAIN);
        std::atexit(atexit_main_handler);
        return 0;
    }
    int set = -1;
    std::string setname, masks;
    long shard = 0, nshards = 1;
    bool print_only = false;
    for (int i = 1; i < argc; ++i)
    {
        std::string a = argv[i];
        if (a == "--calltime" && i + 2 < argc)
        {
            setname = argv[i + 1];
            masks = argv[i + 2];
            set = setname == "small" ? SET_SMALL : setname == "wide" ? SET_WIDE : setname == "bytes" ? SET_BYTES : setname == "widebytes" ? SET_WIDEBYTES : -1;
            i += 2;
        }
        else if (a == "--shard" && i + 2 < argc) { shard = std::atol(argv[i + 1]); nshards = std::atol(argv[i + 2]); i += 2; }
        else if (a == "--print") print_only = true;
        else { std::fprintf(stderr, "bad argument %s\n", a.c_str()); return 2; }
    }
    if (set < 0 || nshards < 1 || shard < 0 || shard >= nshards)
    {
        std::fprintf(stderr, "usage: --calltime small|wide|bytes|widebytes le2|all|m:HEX|thr:N|thrmom:3|thrmom:4|loc1|loc2:one|loc2:all|locthr:N|locmom:1|locmom:2|s:STEPS [--shard I N] [--print]\n");
        return 2;
    }
    load_locales();
    std::vector<Sched> list;
    if (!make_list(masks, list)) { std::fprintf(stderr, "bad schedule list %s (locales known: %d)\n", masks.c_str(), int(g_locs.size())); return 2; }
    bool needs_locales = false;
    for (const Sched& s : list) if (is_localed(s)) needs_locales = true;
    if (needs_locales && masks.compare(0, 2, "s:") != 0 && g_locs.size() <= 3)
    {
        std::fprintf(stderr, "C13 calltime harness: the list %s needs the compiled 8-bit locales, but $LOCPATH/MANIFEST lists none\n", masks.c_str());
        return 2;
    }

    if (print_only)
    {
        for (std::size_t i = 0; i < list.size(); ++i)
            if (long(i % std::size_t(nshards)) == shard) std::printf("@@{\"t\":\"sched\",\"v\":\"%s\"}\n", vf::jesc(sched_arg(list[i])).c_str());
        vf::smax("calltime_locales", long(g_locs.size()));
        vf::done();
        return 0;
    }
    for (std::size_t i = 0; i < list.size(); ++i)
        if (long(i % std::size_t(nshards)) == shard) run_sched(set, setname.c_str(), list[i]);

    vf::stat("evaluations", g_cases);
    vf::stat("distinct_nontrivial", g_nontrivial);
    vf::stat("enc_cases", g_enc);
    vf::stat("dec_cases", g_cases - g_enc);
    vf::stat("calltime_cases", g_cases);
    vf::stat("calltime_processes", g_processes);
    vf::stat("violating_cases", g_failing);
    vf::smax("calltime_call_times", N_TIMES);
    vf::smax("calltime_input_set_size", n_cases(set));
    for (int t = 0; t < N_TIMES; ++t)
    {
        if (g_time_cases[t]) vf::stat(std::string("calltime[") + TIME_NAME[t] + "]", g_time_cases[t]);
        if (g_time_first[t]) vf::stat(std::string("calltime_processes_first_call[") + TIME_NAME[t] + "]", g_time_first[t]);
        if (g_time_later[t]) vf::stat(std::string("calltime_processes_later_call[") + TIME_NAME[t] + "]", g_time_later[t]);
    }
    if (g_thr_processes) { vf::stat("ambient_thread_processes", g_thr_processes); vf::stat("ambient_thread_cases", g_thr_cases); }
    if (g_loc_processes) { vf::stat("ambient_locale_processes", g_loc_processes); vf::stat("ambient_locale_cases", g_loc_cases); vf::smax("ambient_locales", long(g_locs.size())); }
    if (g_thrloc_processes) vf::stat("ambient_thread_x_locale_processes", g_thrloc_processes);
    if (g_setonly_steps) vf::stat("ambient_locale_set_only_steps", g_setonly_steps);
    for (const auto& kv : g_extra) vf::stat(kv.first, kv.second);
    if (g_lost) vf::stat("not_executed_after_crash", g_lost);
    vf::done();
    return 0;
}
