// C12: iterator bases and adaptors obey the random-access / bidirectional laws (DESIGN.md "### C12").
// One "world" per iterator kind: a real container of logical size n, the real iterator type, reference positions built
// by index arithmetic on the underlying storage, and an element-identification function.  laws.hpp enumerates every
// (n, law, a, b | d) inside the bounds and judges each against index arithmetic.
//
// The translation unit is compiled once per group (-DC12_GROUP=1..7) so that the groups build in parallel:
//   1 = xbitset_iterator over xdynamic_bitset<uint8_t>, 5 = other block types and xdynamic_bitset_view,
//   2 = xoptional_iterator kinds, 3 = xcomplex_iterator kinds, 4 = xstepping_iterator,
//   6 = xkey_iterator / xvalue_iterator / direct users of the base classes (toys),
//   7 = xoptional_iterator with uint8_t flag blocks, xcomplex_iterator over xcomplex_vector<float, true>
#include "laws.hpp"

#ifndef C12_GROUP
#error "compile with -DC12_GROUP=1..7"
#endif

#include <xtl/xiterator_base.hpp>
#if C12_GROUP == 1 || C12_GROUP == 5
#include <xtl/xdynamic_bitset.hpp>
#endif
#if C12_GROUP == 2 || C12_GROUP == 7
#include <xtl/xoptional_sequence.hpp>
#endif
#if C12_GROUP == 3 || C12_GROUP == 7
#include <xtl/xcomplex_sequence.hpp>
#endif

#include <cstdlib>
#include <deque>
#include <iterator>
#include <map>
#include <string>
#include <vector>

using c12::bool_identity;
using c12::block_writer;
using c12::index_in;

template <class T> struct blk_name;
template <> struct blk_name<std::uint8_t> { static const char* s() { return "u8"; } };
template <> struct blk_name<std::uint16_t> { static const char* s() { return "u16"; } };
template <> struct blk_name<std::uint32_t> { static const char* s() { return "u32"; } };
template <> struct blk_name<std::uint64_t> { static const char* s() { return "u64"; } };

// =====================================================================================================================
#if C12_GROUP == 1 || C12_GROUP == 5
// xbitset_iterator<B, is_const> over xdynamic_bitset<Blk> and xdynamic_bitset_view<Blk>; std::reverse_iterator of it
// (what rbegin()/rend() return).  MODE: 0 iterator, 1 const_iterator, 2 reverse_iterator, 3 const_reverse_iterator
template <class Blk, int MODE, bool VIEW>
struct bitset_world
{
    using owning_type = xtl::xdynamic_bitset<Blk>;
    using view_type = xtl::xdynamic_bitset_view<Blk>;
    using bs_type = std::conditional_t<VIEW, view_type, owning_type>;
    using fwd_iterator = typename bs_type::iterator;
    using fwd_const_iterator = typename bs_type::const_iterator;
    using iterator = std::conditional_t<MODE == 0, fwd_iterator,
                     std::conditional_t<MODE == 1, fwd_const_iterator,
                     std::conditional_t<MODE == 2, typename bs_type::reverse_iterator, typename bs_type::const_reverse_iterator>>>;
    using difference_type = typename iterator::difference_type;
    static constexpr bool random_access = true;
    static constexpr bool has_ext = false;
    static constexpr bool reversed = MODE >= 2;

    static std::string kind()
    {
        static const char* m[] = {"iterator", "const_iterator", "reverse_iterator", "const_reverse_iterator"};
        return std::string(VIEW ? "bitset_view_" : "bitset_") + blk_name<Blk>::s() + "." + m[MODE];
    }

    int n;
    std::vector<Blk> blocks;  // storage of the view
    bs_type bs;

    static bs_type make(std::vector<Blk>& st, int n_, std::true_type) { return view_type(st.data(), std::size_t(n_)); }
    static bs_type make(std::vector<Blk>&, int n_, std::false_type) { return owning_type(std::size_t(n_), false); }

    explicit bitset_world(int n_)
        : n(n_), blocks(std::size_t(n_) / (sizeof(Blk) * 8) + 2, Blk(0)), bs(make(blocks, n_, std::integral_constant<bool, VIEW>()))
    {
    }
    bitset_world(const bitset_world&) = delete;

    int size() const { return n; }

    iterator begin() { return begin_(std::integral_constant<int, MODE>()); }
    iterator end() { return end_(std::integral_constant<int, MODE>()); }
    iterator begin_(std::integral_constant<int, 0>) { return bs.begin(); }
    iterator end_(std::integral_constant<int, 0>) { return bs.end(); }
    iterator begin_(std::integral_constant<int, 1>) { return static_cast<const bs_type&>(bs).begin(); }
    iterator end_(std::integral_constant<int, 1>) { return static_cast<const bs_type&>(bs).end(); }
    iterator begin_(std::integral_constant<int, 2>) { return bs.rbegin(); }
    iterator end_(std::integral_constant<int, 2>) { return bs.rend(); }
    iterator begin_(std::integral_constant<int, 3>) { return static_cast<const bs_type&>(bs).rbegin(); }
    iterator end_(std::integral_constant<int, 3>) { return static_cast<const bs_type&>(bs).rend(); }

    // position p, from the public (container, index) constructor
    iterator ref(int p) { return ref_(p, std::integral_constant<int, MODE>()); }
    iterator ref_(int p, std::integral_constant<int, 0>) { return fwd_iterator(bs, std::size_t(p)); }
    iterator ref_(int p, std::integral_constant<int, 1>) { return fwd_const_iterator(bs, std::size_t(p)); }
    iterator ref_(int p, std::integral_constant<int, 2>) { return iterator(fwd_iterator(bs, std::size_t(n - p))); }
    iterator ref_(int p, std::integral_constant<int, 3>) { return iterator(fwd_const_iterator(bs, std::size_t(n - p))); }

    template <class F>
    int id_of(F&& f)
    {
        if (n == 0) return -1;
        int u = bool_identity(n, block_writer<Blk>{bs.data(), n}, [&]() { return static_cast<bool>(f()); });
        if (u < 0) return u;
        return reversed ? n - 1 - u : u;
    }
};
#endif

// =====================================================================================================================
#if C12_GROUP == 2 || C12_GROUP == 7
// xoptional_iterator over xoptional_vector<int> (flags: xdynamic_bitset<std::size_t>, the library default; group 7: uint8_t
// flag blocks, so that flag-block boundaries are crossed at small sizes).
// MODE: 0 iterator, 1 const_iterator, 2 reverse_iterator, 3 const_reverse_iterator
template <int MODE, class FlagBlk = std::size_t>
struct optional_world
{
    using ov_type = xtl::xoptional_vector<int, std::allocator<int>, xtl::xdynamic_bitset<FlagBlk>>;
    using vc_type = typename ov_type::base_container_type;
    using fc_type = typename ov_type::flag_container_type;
    using flag_block = typename fc_type::block_type;
    using iterator = std::conditional_t<MODE == 0, typename ov_type::iterator,
                     std::conditional_t<MODE == 1, typename ov_type::const_iterator,
                     std::conditional_t<MODE == 2, typename ov_type::reverse_iterator, typename ov_type::const_reverse_iterator>>>;
    using difference_type = typename iterator::difference_type;
    static constexpr bool random_access = true;
    static constexpr bool has_ext = false;
    static constexpr bool reversed = MODE >= 2;

    static std::string kind()
    {
        static const char* m[] = {"iterator", "const_iterator", "reverse_iterator", "const_reverse_iterator"};
        return std::string(sizeof(FlagBlk) == 1 ? "optional_vector_u8flags." : "optional_vector.") + m[MODE];
    }

    int n;
    ov_type ov;

    explicit optional_world(int n_) : n(n_), ov(std::size_t(n_), 0)
    {
        for (int q = 0; q < n; ++q) ov.value()[std::size_t(q)] = 100 + q;
    }
    optional_world(const optional_world&) = delete;
    int size() const { return n; }

    const ov_type& cov() const { return ov; }

    iterator begin() { return begin_(std::integral_constant<int, MODE>()); }
    iterator end() { return end_(std::integral_constant<int, MODE>()); }
    iterator begin_(std::integral_constant<int, 0>) { return ov.begin(); }
    iterator end_(std::integral_constant<int, 0>) { return ov.end(); }
    iterator begin_(std::integral_constant<int, 1>) { return cov().begin(); }
    iterator end_(std::integral_constant<int, 1>) { return cov().end(); }
    iterator begin_(std::integral_constant<int, 2>) { return ov.rbegin(); }
    iterator end_(std::integral_constant<int, 2>) { return ov.rend(); }
    iterator begin_(std::integral_constant<int, 3>) { return cov().rbegin(); }
    iterator end_(std::integral_constant<int, 3>) { return cov().rend(); }

    // position p from std::vector iterator arithmetic and the bitset iterator's (container, index) constructor
    iterator ref(int p) { return ref_(p, std::integral_constant<int, MODE>()); }
    iterator ref_(int p, std::integral_constant<int, 0>)
    {
        return iterator(ov.value().begin() + p, typename fc_type::iterator(ov.has_value(), std::size_t(p)));
    }
    iterator ref_(int p, std::integral_constant<int, 1>)
    {
        return iterator(cov().value().cbegin() + p, typename fc_type::const_iterator(cov().has_value(), std::size_t(p)));
    }
    iterator ref_(int p, std::integral_constant<int, 2>)
    {
        return iterator(typename vc_type::reverse_iterator(ov.value().begin() + (n - p)),
                        typename fc_type::reverse_iterator(typename fc_type::iterator(ov.has_value(), std::size_t(n - p))));
    }
    iterator ref_(int p, std::integral_constant<int, 3>)
    {
        return iterator(typename vc_type::const_reverse_iterator(cov().value().cbegin() + (n - p)),
                        typename fc_type::const_reverse_iterator(typename fc_type::const_iterator(cov().has_value(), std::size_t(n - p))));
    }

    template <class F>
    int id_of(F&& f)
    {
        if (n == 0) return -1;
        int uv;
        {
            auto r = f();
            uv = index_in<int>(ov.value().data(), n, &r.value());
        }
        if (uv < 0) return -7;  // the value part does not refer into the value storage
        int uf = bool_identity(n, block_writer<flag_block>{ov.has_value().data(), n}, [&]() {
            auto r = f();
            return static_cast<bool>(r.has_value());
        });
        ov.has_value().set();  // back to "all present"
        if (uf < 0) return uf;
        if (uf != uv) return -8;  // value and flag of different elements: the two storages are out of lockstep
        return reversed ? n - 1 - uv : uv;
    }
};
#endif

// =====================================================================================================================
#if C12_GROUP == 3 || C12_GROUP == 7
// xcomplex_iterator over xcomplex_vector<double> (group 7: xcomplex_vector<float, true>).  MODE as above.
template <int MODE, class T = double, bool IEEE = false>
struct complex_world
{
    using cv_type = xtl::xcomplex_vector<T, IEEE>;
    using c_type = typename cv_type::container_type;
    using iterator = std::conditional_t<MODE == 0, typename cv_type::iterator,
                     std::conditional_t<MODE == 1, typename cv_type::const_iterator,
                     std::conditional_t<MODE == 2, typename cv_type::reverse_iterator, typename cv_type::const_reverse_iterator>>>;
    using difference_type = typename iterator::difference_type;
    static constexpr bool random_access = true;
    static constexpr bool has_ext = false;
    static constexpr bool reversed = MODE >= 2;

    static std::string kind()
    {
        static const char* m[] = {"iterator", "const_iterator", "reverse_iterator", "const_reverse_iterator"};
        return std::string(IEEE ? "complex_vector_float_ieee." : "complex_vector.") + m[MODE];
    }

    int n;
    cv_type cv;

    explicit complex_world(int n_) : n(n_), cv(std::size_t(n_))
    {
        for (int q = 0; q < n; ++q) { cv.real()[std::size_t(q)] = T(100 + q); cv.imag()[std::size_t(q)] = T(200 + q); }
    }
    complex_world(const complex_world&) = delete;
    int size() const { return n; }
    const cv_type& ccv() const { return cv; }

    iterator begin() { return begin_(std::integral_constant<int, MODE>()); }
    iterator end() { return end_(std::integral_constant<int, MODE>()); }
    iterator begin_(std::integral_constant<int, 0>) { return cv.begin(); }
    iterator end_(std::integral_constant<int, 0>) { return cv.end(); }
    iterator begin_(std::integral_constant<int, 1>) { return ccv().begin(); }
    iterator end_(std::integral_constant<int, 1>) { return ccv().end(); }
    iterator begin_(std::integral_constant<int, 2>) { return cv.rbegin(); }
    iterator end_(std::integral_constant<int, 2>) { return cv.rend(); }
    iterator begin_(std::integral_constant<int, 3>) { return ccv().rbegin(); }
    iterator end_(std::integral_constant<int, 3>) { return ccv().rend(); }

    iterator ref(int p) { return ref_(p, std::integral_constant<int, MODE>()); }
    iterator ref_(int p, std::integral_constant<int, 0>) { return iterator(cv.real().begin() + p, cv.imag().begin() + p); }
    iterator ref_(int p, std::integral_constant<int, 1>) { return iterator(ccv().real().cbegin() + p, ccv().imag().cbegin() + p); }
    iterator ref_(int p, std::integral_constant<int, 2>)
    {
        return iterator(typename c_type::reverse_iterator(cv.real().begin() + (n - p)), typename c_type::reverse_iterator(cv.imag().begin() + (n - p)));
    }
    iterator ref_(int p, std::integral_constant<int, 3>)
    {
        return iterator(typename c_type::const_reverse_iterator(ccv().real().cbegin() + (n - p)),
                        typename c_type::const_reverse_iterator(ccv().imag().cbegin() + (n - p)));
    }

    template <class F>
    int id_of(F&& f)
    {
        if (n == 0) return -1;
        auto r = f();
        int ur = index_in<T>(cv.real().data(), n, &r.real());
        int ui = index_in<T>(cv.imag().data(), n, &r.imag());
        if (ur < 0 || ui < 0) return -7;
        if (ur != ui) return -8;
        return reversed ? n - 1 - ur : ur;
    }
};
#endif

// =====================================================================================================================
#if C12_GROUP == 4
// ---- xstepping_iterator<It> with a positive step S over a vector<int> of n*S elements -----------------------------
template <class It> struct base_it;
struct vec_base
{
    using container = std::vector<int>;
    static int index_of(container& v, const int* p) { return index_in<int>(v.data(), int(v.size()), p); }
};
template <> struct base_it<std::deque<int>::iterator>
{
    using container = std::deque<int>;
    static const char* name() { return "deque_iterator"; }
    static std::deque<int>::iterator at(container& v, int i) { return v.begin() + i; }
    static int index_of(container& v, const int* p)
    {
        for (std::size_t q = 0; q < v.size(); ++q)
            if (&v[q] == p) return int(q);
        return -1;
    }
};
template <> struct base_it<std::vector<int>::iterator> : vec_base
{
    static const char* name() { return "vec_iterator"; }
    static std::vector<int>::iterator at(std::vector<int>& v, int i) { return v.begin() + i; }
};
template <> struct base_it<std::vector<int>::const_iterator> : vec_base
{
    static const char* name() { return "vec_const_iterator"; }
    static std::vector<int>::const_iterator at(std::vector<int>& v, int i) { return v.cbegin() + i; }
};
template <> struct base_it<int*> : vec_base
{
    static const char* name() { return "pointer"; }
    static int* at(std::vector<int>& v, int i) { return v.data() + i; }
};

template <class It, int S>
struct stepping_world
{
    using iterator = xtl::xstepping_iterator<It>;
    using difference_type = typename iterator::difference_type;
    static constexpr bool random_access = true;
    static constexpr bool has_ext = false;

    static std::string kind() { return std::string("stepping.") + base_it<It>::name() + ".step" + vf::str(S); }

    int n;
    typename base_it<It>::container v;

    explicit stepping_world(int n_) : n(n_), v(std::size_t(n_) * S)
    {
        for (std::size_t q = 0; q < v.size(); ++q) v[q] = 100 + int(q);
    }
    stepping_world(const stepping_world&) = delete;
    int size() const { return n; }

    iterator begin() { return xtl::make_stepping_iterator(base_it<It>::at(v, 0), difference_type(S)); }
    iterator end() { return xtl::make_stepping_iterator(base_it<It>::at(v, int(v.size())), difference_type(S)); }
    iterator ref(int p) { return iterator(base_it<It>::at(v, p * S), difference_type(S)); }

    template <class F>
    int id_of(F&& f)
    {
        if (n == 0) return -1;
        const int& r = f();
        int u = base_it<It>::index_of(v, &r);
        if (u < 0) return -7;
        if (u % S != 0) return -9;  // an element between two steps
        return u / S;
    }
};

#endif

#if C12_GROUP == 6
// ---- xkey_iterator / xvalue_iterator over std::map and const std::map ---------------------------------------------
template <bool CONST_MAP>
struct key_world
{
    using map_type = std::map<int, double>;
    using M = std::conditional_t<CONST_MAP, const map_type, map_type>;
    using iterator = xtl::xkey_iterator<M>;
    using difference_type = std::ptrdiff_t;
    static constexpr bool random_access = false;
    static constexpr bool has_ext = false;
    static std::string kind() { return CONST_MAP ? "key_iterator.const_map" : "key_iterator.map"; }

    int n;
    map_type m;
    explicit key_world(int n_) : n(n_)
    {
        for (int q = 0; q < n; ++q) m[10 + 3 * q] = 100.5 + q;
    }
    key_world(const key_world&) = delete;
    int size() const { return n; }
    iterator begin() { return iterator(m.cbegin()); }
    iterator end() { return iterator(m.cend()); }
    iterator ref(int p) { return iterator(std::next(m.cbegin(), p)); }
    template <class F>
    int id_of(F&& f)
    {
        const int& r = f();
        int q = 0;
        for (auto it = m.cbegin(); it != m.cend(); ++it, ++q)
            if (&it->first == &r) return q;
        return -7;
    }
};

template <bool CONST_MAP>
struct value_world
{
    using map_type = std::map<int, double>;
    using M = std::conditional_t<CONST_MAP, const map_type, map_type>;
    using iterator = xtl::xvalue_iterator<M>;
    using difference_type = std::ptrdiff_t;
    static constexpr bool random_access = false;
    static constexpr bool has_ext = false;
    static std::string kind() { return CONST_MAP ? "value_iterator.const_map" : "value_iterator.map"; }

    int n;
    map_type m;
    explicit value_world(int n_) : n(n_)
    {
        for (int q = 0; q < n; ++q) m[10 + 3 * q] = 100.5 + q;
    }
    value_world(const value_world&) = delete;
    int size() const { return n; }
    M& mm() { return m; }
    iterator begin() { return iterator(mm().begin()); }
    iterator end() { return iterator(mm().end()); }
    iterator ref(int p) { return iterator(std::next(mm().begin(), p)); }
    template <class F>
    int id_of(F&& f)
    {
        const double& r = f();
        int q = 0;
        for (auto it = m.cbegin(); it != m.cend(); ++it, ++q)
            if (&it->second == &r) return q;
        return -7;
    }
};

// ---- direct users of xrandom_access_iterator_base + xrandom_access_iterator_ext ------------------------------------
// toy A: true references, difference_type = ptrdiff_t, one += / -= (size_t arguments convert)
class toy_ref_iterator : public xtl::xrandom_access_iterator_base<toy_ref_iterator, int>,
                         public xtl::xrandom_access_iterator_ext<toy_ref_iterator, int&>
{
public:
    using self_type = toy_ref_iterator;
    using base_type = xtl::xrandom_access_iterator_base<toy_ref_iterator, int>;
    using ext_type = xtl::xrandom_access_iterator_ext<toy_ref_iterator, int&>;
    using value_type = base_type::value_type;
    using reference = base_type::reference;
    using pointer = base_type::pointer;
    using difference_type = base_type::difference_type;
    using iterator_category = base_type::iterator_category;

    toy_ref_iterator() : m_p(nullptr) {}
    explicit toy_ref_iterator(int* p) : m_p(p) {}
    self_type& operator++() { ++m_p; return *this; }
    self_type& operator--() { --m_p; return *this; }
    self_type& operator+=(difference_type k) { m_p += k; return *this; }
    self_type& operator-=(difference_type k) { m_p -= k; return *this; }
    difference_type operator-(const self_type& rhs) const { return m_p - rhs.m_p; }
    reference operator*() const { return *m_p; }
    pointer operator->() const { return m_p; }
    bool operator==(const self_type& rhs) const { return m_p == rhs.m_p; }
    bool operator<(const self_type& rhs) const { return m_p < rhs.m_p; }
    using base_type::operator[];
    using ext_type::operator[];
private:
    int* m_p;
};

// toy B: shaped like the iterator of test_xiterator_base.cpp: returns values, difference_type = int, separate size_t overloads of += / -=
class toy_val_iterator : public xtl::xrandom_access_iterator_base<toy_val_iterator, int, int, const int*, int>,
                         public xtl::xrandom_access_iterator_ext<toy_val_iterator, int>
{
public:
    using self_type = toy_val_iterator;
    using base_type = xtl::xrandom_access_iterator_base<toy_val_iterator, int, int, const int*, int>;
    using ext_type = xtl::xrandom_access_iterator_ext<toy_val_iterator, int>;
    using value_type = base_type::value_type;
    using reference = base_type::reference;
    using pointer = base_type::pointer;
    using difference_type = base_type::difference_type;
    using size_type = ext_type::size_type;
    using iterator_category = base_type::iterator_category;

    toy_val_iterator() : m_data(nullptr), m_i(0) {}
    toy_val_iterator(const int* data, int i) : m_data(data), m_i(i) {}
    self_type& operator++() { ++m_i; return *this; }
    self_type& operator--() { --m_i; return *this; }
    self_type& operator+=(difference_type k) { m_i += k; return *this; }
    self_type& operator-=(difference_type k) { m_i -= k; return *this; }
    self_type& operator+=(size_type k) { m_i += static_cast<int>(k); return *this; }
    self_type& operator-=(size_type k) { m_i -= static_cast<int>(k); return *this; }
    reference operator*() const { return m_data[m_i]; }
    pointer operator->() const { return m_data + m_i; }
    using base_type::operator[];
    using ext_type::operator[];
    const int* m_data;
    int m_i;
};
inline int operator-(const toy_val_iterator& l, const toy_val_iterator& r) { return l.m_i - r.m_i; }
inline bool operator==(const toy_val_iterator& l, const toy_val_iterator& r) { return l.m_data == r.m_data && l.m_i == r.m_i; }
inline bool operator<(const toy_val_iterator& l, const toy_val_iterator& r) { return l.m_i < r.m_i; }

struct toy_ref_world
{
    using iterator = toy_ref_iterator;
    using difference_type = iterator::difference_type;
    static constexpr bool random_access = true;
    static constexpr bool has_ext = true;
    static std::string kind() { return "toy_ref_base_ext"; }
    int n;
    std::vector<int> v;
    explicit toy_ref_world(int n_) : n(n_), v(std::size_t(n_) + 1)  // one spare element so that data() is never null
    {
        for (std::size_t q = 0; q < v.size(); ++q) v[q] = 100 + int(q);
    }
    toy_ref_world(const toy_ref_world&) = delete;
    int size() const { return n; }
    iterator begin() { return iterator(v.data()); }
    iterator end() { return iterator(v.data() + n); }
    iterator ref(int p) { return iterator(v.data() + p); }
    template <class F>
    int id_of(F&& f)
    {
        const int& r = f();
        return index_in<int>(v.data(), n, &r);
    }
};

struct toy_val_world
{
    using iterator = toy_val_iterator;
    using difference_type = iterator::difference_type;
    static constexpr bool random_access = true;
    static constexpr bool has_ext = true;
    static std::string kind() { return "toy_val_base_ext"; }
    int n;
    std::vector<int> v;
    explicit toy_val_world(int n_) : n(n_), v(std::size_t(n_) + 1)
    {
        for (std::size_t q = 0; q < v.size(); ++q) v[q] = 100 + int(q);
    }
    toy_val_world(const toy_val_world&) = delete;
    int size() const { return n; }
    iterator begin() { return iterator(v.data(), 0); }
    iterator end() { return iterator(v.data(), n); }
    iterator ref(int p) { return iterator(v.data(), p); }
    template <class F>
    int id_of(F&& f)
    {
        int val = f();  // a value, identified by its (unique) content
        int u = val - 100;
        return (u >= 0 && u < n) ? u : -7;
    }
};
#endif

// =====================================================================================================================
static void register_all()
{
    using c12::register_kind;
#if C12_GROUP == 1
    register_kind<bitset_world<std::uint8_t, 0, false>>();
    register_kind<bitset_world<std::uint8_t, 1, false>>();
    register_kind<bitset_world<std::uint8_t, 2, false>>();
    register_kind<bitset_world<std::uint8_t, 3, false>>();
#elif C12_GROUP == 5
    register_kind<bitset_world<std::uint64_t, 0, false>>();
    register_kind<bitset_world<std::uint64_t, 1, false>>();
    register_kind<bitset_world<std::uint8_t, 0, true>>();
    register_kind<bitset_world<std::uint8_t, 1, true>>();
    register_kind<bitset_world<std::uint16_t, 0, false>>();
    register_kind<bitset_world<std::uint32_t, 1, true>>();
#elif C12_GROUP == 2
    register_kind<optional_world<0>>();
    register_kind<optional_world<1>>();
    register_kind<optional_world<2>>();
    register_kind<optional_world<3>>();
#elif C12_GROUP == 3
    register_kind<complex_world<0>>();
    register_kind<complex_world<1>>();
    register_kind<complex_world<2>>();
    register_kind<complex_world<3>>();
#elif C12_GROUP == 4
    register_kind<stepping_world<std::vector<int>::iterator, 1>>();
    register_kind<stepping_world<std::vector<int>::iterator, 2>>();
    register_kind<stepping_world<std::vector<int>::iterator, 3>>();
    register_kind<stepping_world<std::vector<int>::iterator, 4>>();
    register_kind<stepping_world<std::vector<int>::const_iterator, 1>>();
    register_kind<stepping_world<std::vector<int>::const_iterator, 2>>();
    register_kind<stepping_world<std::vector<int>::const_iterator, 3>>();
    register_kind<stepping_world<std::vector<int>::const_iterator, 4>>();
    register_kind<stepping_world<int*, 1>>();
    register_kind<stepping_world<int*, 2>>();
    register_kind<stepping_world<int*, 3>>();
    register_kind<stepping_world<int*, 4>>();
    register_kind<stepping_world<int*, 7>>();
    register_kind<stepping_world<std::deque<int>::iterator, 1>>();
    register_kind<stepping_world<std::deque<int>::iterator, 3>>();
#elif C12_GROUP == 7
    register_kind<optional_world<0, std::uint8_t>>();
    register_kind<optional_world<1, std::uint8_t>>();
    register_kind<optional_world<2, std::uint8_t>>();
    register_kind<optional_world<3, std::uint8_t>>();
    register_kind<complex_world<0, float, true>>();
    register_kind<complex_world<3, float, true>>();
#elif C12_GROUP == 6
    register_kind<key_world<false>>();
    register_kind<key_world<true>>();
    register_kind<value_world<false>>();
    register_kind<value_world<true>>();
    register_kind<toy_ref_world>();
    register_kind<toy_val_world>();
#endif
}

static const c12::kind_entry* find_kind(const std::string& name)
{
    for (const c12::kind_entry& e : c12::registry())
        if (e.name == name) return &e;
    return nullptr;
}

int main(int argc, char** argv)
{
    register_all();
    c12::install_crash_attribution();
    std::string kind, law;
    int nmin = 0, nmax = 8, n = -1, a = 0, x = 0;
    double deadline = 1e9;
    bool list = false;
    for (int i = 1; i < argc; ++i)
    {
        std::string s = argv[i];
        auto next = [&]() -> std::string { return (i + 1 < argc) ? argv[++i] : ""; };
        if (s == "--list") list = true;
        else if (s == "--kind") kind = next();
        else if (s == "--nmin") nmin = std::atoi(next().c_str());
        else if (s == "--nmax") nmax = std::atoi(next().c_str());
        else if (s == "--deadline") deadline = std::atof(next().c_str());
        else if (s == "--n") n = std::atoi(next().c_str());
        else if (s == "--law") law = next();
        else if (s == "--a") a = std::atoi(next().c_str());
        else if (s == "--x") x = std::atoi(next().c_str());
        else { std::fprintf(stderr, "unknown argument %s\n", s.c_str()); return 2; }
    }
    if (list)
    {
        for (const c12::kind_entry& e : c12::registry())
            vf::note("kind " + e.name + " random_access=" + vf::str(int(e.random_access)) + " less=" + vf::str(int(e.less)) + " ext=" + vf::str(int(e.ext)));
        vf::done();
        return 0;
    }
    const c12::kind_entry* e = find_kind(kind);
    int ordinal = e ? int(e - &c12::registry()[0]) + 3 * C12_GROUP : 0;
    if (!e) { std::fprintf(stderr, "unknown kind '%s' in group %d\n", kind.c_str(), C12_GROUP); return 2; }
    if (!law.empty())
    {
        // replay of exactly one law instance
        int l = c12::law_from_name(law);
        if (n < 0 || l < 0 || e->one(n, l, a, x) != 0) { std::fprintf(stderr, "case is not in the domain of kind %s\n", kind.c_str()); return 2; }
        vf::done();
        return 0;
    }
    e->enumerate(nmin, nmax, c12::now_s() + deadline, ordinal);
    vf::stat("kind_size_range_runs");
    vf::done();
    return 0;
}
