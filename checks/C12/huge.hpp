// C12, the MAGNITUDE dimension: the same laws as laws.hpp, enumerated over ranges whose positions and offsets reach
// 2^31, 2^32, 2^33, 2^53, 2^62 and PTRDIFF_MAX.  Such ranges cost no memory: either the sequence is implicit (element i
// has the value i), or the storage is an anonymous mapping of which only a few pages are ever touched.
//
// The small-scope part enumerates EVERY position of [0,n]; that is impossible for n ~ 2^32..2^63.  Here the position
// space of a world of size N is the BOUNDARY ALPHABET
//     A(N) = { v, N - v : v in V, v <= N },   V = { 0, 1, 2^k - 1, 2^k, 2^k + 1 (k in K), PTRDIFF_MAX - 1, PTRDIFF_MAX }
// (K and the window width depend on the tier) and the pair space is
//     P(N) = A x A   united with   { (a, a + v), (a, a - v) : a in A, v in V, result inside [0,N] }
// i.e. every ordered pair of boundary positions and every boundary offset applied to every boundary position.
// Every law is executed for EVERY element of A (position laws) resp. P (pair / offset laws): exhaustive over the
// alphabet, nothing sampled.  One law instance = (kind, N, law, a, b); the offset of the instance is d = b - a.
//
// Oracle: 64-bit index arithmetic.  W::ref(p) builds the iterator at position p through the iterator's public
// constructor (never through an operator under test); "x is at position p" means x == ref(p) and x != ref(q) for every
// other q of the alphabet; which element a dereference designates is decided from the address of the referenced object,
// from the value (implicit sequences), or - bool proxies - by reading it once with ONLY the expected bit set in the
// block storage and once with the storage all zero.
#ifndef C12_HUGE_HPP
#define C12_HUGE_HPP

#include "laws.hpp"

#include <algorithm>
#include <climits>
#include <set>
#include <sys/mman.h>

namespace c12h
{
    using namespace c12;
    using pos_t = long long;
    static_assert(sizeof(pos_t) == 8 && sizeof(std::ptrdiff_t) == 8 && sizeof(std::size_t) == 8, "the magnitude part needs an LP64 target");

    // 4294967297 -> "4294967297 (2^32+1)"
    inline std::string pstr(pos_t v)
    {
        std::string s = vf::str(v);
        if (v == LLONG_MIN) return s + " (-2^63)";
        const pos_t m = v < 0 ? -v : v;
        const char* sign = v < 0 ? "-" : "";
        if (m >= LLONG_MAX - 3)
            return s + " (" + sign + "(2^63-" + vf::str(LLONG_MAX - m + 1) + "))";
        for (int k = 10; k <= 62; ++k)
        {
            const pos_t base = pos_t(1) << k;
            if (m >= base - 3 && m <= base + 3)
            {
                std::string t = std::string("2^") + vf::str(k);
                if (m > base) t += "+" + vf::str(m - base);
                if (m < base) t += "-" + vf::str(base - m);
                return s + " (" + sign + (v < 0 && m != base ? "(" + t + ")" : t) + ")";
            }
        }
        return s;
    }

    // ---- the boundary alphabet ------------------------------------------------------------------------------------
    struct alphabet_spec
    {
        std::vector<int> ks;       // powers of two with a window of +-1
        std::vector<int> wide_ks;  // powers of two with a window of +-wide
        int wide;
    };

    inline alphabet_spec spec_of(bool thorough)
    {
        alphabet_spec s;
        if (!thorough)
        {
            s.ks = {6, 7, 8, 15, 16, 31, 32, 33, 53, 62};
            s.wide = 1;
        }
        else
        {
            for (int k = 1; k <= 62; ++k) s.ks.push_back(k);
            s.wide_ks = {8, 16, 31, 32, 33, 53, 62};
            s.wide = 3;
        }
        return s;
    }

    inline std::vector<pos_t> boundary_values(bool thorough)
    {
        const alphabet_spec sp = spec_of(thorough);
        std::set<pos_t> s;
        for (int k : sp.ks)
            for (int dw = -1; dw <= 1; ++dw) s.insert((pos_t(1) << k) + dw);
        for (int k : sp.wide_ks)
            for (int dw = -sp.wide; dw <= sp.wide; ++dw) s.insert((pos_t(1) << k) + dw);
        for (int dw = 0; dw <= sp.wide; ++dw)
        {
            s.insert(dw);
            s.insert(LLONG_MAX - dw);
        }
        return std::vector<pos_t>(s.begin(), s.end());
    }

    inline std::string alphabet_doc(bool thorough)
    {
        const alphabet_spec sp = spec_of(thorough);
        std::string s = "V = {0..";
        s += vf::str(sp.wide) + "} + {2^k-1, 2^k, 2^k+1 : k in";
        if (thorough) s += " 1..62";
        else
            for (int k : sp.ks) s += " " + vf::str(k);
        s += "}";
        if (!sp.wide_ks.empty())
        {
            s += " + {2^k-" + vf::str(sp.wide) + " .. 2^k+" + vf::str(sp.wide) + " : k in";
            for (int k : sp.wide_ks) s += " " + vf::str(k);
            s += "}";
        }
        s += " + {2^63-1-" + vf::str(sp.wide) + " .. 2^63-1}";
        return s;
    }

    // ---- anonymous mappings: address space, not memory ---------------------------------------------------------------
    struct mapping
    {
        void* p = nullptr;
        std::size_t bytes = 0;
        mapping() = default;
        mapping(const mapping&) = delete;
        mapping& operator=(const mapping&) = delete;
        // writable = false: read-only zero pages (never committed); writable: private zero pages, committed only when written
        bool map(std::size_t n, bool writable)
        {
            bytes = (n + 4095) / 4096 * 4096 + 4096;
            void* r = ::mmap(nullptr, bytes, writable ? (PROT_READ | PROT_WRITE) : PROT_READ, MAP_PRIVATE | MAP_ANONYMOUS | MAP_NORESERVE, -1, 0);
            if (r == MAP_FAILED) { p = nullptr; return false; }
            p = r;
            return true;
        }
        ~mapping() { if (p) ::munmap(p, bytes); }
    };

    // ---- counters ---------------------------------------------------------------------------------------------------
    struct hcounters
    {
        long long evaluations = 0, nontrivial = 0, assertions = 0;
        long long law[L_COUNT] = {};
        void flush()
        {
            if (evaluations) { vf::stat("evaluations", evaluations); vf::stat("huge_law_instances", evaluations); }
            if (nontrivial) { vf::stat("distinct_nontrivial", nontrivial); vf::stat("huge_distinct_nontrivial", nontrivial); }
            if (assertions) vf::stat("assertions", assertions);
            for (int l = 0; l < L_COUNT; ++l)
                if (law[l]) { vf::stat(std::string("law_") + law_name(l), law[l]); vf::stat(std::string("huge_law_") + law_name(l), law[l]); }
            *this = hcounters();
        }
    };
    inline hcounters& hcnt() { static hcounters c; return c; }

    struct hcurrent
    {
        std::string kind;
        pos_t N = -1, a = 0, b = 0;
        int law = -1;
        bool active = false;
    };
    inline hcurrent& hcur() { static hcurrent c; return c; }

    // the tier selects the alphabet, and "at position p" is judged against the whole alphabet: a replay uses the same one
    inline bool& thorough_alphabet() { static bool t = false; return t; }

    inline std::vector<std::string> hreplay_args(const std::string& kind, pos_t N, int law, pos_t a, pos_t b)
    {
        return {"--kind", kind, "--tier", thorough_alphabet() ? "thorough" : "quick", "--N", vf::str(N), "--law", law_name(law), "--a", vf::str(a), "--b", vf::str(b)};
    }

    inline void install_crash_attribution()
    {
        vf::crash_hook() = [](const char* signame) {
            hcurrent& c = hcur();
            hcnt().flush();
            if (!c.active) return;
            vf::violation("C12/" + c.kind + "/" + law_name(c.law) + "/crash",
                          "kind=" + c.kind + " world made from size " + pstr(c.N) + " law=" + law_name(c.law) + " a=" + pstr(c.a) + " b=" + pstr(c.b) +
                              ": the process died with " + signame + " while evaluating this law instance",
                          hreplay_args(c.kind, c.N, c.law, c.a, c.b));
        };
        vf::install_crash_handler();
    }

    // ---- the runner ---------------------------------------------------------------------------------------------------
    // World concept (see huge.cpp):  iterator, difference_type, random_access, has_ext, kind(), sizes(thorough),
    //   W(N0), ok(), size(), made_from() [= N0], begin(), end(), ref(p), peek(it, out) [position read through an accessor of a harness iterator, for
    //   messages only], elem_mismatch(f, expected, A) ["" when f() designates element `expected`], extra_positions(set, V)
    template <class W>
    struct hrunner
    {
        using It = typename W::iterator;
        using D = typename W::difference_type;
        static_assert(sizeof(D) == 8, "a world of the magnitude part needs a 64-bit difference_type");

        W& w;
        const pos_t N;   // size of the world = number of positions - 1
        const pos_t N0;  // the argument the world was constructed from (the size of the UNDERLYING range for stepping worlds): replay argument
        const std::vector<pos_t>& A;
        int law = 0;
        pos_t a = 0, b = 0;
        std::string* trace = nullptr;

        hrunner(W& world, const std::vector<pos_t>& alphabet) : w(world), N(world.size()), N0(world.made_from()), A(alphabet) { hcur().kind = W::kind(); }

        std::string where() const
        {
            return "kind=" + W::kind() + " N=" + pstr(N) + " law=" + law_name(law) + " a=" + pstr(a) + " b=" + pstr(b) + " (d=b-a=" + pstr(b - a) + ")";
        }
        void fail(const char* failure_kind, const std::string& detail) const
        {
            vf::violation("C12/" + W::kind() + "/" + law_name(law) + "/" + failure_kind, where() + ": " + detail, hreplay_args(W::kind(), N0, law, a, b));
        }

        // where is `it`, as far as it can be told without an operator under test other than == : accessor, else alphabet scan
        std::string observed(const It& it) const
        {
            pos_t p = 0;
            if (w.peek(it, p)) return "position " + pstr(p);
            std::string s;
            int k = 0;
            for (pos_t q : A)
                if (it == w.ref(q)) { s += (k++ ? ", " : "") + pstr(q); }
            if (k == 0) return "none of the " + vf::str(A.size()) + " boundary positions of [begin,end]";
            return std::string(k > 1 ? "positions " : "position ") + s + (k > 1 ? " (operator== not injective)" : "");
        }

        template <class F>
        void expect_elem(F&& f, pos_t expected, const char* expr0, bool deref_of = false) const
        {
            ++hcnt().assertions;
            std::string got = w.elem_mismatch(f, expected, A);
            if (!trace && got.empty()) return;
            std::string expr = deref_of ? "*(" + std::string(expr0) + ")" : std::string(expr0);
            if (trace) *trace += expr + " designates " + (got.empty() ? "element " + pstr(expected) : got) + "; ";
            if (!got.empty()) fail("wrong_element", expr + " must designate element " + pstr(expected) + ", observed " + got);
        }

        void expect_pos(const It& it, pos_t expected, const char* expr0) const
        {
            ++hcnt().assertions;
            bool at = (it == w.ref(expected));
            bool elsewhere = false;
            for (pos_t q : A)
                if (q != expected && it == w.ref(q)) { elsewhere = true; break; }
            if (trace) *trace += std::string(expr0) + " is at " + observed(it) + "; ";
            if (!at || elsewhere)
            {
                fail("wrong_position", std::string(expr0) + " must be at position " + pstr(expected) + (at ? " only" : "") + ", observed " + observed(it));
                return;
            }
            if (expected < N)
                expect_elem([&]() -> decltype(auto) { return *it; }, expected, expr0, true);
        }

        void expect_bool(bool got, bool expected, const char* expr0) const
        {
            ++hcnt().assertions;
            if (!trace && got == expected) return;
            if (trace) *trace += std::string(expr0) + " is " + (got ? "true" : "false") + "; ";
            if (got != expected)
                fail("wrong_value", std::string(expr0) + " must be " + (expected ? "true" : "false") + ", observed " + (got ? "true" : "false"));
        }

        void expect_diff(long long got, long long expected, const char* expr0) const
        {
            ++hcnt().assertions;
            if (!trace && got == expected) return;
            if (trace) *trace += std::string(expr0) + " == " + pstr(got) + "; ";
            if (got != expected) fail("wrong_value", std::string(expr0) + " must be " + pstr(expected) + ", observed " + pstr(got));
        }

        // ---- domains --------------------------------------------------------------------------------------------------
        static bool applicable(int l)
        {
            if (l == L_TRAV_FWD || l == L_TRAV_BWD) return false;  // a traversal of 2^32 .. 2^63 elements is not feasible; ++/-- are enumerated per boundary position
            if (l < L_PLUS) return true;
            if (!W::random_access) return false;
            if (l == L_ORDER) return has_less<It>::value;
            if (l == L_EXT) return W::has_ext;
            return true;
        }
        // 0 = per N, 1 = per position a, 2 = per pair (a, b)
        static int shape(int l)
        {
            switch (l)
            {
            case L_ANCHOR: return 0;
            case L_DEREF: case L_PRE_INC: case L_PRE_DEC: case L_POST_INC: case L_POST_DEC: return 1;
            default: return 2;
            }
        }
        bool in_domain(int l, pos_t a_, pos_t b_) const
        {
            if (l < 0 || l >= L_COUNT || !applicable(l)) return false;
            if (a_ < 0 || a_ > N || b_ < 0 || b_ > N) return false;
            switch (l)
            {
            case L_ANCHOR: return a_ == 0 && b_ == 0;
            case L_DEREF: case L_PRE_INC: case L_POST_INC: return a_ < N && b_ == a_;
            case L_PRE_DEC: case L_POST_DEC: return a_ > 0 && b_ == a_;
            case L_SUBSCRIPT: return b_ < N;
            default: return true;
            }
        }
        bool nontrivial(int l, pos_t a_, pos_t b_) const { return shape(l) != 2 || a_ != b_; }

        void run(int l, pos_t a_, pos_t b_)
        {
            law = l; a = a_; b = b_;
            hcurrent& c = hcur();
            c.N = N0; c.law = l; c.a = a_; c.b = b_; c.active = true;
            vf::take_asan();
            laws(std::integral_constant<bool, W::random_access>());
            if (vf::take_asan()) fail("asan", "a sanitizer reported a memory error while this law instance was evaluated");
            c.active = false;
            ++hcnt().evaluations;
            ++hcnt().law[l];
            if (nontrivial(l, a_, b_)) ++hcnt().nontrivial;
        }

        std::string traced(int l, pos_t a_, pos_t b_)
        {
            std::string t;
            law = l; a = a_; b = b_;
            trace = &t;
            laws(std::integral_constant<bool, W::random_access>());
            trace = nullptr;
            return where() + ": " + t;
        }

        void laws(std::false_type) { bidirectional_laws(); }
        void laws(std::true_type)
        {
            if (law < L_PLUS) bidirectional_laws();
            else random_access_laws();
        }

        void bidirectional_laws()
        {
            switch (law)
            {
            case L_ANCHOR:
                expect_pos(w.begin(), 0, "container begin()");
                expect_pos(w.end(), N, "container end()");
                break;
            case L_DEREF:
            {
                It it = w.ref(a);
                expect_elem([&]() -> decltype(auto) { return *it; }, a, "*it");
                break;
            }
            case L_EQUALITY:
            {
                It p = w.ref(a), q = w.ref(b);
                bool eq = (p == q), ne = (p != q);
                expect_bool(eq, a == b, "it(a) == it(b)");
                expect_bool(ne, a != b, "it(a) != it(b)");
                expect_bool(ne, !eq, "(a != b) as the negation of (a == b)");
                break;
            }
            case L_PRE_INC:
            {
                It it = w.ref(a);
                ++it;
                expect_pos(it, a + 1, "it after ++it");
                break;
            }
            case L_PRE_DEC:
            {
                It it = w.ref(a);
                --it;
                expect_pos(it, a - 1, "it after --it");
                break;
            }
            case L_POST_INC:
            {
                It it = w.ref(a);
                It old = it++;
                expect_pos(old, a, "value of it++");
                expect_pos(it, a + 1, "it after it++");
                break;
            }
            case L_POST_DEC:
            {
                It it = w.ref(a);
                It old = it--;
                expect_pos(old, a, "value of it--");
                expect_pos(it, a - 1, "it after it--");
                break;
            }
            default: break;
            }
        }

        void random_access_laws() { random_access_laws_impl(std::integral_constant<bool, W::random_access>()); }
        void random_access_laws_impl(std::false_type) {}
        void random_access_laws_impl(std::true_type)
        {
            const pos_t x = b - a;  // |x| <= N <= PTRDIFF_MAX: representable, and so is -x
            const D d = static_cast<D>(x);
            const D md = static_cast<D>(-x);
            switch (law)
            {
            case L_PLUS:
            {
                It it = w.ref(a);
                It r = it + d;
                expect_pos(r, b, "it + d");
                expect_pos(it, a, "it after evaluating it + d");
                expect_diff(static_cast<long long>(r - it), x, "(it + d) - it");
                break;
            }
            case L_PLUS_COMMUTED:
            {
                It it = w.ref(a);
                It r = d + it;
                expect_pos(r, b, "d + it");
                expect_bool(r == (it + d), true, "(d + it) == (it + d)");
                break;
            }
            case L_MINUS:
            {
                It it = w.ref(a);
                It r = it - md;
                expect_pos(r, b, "it - (-d)");
                expect_pos(it, a, "it after evaluating it - (-d)");
                It back = (it + d) - d;
                expect_pos(back, a, "(it + d) - d");
                expect_bool(back == it, true, "((it + d) - d) == it");
                break;
            }
            case L_COMPOUND:
            {
                It it = w.ref(a);
                it += d;
                expect_pos(it, b, "it after it += d");
                it -= d;
                expect_pos(it, a, "it after it += d; it -= d");
                It jt = w.ref(a);
                jt -= md;
                expect_pos(jt, b, "it after it -= (-d)");
                break;
            }
            case L_DIFFERENCE:
            {
                It p = w.ref(a), q = w.ref(b);
                expect_diff(static_cast<long long>(q - p), x, "it(b) - it(a)");
                expect_diff(static_cast<long long>(p - q), -x, "it(a) - it(b)");
                break;
            }
            case L_SUBSCRIPT:
            {
                It it = w.ref(a);
                expect_elem([&]() -> decltype(auto) { return it[d]; }, b, "it[d]");
                expect_elem([&]() -> decltype(auto) { return *(it + d); }, b, "*(it + d)");
                break;
            }
            case L_ORDER:
                order_law(has_less<It>());
                break;
            case L_EXT:
                ext_law(std::integral_constant<bool, W::has_ext>());
                break;
            default: break;
            }
        }

        void order_law(std::false_type) {}
        void order_law(std::true_type)
        {
            It p = w.ref(a), q = w.ref(b);
            bool lt = p < q, le = p <= q, gt = p > q, ge = p >= q;
            expect_bool(lt, a < b, "it(a) < it(b)");
            expect_bool(le, a <= b, "it(a) <= it(b)");
            expect_bool(gt, a > b, "it(a) > it(b)");
            expect_bool(ge, a >= b, "it(a) >= it(b)");
            const bool positive = (q - p) > 0;
            expect_bool(lt == positive, true, lt ? "[it(a) < it(b) is true, it(b) - it(a) > 0 is false] (a < b) exactly when (b - a > 0)"
                                                 : "[it(a) < it(b) is false, it(b) - it(a) > 0 is true] (a < b) exactly when (b - a > 0)");
            expect_bool(gt, q < p, "(a > b) as the reversal (b < a)");
            expect_bool(le, !(q < p), "(a <= b) as the negation of (b < a)");
            expect_bool(ge, !lt, "(a >= b) as the negation of (a < b)");
        }

        void ext_law(std::false_type) {}
        void ext_law(std::true_type)
        {
            const pos_t x = b - a;
            It it = w.ref(a);
            if (x >= 0)
            {
                const std::size_t u = static_cast<std::size_t>(x);
                const D d = static_cast<D>(x);
                It r = it + u;
                expect_pos(r, b, "it + size_t(d)");
                expect_bool(r == (it + d), true, "(it + size_t(d)) == (it + difference_type(d))");
                expect_diff(static_cast<long long>(r - it), x, "(it + size_t(d)) - it");
                It r2 = u + it;
                expect_pos(r2, b, "size_t(d) + it");
                expect_bool(r2 == (d + it), true, "(size_t(d) + it) == (difference_type(d) + it)");
                It back = r - u;
                expect_pos(back, a, "(it + size_t(d)) - size_t(d)");
                if (b < N)
                {
                    expect_elem([&]() -> decltype(auto) { return it[u]; }, b, "it[size_t(d)]");
                    expect_elem([&]() -> decltype(auto) { return it[d]; }, b, "it[difference_type(d)]");
                }
            }
            if (x <= 0)
            {
                const std::size_t u = static_cast<std::size_t>(-x);
                const D e = static_cast<D>(-x);
                It r = it - u;
                expect_pos(r, b, "it - size_t(e)");
                expect_bool(r == (it - e), true, "(it - size_t(e)) == (it - difference_type(e))");
            }
        }
    };

    // ---- alphabet of one world ----------------------------------------------------------------------------------------
    template <class W>
    std::vector<pos_t> positions_of(W& w, const std::vector<pos_t>& V)
    {
        const pos_t N = w.size();
        std::set<pos_t> s;
        for (pos_t v : V)
            if (v <= N) { s.insert(v); s.insert(N - v); }
        w.extra_positions(s, V);
        return std::vector<pos_t>(s.begin(), s.end());
    }

    inline std::vector<std::pair<pos_t, pos_t>> pairs_of(pos_t N, const std::vector<pos_t>& A, const std::vector<pos_t>& V)
    {
        std::set<std::pair<pos_t, pos_t>> s;
        for (pos_t p : A)
        {
            for (pos_t q : A) s.insert({p, q});
            for (pos_t v : V)
            {
                if (v <= N - p) s.insert({p, p + v});
                if (v <= p) s.insert({p, p - v});
            }
        }
        return std::vector<std::pair<pos_t, pos_t>>(s.begin(), s.end());
    }

    // ---- kind registry ----------------------------------------------------------------------------------------------
    struct hkind_entry
    {
        std::string name;
        bool random_access, less, ext;
        void (*enumerate)(bool thorough, double deadline_at, int ordinal);
        int (*one)(pos_t N, int law, pos_t a, pos_t b);  // 0 ok, 1 not in the domain, 2 the world could not be set up
    };
    inline std::vector<hkind_entry>& hregistry() { static std::vector<hkind_entry> r; return r; }

    template <class W>
    void enumerate_hkind(bool thorough, double deadline_at, int ordinal)
    {
        const std::vector<pos_t> V = boundary_values(thorough);
        for (pos_t N0 : W::sizes(thorough))
        {
            W w(N0);
            if (!w.ok())
            {
                vf::cap("kind " + W::kind() + ": the address range for a world of size " + pstr(N0) + " could not be mapped (mmap failed); this size was not enumerated");
                continue;
            }
            const pos_t N = w.size();
            const std::vector<pos_t> A = positions_of(w, V);
            const std::vector<std::pair<pos_t, pos_t>> P = pairs_of(N, A, V);
            hrunner<W> r(w, A);
            bool stopped = false;
            for (int l = 0; l < L_COUNT && !stopped; ++l)
            {
                if (!hrunner<W>::applicable(l)) continue;
                if (now_s() > deadline_at)
                {
                    vf::cap("kind " + W::kind() + " N=" + pstr(N) + ": deadline reached, laws from " + law_name(l) + " on not enumerated");
                    stopped = true;
                    break;
                }
                switch (hrunner<W>::shape(l))
                {
                case 0:
                    r.run(l, 0, 0);
                    break;
                case 1:
                    for (pos_t p : A)
                        if (r.in_domain(l, p, p)) r.run(l, p, p);
                    break;
                default:
                    for (const auto& pq : P)
                        if (r.in_domain(l, pq.first, pq.second)) r.run(l, pq.first, pq.second);
                    break;
                }
            }
            hcnt().flush();
            vf::stat("huge_worlds");
            vf::stat("worlds");
            vf::stat("huge_positions", (long long)A.size());
            vf::stat("huge_pairs", (long long)P.size());
            vf::smax("huge_max_alphabet", (long long)A.size());
            vf::note("huge kind " + W::kind() + ": N=" + pstr(N) + (N != N0 ? " steps over an underlying range of " + pstr(N0) + " elements" : "") + ", " + vf::str(A.size()) + " boundary positions, " + vf::str(P.size()) + " (position, target) pairs");
            if (N0 == W::sizes(thorough)[0])
            {
                // one instance written out for the evidence: a pair that straddles 2^31 and 2^32 when the world is that long
                std::vector<int> ls;
                const pos_t pa = std::min<pos_t>(N, (pos_t(1) << 31) - 1), pb = std::min<pos_t>(N - 1, (pos_t(1) << 32) + 1);
                for (int l = 0; l < L_COUNT; ++l)
                    if (hrunner<W>::shape(l) == 2 && r.in_domain(l, pa, pb)) ls.push_back(l);
                if (!ls.empty()) vf::sample(r.traced(ls[std::size_t(ordinal) % ls.size()], pa, pb), 1);
            }
            if (stopped) return;
        }
    }

    template <class W>
    int one_hcase(pos_t N0, int law, pos_t a, pos_t b)
    {
        if (N0 < 1) return 1;
        W w(N0);
        if (!w.ok()) return 2;
        const std::vector<pos_t> V = boundary_values(thorough_alphabet());
        const std::vector<pos_t> A = positions_of(w, V);
        hrunner<W> r(w, A);
        if (!r.in_domain(law, a, b)) return 1;
        r.run(law, a, b);
        hcnt().flush();
        return 0;
    }

    template <class W>
    void register_hkind()
    {
        hkind_entry e;
        e.name = W::kind();
        e.random_access = W::random_access;
        e.less = has_less<typename W::iterator>::value;
        e.ext = W::has_ext;
        e.enumerate = &enumerate_hkind<W>;
        e.one = &one_hcase<W>;
        hregistry().push_back(e);
    }
}

#endif
