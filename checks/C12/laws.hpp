// C12: the law engine. Everything here is generic in a "world" W (one iterator kind over one real container of
// logical size n) and never touches xtl directly except through W::iterator's operators -- which are the code under
// test.  The oracle is index arithmetic on the underlying container:
//   * W::ref(p) builds "the iterator at logical position p" (0 <= p <= n) WITHOUT using any operator under test:
//     through the iterator's public constructor from std:: iterators / raw indices of the underlying storage;
//   * W::id_of(f) identifies WHICH element the dereference expression f() designates, from the address of the
//     referenced object (true references) or, for bool proxies, by reading the expression under a family of bit
//     patterns written straight into the block storage (the pattern family separates all indices).
// A position is observed as pos(it) = the unique p in [0,n] with it == ref(p)  (operator== is itself anchored by
// the laws `equality` and `deref`), and, for p < n, additionally by id_of(*it).
#ifndef C12_LAWS_HPP
#define C12_LAWS_HPP

#include "report.hpp"

#include <chrono>
#include <cstddef>
#include <cstdint>
#include <string>
#include <type_traits>
#include <utility>
#include <vector>

namespace c12
{
    enum law_id
    {
        L_ANCHOR = 0,     // per n        : container begin()/end() are positions 0 / n
        L_DEREF,          // a < n        : *ref(a) is element a
        L_EQUALITY,       // a, b         : == exactly when a == b; != is its negation
        L_PRE_INC,        // a < n        : ++it moves to a+1
        L_PRE_DEC,        // a > 0        : --it moves to a-1
        L_POST_INC,       // a < n        : it++ returns the old position, it moves to a+1
        L_POST_DEC,       // a > 0        : it-- returns the old position, it moves to a-1
        L_TRAV_FWD,       // per n        : begin..end with ++ visits elements 0..n-1 in order (3 loop forms)
        L_TRAV_BWD,       // per n        : end..begin with -- visits elements n-1..0 in order (2 loop forms)
        L_PLUS,           // a, d         : it + d is position a+d;  (it + d) - it == d
        L_PLUS_COMMUTED,  // a, d         : d + it is position a+d and == it + d
        L_MINUS,          // a, d         : it - (-d) is position a+d;  (it + d) - d is position a
        L_COMPOUND,       // a, d         : it += d -> a+d;  it -= (-d) -> a+d
        L_DIFFERENCE,     // a, b         : ref(b) - ref(a) == b - a
        L_SUBSCRIPT,      // a, d, a+d<n  : it[d] and *(it + d) are both element a+d
        L_ORDER,          // a, b         : < <= > >= agree with the indices; a < b exactly when b - a > 0
        L_EXT,            // a, d         : size_t overloads of xrandom_access_iterator_ext agree with the difference_type ones
        L_COUNT
    };

    inline const char* law_name(int l)
    {
        static const char* names[L_COUNT] = {
            "anchor_begin_end", "deref", "equality", "pre_increment", "pre_decrement", "post_increment", "post_decrement",
            "traverse_forward", "traverse_backward", "plus", "plus_commuted", "minus", "compound_assign", "difference",
            "subscript", "order", "size_t_ext"};
        return (l >= 0 && l < L_COUNT) ? names[l] : "?";
    }

    inline int law_from_name(const std::string& s)
    {
        for (int l = 0; l < L_COUNT; ++l)
            if (s == law_name(l)) return l;
        return -1;
    }

    // ---- counters (kept out of the std::map of the reporter and flushed per world: the law loop must not allocate) ----
    struct counters
    {
        long long evaluations = 0, nontrivial = 0, assertions = 0;
        long long law[L_COUNT] = {};
        void flush()
        {
            if (evaluations) vf::stat("evaluations", evaluations);
            if (nontrivial) vf::stat("distinct_nontrivial", nontrivial);
            if (assertions) vf::stat("assertions", assertions);
            for (int l = 0; l < L_COUNT; ++l)
                if (law[l]) vf::stat(std::string("law_") + law_name(l), law[l]);
            *this = counters();
        }
    };
    inline counters& cnt() { static counters c; return c; }

    // ---- the case that is executing right now (for crash attribution) -------------------------------------------
    struct current_case
    {
        std::string kind;
        int n = -1, law = -1, a = 0, x = 0;
        bool active = false;
    };
    inline current_case& cur() { static current_case c; return c; }

    inline std::vector<std::string> replay_args(const std::string& kind, int n, int law, int a, int x)
    {
        return {"--kind", kind, "--n", vf::str(n), "--law", law_name(law), "--a", vf::str(a), "--x", vf::str(x)};
    }

    inline void install_crash_attribution()
    {
        vf::crash_hook() = [](const char* signame) {
            current_case& c = cur();
            cnt().flush();
            if (!c.active) return;
            vf::violation("C12/" + c.kind + "/" + law_name(c.law) + "/crash",
                          "kind=" + c.kind + " n=" + vf::str(c.n) + " law=" + law_name(c.law) + " a=" + vf::str(c.a) + " x=" + vf::str(c.x) +
                              ": the process died with " + signame + " while evaluating this law instance",
                          replay_args(c.kind, c.n, c.law, c.a, c.x));
        };
        vf::install_crash_handler();
    }

    // ---- capability probes --------------------------------------------------------------------------------------
    template <class It, class = void>
    struct has_less : std::false_type {};
    template <class It>
    struct has_less<It, decltype(void(std::declval<const It&>() < std::declval<const It&>()))> : std::true_type {};

    inline double now_s()
    {
        using namespace std::chrono;
        return duration_cast<duration<double>>(steady_clock::now().time_since_epoch()).count();
    }

    inline std::string pos_str(int p)
    {
        if (p == -1) return "none of the positions in [begin,end]";
        if (p == -2) return "more than one position (operator== not injective)";
        return vf::str(p);
    }
    inline std::string id_str(int i)
    {
        if (i < 0) return "no element of the container (code " + vf::str(i) + ")";
        return "element " + vf::str(i);
    }

    // ---- identification of a bool element by bit patterns --------------------------------------------------------
    // set(pred) writes bit q := pred(q) for every q < n straight into the block storage (bits >= n stay 0);
    // read() evaluates the dereference expression and converts it to bool.
    template <class Set, class Read>
    int bool_identity(int n, Set&& set, Read&& read)
    {
        set([](int) { return true; });
        if (!read()) return -3;  // reads a bit outside [0,n) (those are 0), or not the storage at all
        set([](int) { return false; });
        if (read()) return -4;
        int id = 0;
        for (int k = 0; (1 << k) < n; ++k)
        {
            set([k](int q) { return ((q >> k) & 1) != 0; });
            bool r1 = read();
            set([k](int q) { return ((q >> k) & 1) == 0; });
            bool r2 = read();
            if (r1 == r2) return -5;
            if (r1) id |= (1 << k);
        }
        set([](int) { return false; });
        return id < n ? id : -6;
    }

    template <class Blk>
    struct block_writer
    {
        Blk* data;
        int n;
        template <class Pred>
        void operator()(Pred pred) const
        {
            const int w = int(sizeof(Blk) * 8);
            const int nb = (n + w - 1) / w;
            for (int b = 0; b < nb; ++b)
            {
                Blk v = 0;
                for (int i = 0; i < w; ++i)
                {
                    int q = b * w + i;
                    if (q < n && pred(q)) v = Blk(v | Blk(Blk(1) << i));
                }
                data[b] = v;
            }
        }
    };

    // ---- index of an address inside a contiguous array -----------------------------------------------------------
    template <class T>
    int index_in(const T* base, int count, const T* p)
    {
        std::uintptr_t b = reinterpret_cast<std::uintptr_t>(base), q = reinterpret_cast<std::uintptr_t>(p);
        if (count <= 0 || q < b) return -1;
        std::uintptr_t off = q - b;
        if (off % sizeof(T) != 0) return -1;
        off /= sizeof(T);
        return off < std::uintptr_t(count) ? int(off) : -1;
    }

    // ---- the law runner ---------------------------------------------------------------------------------------
    template <class W>
    struct runner
    {
        using It = typename W::iterator;
        using D = typename W::difference_type;

        W& w;
        int n;
        int law = 0, a = 0, x = 0;
        std::string* trace = nullptr;  // when set, every observation is written out (used for the evidence samples)

        explicit runner(W& world) : w(world), n(world.size()) { cur().kind = W::kind(); }

        std::string where() const
        {
            return "kind=" + W::kind() + " n=" + vf::str(n) + " law=" + law_name(law) + " a=" + vf::str(a) + " x=" + vf::str(x);
        }

        void fail(const char* failure_kind, const std::string& detail) const
        {
            vf::violation("C12/" + W::kind() + "/" + law_name(law) + "/" + failure_kind, where() + ": " + detail,
                          replay_args(W::kind(), n, law, a, x));
        }

        int pos(const It& it) const
        {
            int found = -1;
            for (int p = 0; p <= n; ++p)
            {
                if (it == w.ref(p))
                {
                    if (found >= 0) return -2;
                    found = p;
                }
            }
            return found;
        }

        template <class F>
        void expect_elem(F&& f, int expected, const char* expr0, bool deref_of = false) const
        {
            ++cnt().assertions;
            int got = w.id_of(f);
            if (!trace && got == expected) return;
            std::string expr = deref_of ? "*(" + std::string(expr0) + ")" : std::string(expr0);
            if (trace) *trace += expr + " designates " + id_str(got) + "; ";
            if (got != expected) fail("wrong_element", expr + " must designate element " + vf::str(expected) + ", observed " + id_str(got));
        }

        // `it` must be at logical position `expected`; when that is a dereferenceable position, *it must be that element
        void expect_pos(const It& it, int expected, const char* expr0) const
        {
            ++cnt().assertions;
            int got = pos(it);
            if (trace || got != expected)
            {
                std::string expr = expr0;
                if (trace) *trace += expr + " is at position " + pos_str(got) + "; ";
                if (got != expected)
                {
                    fail("wrong_position", expr + " must be at position " + vf::str(expected) + ", observed " + pos_str(got));
                    return;
                }
            }
            if (expected < n)
                expect_elem([&]() -> decltype(auto) { return *it; }, expected, expr0, true);
        }

        void expect_bool(bool got, bool expected, const char* expr0) const
        {
            ++cnt().assertions;
            if (!trace && got == expected) return;
            std::string expr = expr0;
            if (trace) *trace += expr + " is " + (got ? "true" : "false") + "; ";
            if (got != expected)
                fail("wrong_value", expr + " must be " + (expected ? "true" : "false") + ", observed " + (got ? "true" : "false"));
        }

        void expect_diff(long long got, long long expected, const char* expr0) const
        {
            ++cnt().assertions;
            if (!trace && got == expected) return;
            std::string expr = expr0;
            if (trace) *trace += expr + " == " + vf::str(got) + "; ";
            if (got != expected) fail("wrong_value", expr + " must be " + vf::str(expected) + ", observed " + vf::str(got));
        }

        // ---- which (law, a, x) instances exist for this world ------------------------------------------------------
        static bool applicable(int l)
        {
            if (l <= L_TRAV_BWD) return true;
            if (!W::random_access) return false;
            if (l == L_ORDER) return has_less<It>::value;
            if (l == L_EXT) return W::has_ext;
            return true;
        }

        // shape of the parameter space of a law: 0 = per n, 1 = a only, 2 = (a, b), 3 = (a, d)
        static int shape(int l)
        {
            switch (l)
            {
            case L_ANCHOR: case L_TRAV_FWD: case L_TRAV_BWD: return 0;
            case L_DEREF: case L_PRE_INC: case L_PRE_DEC: case L_POST_INC: case L_POST_DEC: return 1;
            case L_EQUALITY: case L_DIFFERENCE: case L_ORDER: return 2;
            default: return 3;
            }
        }

        bool in_domain(int l, int a_, int x_) const
        {
            if (!applicable(l)) return false;
            if (a_ < 0 || a_ > n) return false;
            switch (l)
            {
            case L_ANCHOR: case L_TRAV_FWD: case L_TRAV_BWD: return a_ == 0 && x_ == 0;
            case L_DEREF: case L_PRE_INC: case L_POST_INC: return a_ < n && x_ == 0;
            case L_PRE_DEC: case L_POST_DEC: return a_ > 0 && x_ == 0;
            case L_EQUALITY: case L_DIFFERENCE: case L_ORDER: return x_ >= 0 && x_ <= n;
            case L_SUBSCRIPT: return a_ + x_ >= 0 && a_ + x_ < n;  // the end position is not dereferenceable
            default: return a_ + x_ >= 0 && a_ + x_ <= n;
            }
        }

        // a case is non-trivial when the container is not empty and the case is not the reflexive / zero-offset one
        bool nontrivial(int l, int a_, int x_) const
        {
            if (n == 0) return false;
            switch (shape(l))
            {
            case 2: return a_ != x_;
            case 3: return x_ != 0;
            default: return true;
            }
        }

        // ---- one law instance -----------------------------------------------------------------------------------
        void run(int l, int a_, int x_)
        {
            law = l; a = a_; x = x_;
            current_case& c = cur();
            c.n = n; c.law = l; c.a = a_; c.x = x_; c.active = true;
            vf::take_asan();
            dispatch(std::integral_constant<bool, W::random_access>());
            if (vf::take_asan()) fail("asan", "AddressSanitizer reported a memory error while this law instance was evaluated");
            c.active = false;
            ++cnt().evaluations;
            ++cnt().law[l];
            if (nontrivial(l, a_, x_)) ++cnt().nontrivial;
        }

        // the same law instance once more, with every observation written out; not counted
        std::string traced(int l, int a_, int x_)
        {
            std::string t;
            law = l; a = a_; x = x_;
            trace = &t;
            dispatch(std::integral_constant<bool, W::random_access>());
            trace = nullptr;
            return "kind=" + W::kind() + " n=" + vf::str(n) + " law=" + law_name(l) + " a=" + vf::str(a_) + (shape(l) == 2 ? " b=" : " d=") + vf::str(x_) + ": " + t;
        }

        void dispatch(std::false_type) { bidirectional_laws(); }
        void dispatch(std::true_type)
        {
            if (law <= L_TRAV_BWD) bidirectional_laws();
            else random_access_laws();
        }

        void bidirectional_laws()
        {
            switch (law)
            {
            case L_ANCHOR:
                expect_pos(w.begin(), 0, "container begin()");
                expect_pos(w.end(), n, "container end()");
                break;
            case L_DEREF:
            {
                It it = w.ref(a);
                expect_elem([&]() -> decltype(auto) { return *it; }, a, "*it");
                break;
            }
            case L_EQUALITY:
            {
                It p = w.ref(a), q = w.ref(x);
                bool eq = (p == q), ne = (p != q);
                expect_bool(eq, a == x, "it(a) == it(b)");
                expect_bool(ne, a != x, "it(a) != it(b)");
                expect_bool(ne, !eq, "(a != b) as the negation of (a == b)");
                break;
            }
            case L_PRE_INC:
            {
                It it = w.ref(a);
                ++it;
                expect_pos(it, a + 1, "it after ++it");
                break;
            }
            case L_PRE_DEC:
            {
                It it = w.ref(a);
                --it;
                expect_pos(it, a - 1, "it after --it");
                break;
            }
            case L_POST_INC:
            {
                It it = w.ref(a);
                It old = it++;
                expect_pos(old, a, "value of it++");
                expect_pos(it, a + 1, "it after it++");
                break;
            }
            case L_POST_DEC:
            {
                It it = w.ref(a);
                It old = it--;
                expect_pos(old, a, "value of it--");
                expect_pos(it, a - 1, "it after it--");
                break;
            }
            case L_TRAV_FWD:
                traverse_forward();
                break;
            case L_TRAV_BWD:
                traverse_backward();
                break;
            default: break;
            }
        }

        static std::string seq_str(const std::vector<int>& v)
        {
            std::string s = "[";
            for (size_t i = 0; i < v.size(); ++i) { if (i) s += ","; s += vf::str(v[i]); }
            return s + "]";
        }

        void expect_visit(const std::vector<int>& got, bool terminated, bool forward, const char* form0) const
        {
            ++cnt().assertions;
            std::string form = form0;
            std::vector<int> want;
            for (int i = 0; i < n; ++i) want.push_back(forward ? i : n - 1 - i);
            if (trace) *trace += form + " visited elements " + seq_str(got) + "; ";
            if (!terminated)
                fail("wrong_traversal", form + " did not reach the other end after " + vf::str(n) + " steps; visited " + seq_str(got) + ", expected " + seq_str(want));
            else if (got != want)
                fail("wrong_traversal", form + " visited " + seq_str(got) + ", expected " + seq_str(want));
        }

        void traverse_forward()
        {
            {
                std::vector<int> got;
                It it = w.begin(), e = w.end();
                int steps = 0;
                while (!(it == e) && steps <= n) { got.push_back(w.id_of([&]() -> decltype(auto) { return *it; })); ++it; ++steps; }
                expect_visit(got, it == e, true, "for (it = begin(); !(it == end()); ++it)");
            }
            {
                std::vector<int> got;
                It it = w.begin(), e = w.end();
                int steps = 0;
                while (it != e && steps <= n) { got.push_back(w.id_of([&]() -> decltype(auto) { return *it; })); it++; ++steps; }
                expect_visit(got, !(it != e), true, "for (it = begin(); it != end(); it++)");
            }
            {
                std::vector<int> got;
                It it = w.begin(), e = w.end();
                int steps = 0;
                while (it != e && steps <= n)
                {
                    It old = it++;  // the dereference expression is evaluated several times by id_of: keep the side effect outside
                    got.push_back(w.id_of([&]() -> decltype(auto) { return *old; }));
                    ++steps;
                }
                expect_visit(got, !(it != e), true, "while (it != end()) { old = it++; visit(*old); }");
            }
        }

        void traverse_backward()
        {
            {
                std::vector<int> got;
                It it = w.end(), b = w.begin();
                int steps = 0;
                while (!(it == b) && steps <= n) { --it; got.push_back(w.id_of([&]() -> decltype(auto) { return *it; })); ++steps; }
                expect_visit(got, it == b, false, "for (it = end(); !(it == begin());) visit(*--it)");
            }
            {
                std::vector<int> got;
                It it = w.end(), b = w.begin();
                int steps = 0;
                while (it != b && steps <= n) { it--; got.push_back(w.id_of([&]() -> decltype(auto) { return *it; })); ++steps; }
                expect_visit(got, !(it != b), false, "for (it = end(); it != begin();) { it--; visit(*it); }");
            }
        }

        void random_access_laws()
        {
            random_access_laws_impl(std::integral_constant<bool, W::random_access>());
        }
        void random_access_laws_impl(std::false_type) {}
        void random_access_laws_impl(std::true_type)
        {
            const D d = static_cast<D>(x);
            const D md = static_cast<D>(-x);
            switch (law)
            {
            case L_PLUS:
            {
                It it = w.ref(a);
                It r = it + d;
                expect_pos(r, a + x, "it + d");
                expect_pos(it, a, "it after evaluating it + d");
                expect_diff(static_cast<long long>(r - it), x, "(it + d) - it");
                break;
            }
            case L_PLUS_COMMUTED:
            {
                It it = w.ref(a);
                It r = d + it;
                expect_pos(r, a + x, "d + it");
                expect_bool(r == (it + d), true, "(d + it) == (it + d)");
                break;
            }
            case L_MINUS:
            {
                It it = w.ref(a);
                It r = it - md;
                expect_pos(r, a + x, "it - (-d)");
                expect_pos(it, a, "it after evaluating it - (-d)");
                It back = (it + d) - d;
                expect_pos(back, a, "(it + d) - d");
                expect_bool(back == it, true, "((it + d) - d) == it");
                break;
            }
            case L_COMPOUND:
            {
                It it = w.ref(a);
                it += d;
                expect_pos(it, a + x, "it after it += d");
                it -= d;
                expect_pos(it, a, "it after it += d; it -= d");
                It jt = w.ref(a);
                jt -= md;
                expect_pos(jt, a + x, "it after it -= (-d)");
                break;
            }
            case L_DIFFERENCE:
            {
                It p = w.ref(a), q = w.ref(x);
                expect_diff(static_cast<long long>(q - p), x - a, "it(b) - it(a)");
                expect_diff(static_cast<long long>(p - q), a - x, "it(a) - it(b)");
                break;
            }
            case L_SUBSCRIPT:
            {
                It it = w.ref(a);
                expect_elem([&]() -> decltype(auto) { return it[d]; }, a + x, "it[d]");
                expect_elem([&]() -> decltype(auto) { return *(it + d); }, a + x, "*(it + d)");
                break;
            }
            case L_ORDER:
                order_law(has_less<It>());
                break;
            case L_EXT:
                ext_law(std::integral_constant<bool, W::has_ext>());
                break;
            default: break;
            }
        }

        void order_law(std::false_type) {}
        void order_law(std::true_type)
        {
            It p = w.ref(a), q = w.ref(x);
            bool lt = p < q, le = p <= q, gt = p > q, ge = p >= q;
            expect_bool(lt, a < x, "it(a) < it(b)");
            expect_bool(le, a <= x, "it(a) <= it(b)");
            expect_bool(gt, a > x, "it(a) > it(b)");
            expect_bool(ge, a >= x, "it(a) >= it(b)");
            expect_bool(lt, (q - p) > 0, "(a < b) exactly when (b - a > 0)");
            expect_bool(gt, q < p, "(a > b) as the reversal (b < a)");
            expect_bool(le, !(q < p), "(a <= b) as the negation of (b < a)");
            expect_bool(ge, !lt, "(a >= b) as the negation of (a < b)");
        }

        void ext_law(std::false_type) {}
        void ext_law(std::true_type)
        {
            It it = w.ref(a);
            if (x >= 0)
            {
                const std::size_t u = static_cast<std::size_t>(x);
                const D d = static_cast<D>(x);
                It r = it + u;
                expect_pos(r, a + x, "it + size_t(d)");
                expect_bool(r == (it + d), true, "(it + size_t(d)) == (it + difference_type(d))");
                It r2 = u + it;
                expect_pos(r2, a + x, "size_t(d) + it");
                expect_bool(r2 == (d + it), true, "(size_t(d) + it) == (difference_type(d) + it)");
                if (a + x < n)
                {
                    expect_elem([&]() -> decltype(auto) { return it[u]; }, a + x, "it[size_t(d)]");
                    expect_elem([&]() -> decltype(auto) { return it[d]; }, a + x, "it[difference_type(d)]");
                }
            }
            if (x <= 0)
            {
                const std::size_t u = static_cast<std::size_t>(-x);
                const D e = static_cast<D>(-x);
                It r = it - u;
                expect_pos(r, a + x, "it - size_t(e)");
                expect_bool(r == (it - e), true, "(it - size_t(e)) == (it - difference_type(e))");
            }
        }

        // ---- the whole space for this n -----------------------------------------------------------------------
        void enumerate_all()
        {
            for (int l = 0; l < L_COUNT; ++l)
            {
                if (!applicable(l)) continue;
                switch (shape(l))
                {
                case 0:
                    run(l, 0, 0);
                    break;
                case 1:
                    for (int i = 0; i <= n; ++i)
                        if (in_domain(l, i, 0)) run(l, i, 0);
                    break;
                case 2:
                    for (int i = 0; i <= n; ++i)
                        for (int j = 0; j <= n; ++j)
                            if (in_domain(l, i, j)) run(l, i, j);
                    break;
                default:
                    for (int i = 0; i <= n; ++i)
                        for (int dd = -i; dd <= n - i; ++dd)
                            if (in_domain(l, i, dd)) run(l, i, dd);
                    break;
                }
            }
        }
    };

    // ---- kind registry ----------------------------------------------------------------------------------------------
    struct kind_entry
    {
        std::string name;
        bool random_access, less, ext;
        void (*enumerate)(int nmin, int nmax, double deadline_at, int ordinal);
        int (*one)(int n, int law, int a, int x);  // 0 ok, 1 not in the domain
    };

    inline std::vector<kind_entry>& registry() { static std::vector<kind_entry> r; return r; }

    template <class W>
    void enumerate_kind(int nmin, int nmax, double deadline_at, int ordinal)
    {
        for (int n = nmin; n <= nmax; ++n)
        {
            if (now_s() > deadline_at)
            {
                vf::cap("kind " + W::kind() + ": deadline reached, sizes " + vf::str(n) + ".." + vf::str(nmax) + " not enumerated");
                return;
            }
            W w(n);
            runner<W> r(w);
            r.enumerate_all();
            cnt().flush();
            vf::stat("worlds");
            vf::smax("max_n", n);
            if (n == 4)
            {
                // one case written out for the evidence: the ordinal of the kind selects the law, so that the samples differ
                std::vector<int> laws;
                for (int l = 0; l < L_COUNT; ++l)
                    if (runner<W>::applicable(l) && r.in_domain(l, runner<W>::shape(l) == 0 ? 0 : 1, runner<W>::shape(l) >= 2 ? 2 : 0)) laws.push_back(l);
                int l = laws[std::size_t(ordinal) % laws.size()];
                vf::sample(r.traced(l, runner<W>::shape(l) == 0 ? 0 : 1, runner<W>::shape(l) >= 2 ? 2 : 0), 1);
            }
        }
    }

    template <class W>
    int one_case(int n, int law, int a, int x)
    {
        W w(n);
        runner<W> r(w);
        if (law < 0 || law >= L_COUNT || !r.in_domain(law, a, x)) return 1;
        r.run(law, a, x);
        cnt().flush();
        return 0;
    }

    template <class W>
    void register_kind()
    {
        kind_entry e;
        e.name = W::kind();
        e.random_access = W::random_access;
        e.less = has_less<typename W::iterator>::value;
        e.ext = W::has_ext;
        e.enumerate = &enumerate_kind<W>;
        e.one = &one_case<W>;
        registry().push_back(e);
    }
}

#endif
