// C12 capability probe (syntax only, expected to FAIL on the pinned tree): the iterators of the array forms.
// xoptional_iterator_traits / xcomplex_iterator_traits use IT::value_type, and std::array<T,N>::iterator is a pointer,
// so begin() of xoptional_array / xcomplex_array is ill-formed today and these forms have no executions to check.
// If this file starts to compile, check.py records a cap: the array forms exist but are not in the C12 manifest yet.
#if C12_PROBE == 1
#include <xtl/xoptional_sequence.hpp>
int main()
{
    xtl::xoptional_array<int, 3> a;
    auto it = a.begin();
    (void)it;
}
#else
#include <xtl/xcomplex_sequence.hpp>
int main()
{
    xtl::xcomplex_array<double, 3> c;
    auto it = c.begin();
    (void)it;
}
#endif
