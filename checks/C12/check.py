"""C12 iterator bases and adaptors obey the random-access / bidirectional laws.

Exhaustive small scope (DESIGN.md "### C12"): for every iterator kind of the manifest below, every container size
n in 0..N(kind, tier), every law of the statement and every parameter tuple of that law inside [begin, end]
(positions a, b in [0,n]; offsets d with a+d in [0,n]) is executed on the REAL iterator and judged against index
arithmetic on the underlying container (laws.hpp / harness.cpp).  One harness process per kind; the harness source is
compiled once per group of kinds so that the groups build in parallel.

Magnitude part (huge.hpp / huge.cpp, groups 8..10): the same laws over ranges whose positions and offsets reach 2^31, 2^32, 2^33,
2^53, 2^62 and PTRDIFF_MAX - implicit sequences and zero-page mappings, so they cost no memory -, exhaustive over a boundary
alphabet of positions (every position, every ordered pair of positions, every boundary offset applied to every position).
"""
import os
import re
import vlib

LEVEL = "exploration"
HERE = os.path.dirname(os.path.abspath(__file__))
SRC = os.path.join(HERE, "harness.cpp")
HUGE_SRC = os.path.join(HERE, "huge.cpp")

# ---- committed instantiation manifest --------------------------------------------------------------------------
# kind -> (group, random_access, has operator<, uses xrandom_access_iterator_ext, size class)
# A kind of this manifest that the harness no longer provides, or whose capabilities got WEAKER (lost operator<, lost
# random access), is a check error (exit 2), never a pass.  A capability that appears (e.g. xcomplex_iterator gains
# operator<) is explored automatically and reported as a note.
_M = ("iterator", "const_iterator", "reverse_iterator", "const_reverse_iterator")
MANIFEST = {}
for m in _M:
    MANIFEST["bitset_u8." + m] = (1, 1, 1, 0, "u8")
    MANIFEST["optional_vector." + m] = (2, 1, 1, 0, "u64")
    MANIFEST["complex_vector." + m] = (3, 1, 0, 0, "plain")   # today: xcomplex_iterator has no operator<
    MANIFEST["optional_vector_u8flags." + m] = (7, 1, 1, 0, "u8")
for k in ("complex_vector_float_ieee.iterator", "complex_vector_float_ieee.const_reverse_iterator"):
    MANIFEST[k] = (7, 1, 0, 0, "plain")
for k in ("stepping.deque_iterator.step1", "stepping.deque_iterator.step3"):
    MANIFEST[k] = (4, 1, 1, 0, "plain")
for k in ("bitset_u64.iterator", "bitset_u64.const_iterator"):
    MANIFEST[k] = (5, 1, 1, 0, "u64")
for k in ("bitset_view_u8.iterator", "bitset_view_u8.const_iterator"):
    MANIFEST[k] = (5, 1, 1, 0, "u8")
MANIFEST["bitset_u16.iterator"] = (5, 1, 1, 0, "u16")
MANIFEST["bitset_view_u32.const_iterator"] = (5, 1, 1, 0, "u32")
for b in ("vec_iterator", "vec_const_iterator", "pointer"):
    for s in (1, 2, 3, 4):
        MANIFEST["stepping.%s.step%d" % (b, s)] = (4, 1, 1, 0, "plain")
MANIFEST["stepping.pointer.step7"] = (4, 1, 1, 0, "plain")
for k in ("key_iterator.map", "key_iterator.const_map", "value_iterator.map", "value_iterator.const_map"):
    MANIFEST[k] = (6, 0, 0, 0, "plain")
for k in ("toy_ref_base_ext", "toy_val_base_ext"):
    MANIFEST[k] = (6, 1, 1, 1, "plain")
GROUPS = sorted(set(v[0] for v in MANIFEST.values()))

# ---- the magnitude part: kinds of huge.cpp -> (group, random_access, has operator<, uses the ext base) -------------------
HUGE_MANIFEST = {
    "huge.iota_val_base_ext": (8, 1, 1, 1),
    "huge.iota_val_longlong_base_ext": (8, 1, 1, 1),
    "huge.iota_val_bidirectional_base": (8, 0, 0, 0),
    "huge.region_ref_base_ext": (8, 1, 1, 1),
    "huge.stepping.iota.step3": (8, 1, 1, 0),
    "huge.stepping.iota.step2147483649": (8, 1, 1, 0),
    "huge.stepping.pointer.step1": (8, 1, 1, 0),
    "huge.stepping.pointer.step3": (8, 1, 1, 0),
    "huge.bitset_view_u64.iterator": (9, 1, 1, 0),
    "huge.bitset_view_u64.const_iterator": (9, 1, 1, 0),
    "huge.bitset_view_u64.reverse_iterator": (9, 1, 1, 0),
    "huge.bitset_view_u64.const_reverse_iterator": (9, 1, 1, 0),
    "huge.bitset_view_u8.iterator": (9, 1, 1, 0),
    "huge.bitset_view_u32.const_iterator": (9, 1, 1, 0),
    "huge.stepping.bitset_view_u64_const_iterator.step1": (9, 1, 1, 0),
    "huge.stepping.bitset_view_u64_const_iterator.step3": (9, 1, 1, 0),
    "huge.stepping.bitset_view_u64_const_iterator.step64": (9, 1, 1, 0),
    "huge.optional_over_region_and_bitset_view.iterator": (10, 1, 1, 0),
    "huge.optional_over_region_and_bitset_view.reverse_iterator": (10, 1, 1, 0),
    "huge.complex_over_regions.iterator": (10, 1, 0, 0),
    "huge.complex_over_regions.reverse_iterator": (10, 1, 0, 0),
}
HUGE_GROUPS = sorted(set(v[0] for v in HUGE_MANIFEST.values()))
GROUP_DOC = {1: "xbitset_iterator over xdynamic_bitset<uint8_t> (+ std::reverse_iterator of it = rbegin()/rend())",
             2: "xoptional_iterator over xoptional_vector<int> (4 iterator types)",
             3: "xcomplex_iterator over xcomplex_vector<double> (4 iterator types)",
             4: "xstepping_iterator over vector<int>::iterator / const_iterator / int* with steps 1..4 (int* also 7), deque<int>::iterator with steps 1 and 3",
             5: "xbitset_iterator over uint16/32/64 blocks and xdynamic_bitset_view",
             7: "xoptional_iterator over xoptional_vector<int> with uint8_t flag blocks (4 iterator types); xcomplex_iterator over xcomplex_vector<float, true>",
             6: "xkey_iterator / xvalue_iterator over std::map and const std::map; two direct users of xrandom_access_iterator_base + _ext",
             8: "magnitude: harness iterators on xbidirectional_iterator_base / xrandom_access_iterator_base + _ext over an implicit sequence of 2^63-1 elements "
                "(difference_type ptrdiff_t and long long) and over a read-only zero-page array (true references); xstepping_iterator over those and over a raw pointer",
             9: "magnitude: xbitset_iterator (mutable/const, uint64/uint8/uint32 blocks) of an xdynamic_bitset_view of 2^32+192 bits over a zero-page mapping, "
                "its std::reverse_iterator (rbegin()/rend()), xstepping_iterator over it with steps 1, 3, 64",
             10: "magnitude: xoptional_iterator (forward and reverse) built from a true-reference value iterator and a huge bitset-view flag iterator; "
                 "xcomplex_iterator (forward and reverse) over two zero-page arrays"}

# largest container size per size class: chosen so that block boundaries of the bit storages are crossed
NMAX = {
    "quick": {"plain": 8, "u8": 18, "u16": 18, "u32": 12, "u64": 12},
    "thorough": {"plain": 64, "u8": 96, "u16": 96, "u32": 132, "u64": 200},
}
# the additional builds of the thorough tier (other language levels, second compiler) re-execute the same law instances up to these sizes
NMAX_SECONDARY = {"plain": 24, "u8": 40, "u16": 40, "u32": 70, "u64": 70}


def configs(tier):
    """(std, compiler, primary?) -- cases of the primary build are the ones counted as distinct."""
    if tier == "quick":
        return [("c++14", "g++", True)]
    return [("c++14", "g++", True), ("c++17", "g++", False), ("c++20", "g++", False), ("c++14", "clang++", False)]


def build(group, std="c++14", cxx="g++"):
    return vlib.compile_cxx(HUGE_SRC if group in HUGE_GROUPS else SRC, "c12-g%d-%s-%s" % (group, std, cxx.replace("+", "x")), std=std, opt="-O1", san="asan",
                            compiler=cxx, defines=["C12_GROUP=%d" % group])


def tag_of(group, std, cxx):
    return "c12;group=%d;std=%s;cxx=%s" % (group, std, cxx)


def parse_tag(tag):
    d = dict(kv.split("=", 1) for kv in tag.split(";")[1:])
    return int(d["group"]), d["std"], d["cxx"]


def probe(ctx, binary, group, label):
    """capability probe: what the harness offers today vs the committed manifest"""
    sub = vlib.Ctx(ctx.pid, ctx.tier, LEVEL, ctx.seed)
    sub.run_harness(binary, ["--list"], tag="c12-list")
    seen = {}
    for n in sub.notes:
        m = re.match(r"kind (\S+) random_access=(\d) less=(\d) ext=(\d)$", n)
        if m:
            seen[m.group(1)] = (int(m.group(2)), int(m.group(3)), int(m.group(4)))
    manifest = HUGE_MANIFEST if group in HUGE_GROUPS else MANIFEST
    for k, v in sorted(manifest.items()):
        g, ra, less, ext = v[:4]
        if g != group:
            continue
        if k not in seen:
            raise vlib.HarnessError("manifest kind %s is not provided by the harness (%s)" % (k, label))
        s = seen[k]
        if s[0] < ra or s[1] < less or s[2] < ext:
            raise vlib.HarnessError("kind %s lost a capability it had when the manifest was committed: manifest (random_access,less,ext)=%s, today %s (%s)"
                                    % (k, (ra, less, ext), s, label))
        if s != (ra, less, ext):
            ctx.note("capability gained since the manifest was committed: %s now has (random_access,less,ext)=%s, explored" % (k, s))
    for k in seen:
        if k not in manifest:
            raise vlib.HarnessError("harness kind %s is not in the manifest" % k)
    return seen


def merge(ctx, sub, primary):
    ctx.viols += sub.viols
    for k, v in sub.stats.items():
        if primary or k in ("evaluations", "harness_runs", "assertions"):
            ctx.stat(k, v)
    if not primary:
        ctx.stat("evaluations_in_secondary_builds", sub.stats.get("evaluations", 0))
    for k, v in sub.maxes.items():
        ctx.smax(k, v)
    for n in sub.notes:
        ctx.note(n)
    for c in sub.caps:
        ctx.cap(c)


def shards(N):
    """cut the sizes 0..N into contiguous ranges of roughly equal cost (a size n costs about (n+1)^4)"""
    k = 1 if N <= 48 else (2 if N <= 100 else (4 if N <= 150 else 8))
    total = sum((n + 1) ** 4 for n in range(N + 1))
    out, lo, acc = [], 0, 0
    for n in range(N + 1):
        acc += (n + 1) ** 4
        if acc * k >= total * (len(out) + 1) and len(out) < k - 1:
            out.append((lo, n))
            lo = n + 1
    if lo <= N:
        out.append((lo, N))
    return out


def run_config(ctx, std, cxx, primary):
    label = "%s -std=%s" % (cxx, std)
    nmax = NMAX[ctx.tier] if primary else NMAX_SECONDARY

    # phase 1: build every group (in parallel) and probe its capabilities against the manifest
    def group_job(group):
        def f():
            if ctx.time_left() < 90:
                return None
            binary = build(group, std, cxx)
            probe(ctx, binary, group, label)
            return binary
        return f

    all_groups = GROUPS + HUGE_GROUPS
    binaries = dict(zip(all_groups, vlib.parallel([group_job(g) for g in all_groups], workers=len(all_groups))))
    skipped = ["group %d" % g for g in all_groups if binaries[g] is None]

    # phase 2: one harness process per (kind, size range), most expensive first
    def kind_job(kind, lo, hi):
        def g():
            left = ctx.time_left()
            if left < 40:
                return ("skipped", kind, lo, hi, None)
            group = MANIFEST[kind][0]
            sub = vlib.Ctx(ctx.pid, ctx.tier, LEVEL, ctx.seed)
            run_guarded(sub, binaries[group], ["--kind", kind, "--nmin", str(lo), "--nmax", str(hi), "--deadline", str(int(max(10, left - 30)))],
                        tag_of(group, std, cxx), max(60, left + 60), kind)
            return ("ok", kind, lo, hi, sub)
        return g

    # the magnitude part: one harness process per huge kind; the additional builds use the quick alphabet
    huge_tier = ctx.tier if primary else "quick"

    def huge_job(kind):
        def g():
            left = ctx.time_left()
            if left < 40:
                return ("skipped", kind, None)
            group = HUGE_MANIFEST[kind][0]
            sub = vlib.Ctx(ctx.pid, ctx.tier, LEVEL, ctx.seed)
            run_guarded(sub, binaries[group], ["--kind", kind, "--tier", huge_tier, "--deadline", str(int(max(10, left - 30)))],
                        tag_of(group, std, cxx), max(60, left + 60), kind)
            return ("ok", kind, sub)
        return g

    plan = []
    for kind, v in sorted(MANIFEST.items()):
        if binaries[v[0]] is None:
            continue
        for (lo, hi) in shards(nmax[v[4]]):
            plan.append((-(hi + 1) ** 5 + lo ** 5, kind, lo, hi))
    plan.sort()
    huge_plan = [k for k, v in sorted(HUGE_MANIFEST.items()) if binaries[v[0]] is not None]
    # in the thorough tier a huge kind costs as much as a large size range: start them first
    jobs = [huge_job(k) for k in huge_plan] + [kind_job(k, lo, hi) for (_, k, lo, hi) in plan]
    every = vlib.parallel(jobs, workers=vlib.NCPU)
    huge_res, res = every[:len(huge_plan)], every[len(huge_plan):]
    n_huge = 0
    huge_kinds = 0
    for r in huge_res:
        if r[0] == "skipped":
            skipped.append("%s (magnitude part)" % r[1])
            continue
        merge(ctx, r[2], primary)
        n_huge += r[2].stats.get("evaluations", 0)
        huge_kinds += 1
    if primary:
        ctx.stat("huge_kinds", huge_kinds)

    n_eval = 0
    per_kind = {}
    for (st, kind, lo, hi, sub) in res:
        if st == "skipped":
            skipped.append("%s sizes %d..%d" % (kind, lo, hi))
            continue
        merge(ctx, sub, primary)
        n_eval += sub.stats.get("evaluations", 0)
        pk = per_kind.setdefault(kind, [0, 0, 0])
        pk[0] = max(pk[0], sub.maxes.get("max_n", -1))
        pk[1] += sub.stats.get("evaluations", 0)
        pk[2] += sub.stats.get("distinct_nontrivial", 0)
    if primary:
        ctx.stat("kinds", len(per_kind))
        for kind, pk in sorted(per_kind.items()):
            ctx.note("kind %s: sizes 0..%d, %d law instances, %d non-trivial" % (kind, pk[0], pk[1], pk[2]))
        # Ctx keeps 12 samples: spread them over the kinds instead of taking the first twelve
        samples = sorted(s for (st, _, _, _, sub) in res if st == "ok" for s in sub.samples)
        hsamples = sorted(s for r in huge_res if r[0] == "ok" for s in r[2].samples)
        for s in hsamples[::max(1, len(hsamples) // 4)][:4]:
            ctx.sample(s)
        step = max(1, len(samples) // 8)
        for s in samples[::step]:
            ctx.sample(s)
    if skipped:
        ctx.cap("deadline: build '%s' did not run %s" % (label, ", ".join(skipped)))
    ctx.note("build %s: %d law instances (sizes: %s) + %d law instances of the magnitude part (%s alphabet)" % (
        label, n_eval, ", ".join("%s 0..%d" % kv for kv in sorted(nmax.items())), n_huge, huge_tier))


def probe_array_forms(ctx):
    """optional manifest entries that are ill-formed on the pinned tree: begin() of the array forms"""
    src = os.path.join(HERE, "probe_array.cpp")
    names = {1: "xoptional_array<int,3>::begin()", 2: "xcomplex_array<double,3>::begin()"}

    def job(k):
        return lambda: vlib.compile_cxx(src, "c12-probe%d" % k, std="c++14", san="none", defines=["C12_PROBE=%d" % k], syntax_only=True, expect_fail=True)
    for k, r in zip(sorted(names), vlib.parallel([job(k) for k in sorted(names)], workers=2)):
        if r is None:
            ctx.note("capability probe: %s is ill-formed on this tree (no executions to check)" % names[k])
        else:
            ctx.cap("capability probe: %s has become well-formed, but the array forms are not in the C12 manifest yet: their iterators were NOT explored" % names[k])


def run(ctx):
    probe_array_forms(ctx)
    for (std, cxx, primary) in configs(ctx.tier):
        if ctx.time_left() < 120:
            ctx.cap("deadline: build %s -std=%s not started" % (cxx, std))
            continue
        run_config(ctx, std, cxx, primary)
    nm = NMAX[ctx.tier]
    ctx.rule = (
        "%d iterator kinds (manifest in check.py: xbitset_iterator mutable/const over uint8/16/32/64 blocks, owning and view, and its std::reverse_iterator; "
        "xoptional_iterator and xcomplex_iterator in their 4 forms iterator/const/reverse/const_reverse; xstepping_iterator over vector<int>::iterator, "
        "const_iterator and int* with steps 1..4 (int* also 7) and deque<int>::iterator with steps 1 and 3; xoptional_iterator also with uint8_t flag blocks, xcomplex_iterator also over <float, ieee>; xkey_iterator/xvalue_iterator over std::map and const std::map; two direct users of "
        "xrandom_access_iterator_base + xrandom_access_iterator_ext) x EVERY container size n in 0..N (N = %d; bit storages: uint8/uint16 blocks %d, uint32 %d, "
        "uint64 blocks incl. the optional flags %d, so that block boundaries are crossed) x every law x every parameter tuple inside [begin,end]: "
        "per n: begin()/end() anchoring, forward traversal (3 loop forms), backward traversal (2 loop forms); per position a: deref, ++it, --it, it++, it--; "
        "per pair (a,b) in [0,n]^2: == / != , b-a, < <= > >= ; per (a,d) with a+d in [0,n]: it+d with (it+d)-it, d+it, it-(-d) with (it+d)-d, += / -=, "
        "it[d] vs *(it+d) (a+d<n), size_t overloads of the ext base. Bidirectional kinds get the bidirectional subset; order laws need operator< (capability probe). "
        "One law instance = (kind, n, law, a, b|d); each is executed once on the real iterator and judged against index arithmetic: reference positions are built "
        "through the iterators' public constructors from std:: iterator / index arithmetic on the underlying storage, a result's position is the unique p with "
        "result == ref(p), and the element a dereference designates is identified by the address of the referenced object, or for bool proxies by reading it "
        "under index-bit patterns written directly into the block storage. evaluations = law instances executed over all builds; distinct_nontrivial = distinct "
        "law instances of the primary build with n > 0 that are not the reflexive (a == b) or zero-offset (d == 0) instance, counted while enumerating"
        % (len(MANIFEST), nm["plain"], nm["u8"], nm["u32"], nm["u64"]))
    ctx.rule += (
        ". MAGNITUDE part (huge.hpp/huge.cpp): %d further kinds whose ranges cost no memory - harness iterators deriving from xbidirectional_iterator_base / "
        "xrandom_access_iterator_base + xrandom_access_iterator_ext over the implicit sequence 0..2^63-2 (difference_type ptrdiff_t and long long) and over a read-only "
        "zero-page array of 2^33+7 elements (true references); xbitset_iterator mutable/const (uint64, uint8, uint32 blocks) and its std::reverse_iterator over an "
        "xdynamic_bitset_view of 2^32+192 bits laid over a private zero-page mapping; xstepping_iterator over the bitset iterator (steps 1, 3, 64), over a raw pointer "
        "(steps 1, 3) and over the implicit sequence (steps 3 and 2^31+1); xoptional_iterator and xcomplex_iterator (forward and std::reverse_iterator sub-iterators) built "
        "through their public constructors from such sub-iterators%s. Per world of size N the position alphabet is A = {v, N-v : v in V, v <= N} with the boundary values "
        "%s (stepping worlds add the positions whose underlying index is v); EVERY law except the two full traversals is executed for every a in A (deref, ++it, --it, "
        "it++, it--) resp. for every pair of P = A x A united with {(a, a+v), (a, a-v) : a in A, v in V, inside [0,N]} (== / !=, b-a, < <= > >=, it+d, d+it, it-(-d), "
        "+= / -=, it[d] vs *(it+d), size_t overloads incl. (it + size_t(d)) - size_t(d)), d = b-a; the oracle is 64-bit index arithmetic: result == ref(expected) and "
        "!= ref(q) for every other q in A, elements identified by address / by value (implicit sequence) / for bits by reading with only the expected bit set and with "
        "all-zero storage. huge_law_instances / huge_positions / huge_pairs / huge_worlds count this part (its instances are also included in evaluations and distinct_nontrivial)"
        % (len(HUGE_MANIFEST),
           "; thorough: also sizes 2^31+1, 2^33+8, 2^35+3 (bitset), 2^31+1, 2^35+3 (array), 2^33+7, 2^31+1 (implicit)" if ctx.tier == "thorough" else "",
           "V = {0, 1, 2^k-1, 2^k, 2^k+1 (k in 6,7,8,15,16,31,32,33,53,62), 2^63-2, 2^63-1}" if ctx.tier == "quick" else
           "V = {0..3, 2^k-1, 2^k, 2^k+1 (every k in 1..62), 2^k-3..2^k+3 (k in 8,16,31,32,33,53,62), 2^63-4..2^63-1}"))
    if len(configs(ctx.tier)) > 1:
        ctx.rule += ("; additional builds (%s) re-execute the same instances up to N = %d / %d / %d / %d" % (
            ", ".join("%s -std=%s" % (c, s) for (s, c, p) in configs(ctx.tier) if not p),
            NMAX_SECONDARY["plain"], NMAX_SECONDARY["u8"], NMAX_SECONDARY["u32"], NMAX_SECONDARY["u64"]))
        ctx.rule += " and the magnitude part with the quick alphabet"
    ctx.assumptions += [
        "reference semantics = index arithmetic on the underlying std::vector / std::map / block storage; std:: iterators, std::next and std::reverse_iterator are trusted",
        "bounded: container sizes up to the stated N per kind; element types int / double / bool; map<int,double>; steps 1..4 and 7; larger sizes, other element types, "
        "negative or zero steps and a step that does not divide the distance to end() are outside the scope",
        "only expressions whose result stays inside [begin, end] are evaluated (anything else is undefined for any iterator); iterators of different containers are never compared",
        "operator-> , iterator_traits conformance and default-constructed (singular) iterators are not part of the statement and are not judged",
        "laws that need an operator a kind does not provide are skipped by capability probe: xcomplex_iterator has no operator< on the pinned tree, so < <= > >= are not evaluated for it; "
        "begin() of xoptional_array / xcomplex_array is ill-formed on the pinned tree (IT::value_type on a pointer), so only the vector forms are explored",
        "the size_t overloads of xrandom_access_iterator_ext have no user inside the library; they are exercised through two iterators defined in the harness that derive directly from the two base classes "
        "(small scope) and three more with a 64-bit difference_type (magnitude part)",
        "magnitude part: positions and offsets >= 2^31 are enumerated over a BOUNDARY ALPHABET (windows around powers of two, around N - 2^k and around PTRDIFF_MAX), exhaustively over "
        "alphabet and alphabet^2, not over every position of the huge range; a defect that needs a large position which is not within +-1 (thorough: +-3 for the main boundaries) of a "
        "boundary value or of its mirror image N - v is outside the scope; full traversals (2^32 and more steps) are not executed there, ++/--/it++/it-- are enumerated per boundary position",
        "magnitude part: LP64 target (64-bit ptrdiff_t / size_t); the huge ranges are address space only (mmap MAP_NORESERVE zero pages; a few pages are written for the bit identification); "
        "an mmap that fails is recorded as a cap, never a silent pass; owning xdynamic_bitset objects of 2^32 bits (512 MiB of touched memory) are not built - their iterator is the same "
        "xbitset_iterator template as the view's; the huge xoptional_iterator / xcomplex_iterator are built through their public constructors (no xoptional_vector / xcomplex_vector of that size exists)",
    ]
    ctx.note("groups: " + "; ".join("%d=%s" % (g, GROUP_DOC[g]) for g in GROUPS))



HANG_DEADLINE, HANG_TIMEOUT = 15, 75


def run_guarded(sub, binary, args, tag, timeout, kind):
    """run_harness, with NON-TERMINATION as an outcome.  Every harness ends itself at its own --deadline, which is 90 s before `timeout`; a harness that is
    still running then is stuck inside one law instance (e.g. an operator- that counts increments and never arrives).  Before that is believed the same
    job is run once more alone with --deadline 15 and 60 s of grace: if it ends this time the first run was merely starved (reported as a cap),
    if not, the kind is reported as a violation whose replay is that short run."""
    try:
        sub.run_harness(binary, args, tag=tag, timeout=timeout)
        return
    except vlib.HarnessError as e:
        if "harness timeout" not in str(e):
            raise
    short = list(args)
    short[short.index("--deadline") + 1] = str(HANG_DEADLINE)
    try:
        sub.run_harness(binary, short, tag=tag, timeout=HANG_TIMEOUT)
        sub.cap("%s: the harness overran its deadline once (machine overloaded?) and ended normally when repeated alone with --deadline %d; only that prefix was enumerated" % (kind, HANG_DEADLINE))
    except vlib.HarnessError as e:
        if "harness timeout" not in str(e):
            raise
        sub.violation("C12/%s/no-termination" % kind,
                      "kind=%s: the harness did not end within %d s after its own deadline, twice (the second time alone, --deadline %d): one law instance of this iterator kind does not "
                      "return (an operation that never terminates, e.g. a difference computed by counting increments towards a position that lies behind); harness command: %s"
                      % (kind, HANG_TIMEOUT - HANG_DEADLINE, HANG_DEADLINE, " ".join(short)), harness=tag, args=short)


def replay(ctx, rec):
    group, std, cxx = parse_tag(rec["harness"])
    binary = build(group, std, cxx)
    if str(rec.get("sig", "")).endswith("/no-termination"):
        try:
            ctx.run_harness(binary, list(rec["args"]), tag=rec["harness"], timeout=HANG_TIMEOUT)
        except vlib.HarnessError as e:
            if "harness timeout" not in str(e):
                raise
            ctx.violation(rec["sig"], "replay: the harness again did not end within %d s after its --deadline" % (HANG_TIMEOUT - HANG_DEADLINE), harness=rec["harness"], args=list(rec["args"]))
        return
    ctx.run_harness(binary, list(rec["args"]), tag=rec["harness"])
