// C12, the MAGNITUDE dimension (huge.hpp): worlds whose positions and offsets reach 2^31 .. PTRDIFF_MAX without costing memory.
// Compiled once per group (-DC12_GROUP=8..10):
//   8 = iterators defined here that derive directly from xbidirectional_iterator_base / xrandom_access_iterator_base (+ _ext),
//       over an IMPLICIT sequence (element i has the value i) or over a read-only zero-page mapping (true references);
//       xstepping_iterator over those and over a raw pointer into the mapping
//   9 = xbitset_iterator (mutable / const) of an xdynamic_bitset_view laid over a private zero-page mapping, its
//       std::reverse_iterator (rbegin()/rend()), and xstepping_iterator over it
//  10 = xoptional_iterator / xcomplex_iterator built through their public constructors from such sub-iterators
#include "huge.hpp"

#ifndef C12_GROUP
#error "compile with -DC12_GROUP=8..10"
#endif

#include <xtl/xiterator_base.hpp>
#if C12_GROUP == 9 || C12_GROUP == 10
#include <xtl/xdynamic_bitset.hpp>
#endif
#if C12_GROUP == 10
#include <xtl/xoptional_sequence.hpp>
#include <xtl/xcomplex_sequence.hpp>
#endif

#include <cstdlib>
#include <iterator>
#include <string>
#include <vector>

using c12h::pos_t;
using c12h::pstr;

static const pos_t P31 = pos_t(1) << 31, P32 = pos_t(1) << 32, P33 = pos_t(1) << 33, P35 = pos_t(1) << 35;

// =====================================================================================================================
// ---- harness iterators deriving directly from the base classes -------------------------------------------------------
// implicit sequence 0, 1, 2, ...: returns values, D = difference type (std::ptrdiff_t or long long), one signed += / -=
template <class D>
class iota_iterator : public xtl::xrandom_access_iterator_base<iota_iterator<D>, std::int64_t, D, const std::int64_t*, std::int64_t>,
                      public xtl::xrandom_access_iterator_ext<iota_iterator<D>, std::int64_t>
{
public:
    using self_type = iota_iterator;
    using base_type = xtl::xrandom_access_iterator_base<self_type, std::int64_t, D, const std::int64_t*, std::int64_t>;
    using ext_type = xtl::xrandom_access_iterator_ext<self_type, std::int64_t>;
    using value_type = typename base_type::value_type;
    using reference = typename base_type::reference;
    using pointer = typename base_type::pointer;
    using difference_type = typename base_type::difference_type;
    using iterator_category = typename base_type::iterator_category;
    using size_type = typename ext_type::size_type;

    iota_iterator() : m_pos(0) {}
    explicit iota_iterator(std::int64_t p) : m_pos(p) {}
    self_type& operator++() { ++m_pos; return *this; }
    self_type& operator--() { --m_pos; return *this; }
    self_type& operator+=(difference_type n) { m_pos += n; return *this; }
    self_type& operator-=(difference_type n) { m_pos -= n; return *this; }
    difference_type operator-(const self_type& rhs) const { return m_pos - rhs.m_pos; }
    reference operator*() const { return m_pos; }
    bool operator==(const self_type& rhs) const { return m_pos == rhs.m_pos; }
    bool operator<(const self_type& rhs) const { return m_pos < rhs.m_pos; }
    using base_type::operator[];
    using ext_type::operator[];
    std::int64_t where() const { return m_pos; }  // accessor for messages, not an operator under test
private:
    std::int64_t m_pos;
};

// the same sequence through the bidirectional base only
class iota_bidir_iterator : public xtl::xbidirectional_iterator_base<iota_bidir_iterator, std::int64_t, std::ptrdiff_t, const std::int64_t*, std::int64_t>
{
public:
    using self_type = iota_bidir_iterator;
    iota_bidir_iterator() : m_pos(0) {}
    explicit iota_bidir_iterator(std::int64_t p) : m_pos(p) {}
    self_type& operator++() { ++m_pos; return *this; }
    self_type& operator--() { --m_pos; return *this; }
    std::int64_t operator*() const { return m_pos; }
    bool operator==(const self_type& rhs) const { return m_pos == rhs.m_pos; }
    std::int64_t where() const { return m_pos; }
private:
    std::int64_t m_pos;
};

// true references into an array of T (the array is a zero-page mapping that is never read), D = std::ptrdiff_t
template <class T>
class region_iterator : public xtl::xrandom_access_iterator_base<region_iterator<T>, std::remove_const_t<T>, std::ptrdiff_t, T*, T&>,
                        public xtl::xrandom_access_iterator_ext<region_iterator<T>, T&>
{
public:
    using self_type = region_iterator;
    using base_type = xtl::xrandom_access_iterator_base<self_type, std::remove_const_t<T>, std::ptrdiff_t, T*, T&>;
    using ext_type = xtl::xrandom_access_iterator_ext<self_type, T&>;
    using value_type = typename base_type::value_type;
    using reference = typename base_type::reference;
    using pointer = typename base_type::pointer;
    using difference_type = typename base_type::difference_type;
    using iterator_category = typename base_type::iterator_category;
    using size_type = typename ext_type::size_type;

    region_iterator() : m_p(nullptr) {}
    explicit region_iterator(T* p) : m_p(p) {}
    self_type& operator++() { ++m_p; return *this; }
    self_type& operator--() { --m_p; return *this; }
    self_type& operator+=(difference_type n) { m_p += n; return *this; }
    self_type& operator-=(difference_type n) { m_p -= n; return *this; }
    difference_type operator-(const self_type& rhs) const { return m_p - rhs.m_p; }
    reference operator*() const { return *m_p; }
    pointer operator->() const { return m_p; }
    bool operator==(const self_type& rhs) const { return m_p == rhs.m_p; }
    bool operator<(const self_type& rhs) const { return m_p < rhs.m_p; }
    using base_type::operator[];
    using ext_type::operator[];
    T* where() const { return m_p; }
private:
    T* m_p;
};

// ---- a read-only array of N + 1 objects of type T that occupies address space only -----------------------------------
template <class T>
struct region
{
    c12h::mapping m;
    pos_t N;
    explicit region(pos_t n) : N(n) { m.map((std::size_t(n) + 1) * sizeof(T), false); }
    bool ok() const { return m.p != nullptr; }
    T* at(pos_t p) const { return static_cast<T*>(m.p) + p; }
    // index of the object at address q, or a description
    bool index_of(const void* q, pos_t& out) const
    {
        std::uintptr_t b = reinterpret_cast<std::uintptr_t>(m.p), a = reinterpret_cast<std::uintptr_t>(q);
        if (a < b || (a - b) % sizeof(T) != 0 || (a - b) / sizeof(T) >= std::uintptr_t(N)) return false;
        out = pos_t((a - b) / sizeof(T));
        return true;
    }
    std::string describe(const void* q) const
    {
        pos_t i = 0;
        if (index_of(q, i)) return "element " + pstr(i);
        std::intptr_t off = reinterpret_cast<std::intptr_t>(q) - reinterpret_cast<std::intptr_t>(m.p);
        return "an object " + vf::str((long long)off) + " bytes from the start of the storage (no element of the container)";
    }
};

struct no_extra
{
    void extra_positions(std::set<pos_t>&, const std::vector<pos_t>&) const {}
};

#if C12_GROUP == 8
template <class D>
struct iota_world : no_extra
{
    using iterator = iota_iterator<D>;
    using difference_type = typename iterator::difference_type;
    static constexpr bool random_access = true;
    static constexpr bool has_ext = true;
    static std::string kind() { return std::is_same<D, std::ptrdiff_t>::value ? "huge.iota_val_base_ext" : "huge.iota_val_longlong_base_ext"; }
    static std::vector<pos_t> sizes(bool thorough)
    {
        if (!thorough) return {LLONG_MAX};
        return {LLONG_MAX, P33 + 7, P31 + 1};
    }
    pos_t N;
    explicit iota_world(pos_t n) : N(n) {}
    bool ok() const { return true; }
    pos_t size() const { return N; }
    pos_t made_from() const { return N; }
    iterator begin() { return iterator(0); }
    iterator end() { return iterator(N); }
    iterator ref(pos_t p) { return iterator(p); }
    bool peek(const iterator& it, pos_t& out) const { out = it.where(); return true; }
    template <class F>
    std::string elem_mismatch(F&& f, pos_t expected, const std::vector<pos_t>&)
    {
        std::int64_t v = f();  // the value IS the index
        if (v == expected) return "";
        return (v >= 0 && v < N) ? "element " + pstr(v) : "the value " + pstr(v) + " (no element of the sequence)";
    }
};

struct iota_bidir_world : no_extra
{
    using iterator = iota_bidir_iterator;
    using difference_type = std::ptrdiff_t;
    static constexpr bool random_access = false;
    static constexpr bool has_ext = false;
    static std::string kind() { return "huge.iota_val_bidirectional_base"; }
    static std::vector<pos_t> sizes(bool) { return {LLONG_MAX}; }
    pos_t N;
    explicit iota_bidir_world(pos_t n) : N(n) {}
    bool ok() const { return true; }
    pos_t size() const { return N; }
    pos_t made_from() const { return N; }
    iterator begin() { return iterator(0); }
    iterator end() { return iterator(N); }
    iterator ref(pos_t p) { return iterator(p); }
    bool peek(const iterator& it, pos_t& out) const { out = it.where(); return true; }
    template <class F>
    std::string elem_mismatch(F&& f, pos_t expected, const std::vector<pos_t>&)
    {
        std::int64_t v = f();
        if (v == expected) return "";
        return (v >= 0 && v < N) ? "element " + pstr(v) : "the value " + pstr(v) + " (no element of the sequence)";
    }
};

struct region_ref_world : no_extra
{
    using T = const unsigned char;
    using iterator = region_iterator<T>;
    using difference_type = iterator::difference_type;
    static constexpr bool random_access = true;
    static constexpr bool has_ext = true;
    static std::string kind() { return "huge.region_ref_base_ext"; }
    static std::vector<pos_t> sizes(bool thorough)
    {
        if (!thorough) return {P33 + 7};
        return {P33 + 7, P31 + 1, P35 + 3};
    }
    region<T> r;
    explicit region_ref_world(pos_t n) : r(n) {}
    bool ok() const { return r.ok(); }
    pos_t size() const { return r.N; }
    pos_t made_from() const { return r.N; }
    iterator begin() { return iterator(r.at(0)); }
    iterator end() { return iterator(r.at(r.N)); }
    iterator ref(pos_t p) { return iterator(r.at(p)); }
    bool peek(const iterator& it, pos_t& out) const { out = it.where() - r.at(0); return true; }
    template <class F>
    std::string elem_mismatch(F&& f, pos_t expected, const std::vector<pos_t>&)
    {
        T& x = f();  // bound, never read
        pos_t i = 0;
        if (r.index_of(&x, i) && i == expected) return "";
        return r.describe(&x);
    }
};

// sub-worlds for the stepping iterator: (iterator at underlying index u, element identification in underlying indices)
struct iota_sub
{
    using iterator = iota_iterator<std::ptrdiff_t>;
    static const char* name() { return "iota"; }
    static std::vector<pos_t> sizes(bool thorough) { return iota_world<std::ptrdiff_t>::sizes(thorough); }
    iota_world<std::ptrdiff_t> w;
    explicit iota_sub(pos_t n) : w(n) {}
    bool ok() const { return true; }
    iterator at(pos_t u) { return iterator(u); }
    bool peek(const iterator& it, pos_t& out) const { out = it.where(); return true; }
    template <class F>
    std::string mismatch(F&& f, pos_t u, const std::vector<pos_t>& A)
    {
        std::string s = w.elem_mismatch(f, u, A);
        return s.empty() ? s : "underlying " + s;
    }
};

struct pointer_sub
{
    using T = const unsigned char;
    using iterator = T*;
    static const char* name() { return "pointer"; }
    static std::vector<pos_t> sizes(bool thorough) { return region_ref_world::sizes(thorough); }
    region<T> r;
    explicit pointer_sub(pos_t n) : r(n) {}
    bool ok() const { return r.ok(); }
    iterator at(pos_t u) { return r.at(u); }
    bool peek(const iterator& it, pos_t& out) const { out = it - r.at(0); return true; }
    template <class F>
    std::string mismatch(F&& f, pos_t u, const std::vector<pos_t>&)
    {
        T& x = f();
        pos_t i = 0;
        if (r.index_of(&x, i) && i == u) return "";
        return "underlying " + r.describe(&x);
    }
};
#endif

// =====================================================================================================================
#if C12_GROUP == 9 || C12_GROUP == 10
// an xdynamic_bitset_view<Blk> of N bits over a private zero-page mapping; pages are committed only where a bit is written
template <class Blk>
struct huge_bits
{
    using view_type = xtl::xdynamic_bitset_view<Blk>;
    static constexpr pos_t W = pos_t(sizeof(Blk) * 8);
    c12h::mapping m;
    pos_t N;
    view_type* bs = nullptr;
    explicit huge_bits(pos_t n) : N(n)
    {
        if (m.map(std::size_t((n + W - 1) / W + 2) * sizeof(Blk), true))
            bs = new view_type(static_cast<Blk*>(m.p), std::size_t(n));
    }
    huge_bits(const huge_bits&) = delete;
    ~huge_bits() { delete bs; }
    bool ok() const { return bs != nullptr; }
    void set_bit(pos_t u, bool v)
    {
        Blk* d = static_cast<Blk*>(m.p);
        const Blk mask = Blk(Blk(1) << (u % W));
        if (v) d[u / W] = Blk(d[u / W] | mask);
        else d[u / W] = Blk(d[u / W] & Blk(~mask));
    }
    // does read() (a dereference converted to bool) designate bit u?  it must follow bit u and nothing else: true with
    // only bit u set, false with the storage all zero.  `map(q)` translates an alphabet position to an underlying bit
    // (identity, or the mirror image for reverse iterators) for the diagnosis.
    template <class Read, class Map>
    std::string bit_mismatch(Read&& read, pos_t u, const std::vector<pos_t>& A, Map&& map, pos_t limit)
    {
        set_bit(u, true);
        bool on = read();
        set_bit(u, false);
        bool off = read();
        if (on && !off) return "";
        if (on && off) return "something that reads true although every bit of the storage is 0 (no element of the container)";
        for (pos_t q : A)
        {
            if (q >= limit) continue;
            pos_t uq = map(q);
            set_bit(uq, true);
            bool r = read();
            set_bit(uq, false);
            if (r) return "element " + pstr(q);
        }
        return "none of the boundary elements (it reads false while only the expected element is set)";
    }
};
#endif

#if C12_GROUP == 9
// MODE: 0 iterator, 1 const_iterator, 2 reverse_iterator, 3 const_reverse_iterator (what rbegin()/rend() return)
template <class Blk, int MODE>
struct hbitset_world : no_extra
{
    using view_type = xtl::xdynamic_bitset_view<Blk>;
    using fwd_iterator = typename view_type::iterator;
    using fwd_const_iterator = typename view_type::const_iterator;
    using iterator = std::conditional_t<MODE == 0, fwd_iterator,
                     std::conditional_t<MODE == 1, fwd_const_iterator,
                     std::conditional_t<MODE == 2, typename view_type::reverse_iterator, typename view_type::const_reverse_iterator>>>;
    using difference_type = typename iterator::difference_type;
    static constexpr bool random_access = true;
    static constexpr bool has_ext = false;
    static constexpr bool reversed = MODE >= 2;
    static std::string kind()
    {
        static const char* mn[] = {"iterator", "const_iterator", "reverse_iterator", "const_reverse_iterator"};
        return std::string("huge.bitset_view_u") + vf::str(sizeof(Blk) * 8) + "." + mn[MODE];
    }
    static std::vector<pos_t> sizes(bool thorough)
    {
        if (!thorough) return {P32 + 192};
        return {P32 + 192, P31 + 1, P33 + 8, P35 + 3};
    }
    huge_bits<Blk> hb;
    pos_t N;
    explicit hbitset_world(pos_t n) : hb(n), N(n) {}
    bool ok() const { return hb.ok(); }
    pos_t size() const { return N; }
    pos_t made_from() const { return N; }
    view_type& bs() { return *hb.bs; }
    const view_type& cbs() { return *hb.bs; }

    iterator begin() { return begin_(std::integral_constant<int, MODE>()); }
    iterator end() { return end_(std::integral_constant<int, MODE>()); }
    iterator begin_(std::integral_constant<int, 0>) { return bs().begin(); }
    iterator end_(std::integral_constant<int, 0>) { return bs().end(); }
    iterator begin_(std::integral_constant<int, 1>) { return cbs().begin(); }
    iterator end_(std::integral_constant<int, 1>) { return cbs().end(); }
    iterator begin_(std::integral_constant<int, 2>) { return bs().rbegin(); }
    iterator end_(std::integral_constant<int, 2>) { return bs().rend(); }
    iterator begin_(std::integral_constant<int, 3>) { return cbs().rbegin(); }
    iterator end_(std::integral_constant<int, 3>) { return cbs().rend(); }

    iterator ref(pos_t p) { return ref_(p, std::integral_constant<int, MODE>()); }
    iterator ref_(pos_t p, std::integral_constant<int, 0>) { return fwd_iterator(bs(), std::size_t(p)); }
    iterator ref_(pos_t p, std::integral_constant<int, 1>) { return fwd_const_iterator(cbs(), std::size_t(p)); }
    iterator ref_(pos_t p, std::integral_constant<int, 2>) { return iterator(fwd_iterator(bs(), std::size_t(N - p))); }
    iterator ref_(pos_t p, std::integral_constant<int, 3>) { return iterator(fwd_const_iterator(cbs(), std::size_t(N - p))); }
    bool peek(const iterator&, pos_t&) const { return false; }

    pos_t under(pos_t q) const { return reversed ? N - 1 - q : q; }
    template <class F>
    std::string elem_mismatch(F&& f, pos_t expected, const std::vector<pos_t>& A)
    {
        return hb.bit_mismatch([&]() { return static_cast<bool>(f()); }, under(expected), A, [&](pos_t q) { return under(q); }, N);
    }
};

struct bitset_sub
{
    using view_type = xtl::xdynamic_bitset_view<std::uint64_t>;
    using iterator = view_type::const_iterator;
    static const char* name() { return "bitset_view_u64_const_iterator"; }
    static std::vector<pos_t> sizes(bool thorough) { return thorough ? std::vector<pos_t>{P32 + 192, P33 + 8} : std::vector<pos_t>{P32 + 192}; }
    huge_bits<std::uint64_t> hb;
    explicit bitset_sub(pos_t n) : hb(n) {}
    bool ok() const { return hb.ok(); }
    iterator at(pos_t u) { return iterator(*hb.bs, std::size_t(u)); }
    bool peek(const iterator&, pos_t&) const { return false; }
    template <class F>
    std::string mismatch(F&& f, pos_t u, const std::vector<pos_t>&)
    {
        std::vector<pos_t> none;
        std::string s = hb.bit_mismatch([&]() { return static_cast<bool>(f()); }, u, none, [](pos_t q) { return q; }, hb.N);
        return s.empty() ? s : "not the underlying bit: " + s;
    }
};
#endif

#if C12_GROUP == 8 || C12_GROUP == 9
// xstepping_iterator<Sub::iterator> with the positive step S over a sub-range of Nu elements: N = floor(Nu / S) steps
template <class Sub, pos_t S>
struct hstepping_world
{
    using iterator = xtl::xstepping_iterator<typename Sub::iterator>;
    using difference_type = typename iterator::difference_type;
    static constexpr bool random_access = true;
    static constexpr bool has_ext = false;
    static std::string kind() { return std::string("huge.stepping.") + Sub::name() + ".step" + vf::str(S); }
    static std::vector<pos_t> sizes(bool thorough) { return Sub::sizes(thorough); }  // sizes of the UNDERLYING range
    Sub sub;
    pos_t N, Nu;
    explicit hstepping_world(pos_t nu) : sub(nu), N(nu / S), Nu(nu) {}
    bool ok() const { return sub.ok(); }
    pos_t size() const { return N; }
    pos_t made_from() const { return Nu; }
    iterator begin() { return xtl::make_stepping_iterator(sub.at(0), difference_type(S)); }
    iterator end() { return xtl::make_stepping_iterator(sub.at(N * S), difference_type(S)); }
    iterator ref(pos_t p) { return iterator(sub.at(p * S), difference_type(S)); }
    bool peek(const iterator&, pos_t&) const { return false; }
    // positions whose UNDERLYING index is next to a boundary value
    void extra_positions(std::set<pos_t>& s, const std::vector<pos_t>& V) const
    {
        for (pos_t v : V)
        {
            const pos_t p = v / S;
            if (p <= N) { s.insert(p); s.insert(N - p); }
            if (p < N) { s.insert(p + 1); s.insert(N - p - 1); }
        }
    }
    template <class F>
    std::string elem_mismatch(F&& f, pos_t expected, const std::vector<pos_t>& A)
    {
        std::string s = sub.mismatch(f, expected * S, A);
        return s.empty() ? s : s + " (element " + pstr(expected) + " is the underlying element " + pstr(expected * S) + ")";
    }
};
#endif

// =====================================================================================================================
#if C12_GROUP == 10
// xoptional_iterator<ITV, ITB> through its public (value iterator, flag iterator) constructor: values = true references
// into a read-only zero-page array, flags = iterators of a huge bitset view.  REV: both sub-iterators are std::reverse_iterator.
template <bool REV>
struct hoptional_world : no_extra
{
    using VT = unsigned char;
    using view_type = xtl::xdynamic_bitset_view<std::uint64_t>;
    using vit = region_iterator<VT>;
    using fit = view_type::iterator;
    using iterator = std::conditional_t<REV, xtl::xoptional_iterator<std::reverse_iterator<vit>, std::reverse_iterator<fit>>, xtl::xoptional_iterator<vit, fit>>;
    using difference_type = typename iterator::difference_type;
    static constexpr bool random_access = true;
    static constexpr bool has_ext = false;
    static std::string kind() { return REV ? "huge.optional_over_region_and_bitset_view.reverse_iterator" : "huge.optional_over_region_and_bitset_view.iterator"; }
    static std::vector<pos_t> sizes(bool thorough) { return thorough ? std::vector<pos_t>{P32 + 192, P33 + 8} : std::vector<pos_t>{P32 + 192}; }
    region<VT> values;
    huge_bits<std::uint64_t> flags;
    pos_t N;
    explicit hoptional_world(pos_t n) : values(n), flags(n), N(n) {}
    bool ok() const { return values.ok() && flags.ok(); }
    pos_t size() const { return N; }
    pos_t made_from() const { return N; }
    iterator make(pos_t p, std::false_type) { return iterator(vit(values.at(p)), fit(*flags.bs, std::size_t(p))); }
    iterator make(pos_t p, std::true_type)
    {
        return iterator(std::reverse_iterator<vit>(vit(values.at(N - p))), std::reverse_iterator<fit>(fit(*flags.bs, std::size_t(N - p))));
    }
    iterator ref(pos_t p) { return make(p, std::integral_constant<bool, REV>()); }
    iterator begin() { return ref(0); }  // there is no container around the two storages: the anchors are the constructor itself
    iterator end() { return ref(N); }
    bool peek(const iterator&, pos_t&) const { return false; }
    pos_t under(pos_t q) const { return REV ? N - 1 - q : q; }
    template <class F>
    std::string elem_mismatch(F&& f, pos_t expected, const std::vector<pos_t>& A)
    {
        const pos_t u = under(expected);
        pos_t uv = -1;
        std::string where_value;
        {
            auto r = f();
            VT* pv = &r.value();
            if (!values.index_of(pv, uv)) return "a value that is " + values.describe(pv);
        }
        if (uv != u) return "the value of element " + pstr(under(uv));
        std::string s = flags.bit_mismatch([&]() { auto r = f(); return static_cast<bool>(r.has_value()); }, u, A, [&](pos_t q) { return under(q); }, N);
        return s.empty() ? s : "the value of element " + pstr(expected) + " but the flag of " + s + " (value and flag of different elements)";
    }
};

// xcomplex_iterator<IT, false> through its public (real iterator, imaginary iterator) constructor over two read-only zero-page arrays
template <bool REV>
struct hcomplex_world : no_extra
{
    using VT = float;
    using sub = region_iterator<VT>;
    using IT = std::conditional_t<REV, std::reverse_iterator<sub>, sub>;
    using iterator = xtl::xcomplex_iterator<IT, false>;
    using difference_type = typename iterator::difference_type;
    static constexpr bool random_access = true;
    static constexpr bool has_ext = false;
    static std::string kind() { return REV ? "huge.complex_over_regions.reverse_iterator" : "huge.complex_over_regions.iterator"; }
    static std::vector<pos_t> sizes(bool thorough) { return thorough ? std::vector<pos_t>{P32 + 192, P31 + 1} : std::vector<pos_t>{P32 + 192}; }
    region<VT> re, im;
    pos_t N;
    explicit hcomplex_world(pos_t n) : re(n), im(n), N(n) {}
    bool ok() const { return re.ok() && im.ok(); }
    pos_t size() const { return N; }
    pos_t made_from() const { return N; }
    iterator make(pos_t p, std::false_type) { return iterator(sub(re.at(p)), sub(im.at(p))); }
    iterator make(pos_t p, std::true_type) { return iterator(IT(sub(re.at(N - p))), IT(sub(im.at(N - p)))); }
    iterator ref(pos_t p) { return make(p, std::integral_constant<bool, REV>()); }
    iterator begin() { return ref(0); }
    iterator end() { return ref(N); }
    bool peek(const iterator&, pos_t&) const { return false; }
    pos_t under(pos_t q) const { return REV ? N - 1 - q : q; }
    template <class F>
    std::string elem_mismatch(F&& f, pos_t expected, const std::vector<pos_t>&)
    {
        auto r = f();
        VT* pr = &r.real();
        VT* pi = &r.imag();
        pos_t ur = -1, ui = -1;
        if (!re.index_of(pr, ur)) return "a real part that is " + re.describe(pr);
        if (!im.index_of(pi, ui)) return "an imaginary part that is " + im.describe(pi);
        if (ur != ui) return "the real part of element " + pstr(under(ur)) + " and the imaginary part of element " + pstr(under(ui));
        if (ur != under(expected)) return "element " + pstr(under(ur));
        return "";
    }
};
#endif

// =====================================================================================================================
static void register_all()
{
    using c12h::register_hkind;
#if C12_GROUP == 8
    register_hkind<iota_world<std::ptrdiff_t>>();
    register_hkind<iota_world<long long>>();
    register_hkind<iota_bidir_world>();
    register_hkind<region_ref_world>();
    register_hkind<hstepping_world<iota_sub, 3>>();
    register_hkind<hstepping_world<iota_sub, (pos_t(1) << 31) + 1>>();
    register_hkind<hstepping_world<pointer_sub, 1>>();
    register_hkind<hstepping_world<pointer_sub, 3>>();
#elif C12_GROUP == 9
    register_hkind<hbitset_world<std::uint64_t, 0>>();
    register_hkind<hbitset_world<std::uint64_t, 1>>();
    register_hkind<hbitset_world<std::uint64_t, 2>>();
    register_hkind<hbitset_world<std::uint64_t, 3>>();
    register_hkind<hbitset_world<std::uint8_t, 0>>();
    register_hkind<hbitset_world<std::uint32_t, 1>>();
    register_hkind<hstepping_world<bitset_sub, 1>>();
    register_hkind<hstepping_world<bitset_sub, 3>>();
    register_hkind<hstepping_world<bitset_sub, 64>>();
#elif C12_GROUP == 10
    register_hkind<hoptional_world<false>>();
    register_hkind<hoptional_world<true>>();
    register_hkind<hcomplex_world<false>>();
    register_hkind<hcomplex_world<true>>();
#endif
}

int main(int argc, char** argv)
{
    register_all();
    c12h::install_crash_attribution();
    std::string kind, law, tier = "quick";
    pos_t N = -1, a = 0, b = 0;
    double deadline = 1e9;
    bool list = false;
    for (int i = 1; i < argc; ++i)
    {
        std::string s = argv[i];
        auto next = [&]() -> std::string { return (i + 1 < argc) ? argv[++i] : ""; };
        if (s == "--list") list = true;
        else if (s == "--kind") kind = next();
        else if (s == "--tier") tier = next();
        else if (s == "--deadline") deadline = std::atof(next().c_str());
        else if (s == "--N") N = std::atoll(next().c_str());
        else if (s == "--law") law = next();
        else if (s == "--a") a = std::atoll(next().c_str());
        else if (s == "--b") b = std::atoll(next().c_str());
        else { std::fprintf(stderr, "unknown argument %s\n", s.c_str()); return 2; }
    }
    c12h::thorough_alphabet() = (tier == "thorough");
    if (list)
    {
        for (const c12h::hkind_entry& e : c12h::hregistry())
            vf::note("kind " + e.name + " random_access=" + vf::str(int(e.random_access)) + " less=" + vf::str(int(e.less)) + " ext=" + vf::str(int(e.ext)));
        vf::done();
        return 0;
    }
    const c12h::hkind_entry* e = nullptr;
    for (const c12h::hkind_entry& k : c12h::hregistry())
        if (k.name == kind) e = &k;
    if (!e) { std::fprintf(stderr, "unknown kind '%s' in group %d\n", kind.c_str(), C12_GROUP); return 2; }
    if (!law.empty())
    {
        int rc = e->one(N, c12::law_from_name(law), a, b);
        if (rc == 1) { std::fprintf(stderr, "case is not in the domain of kind %s\n", kind.c_str()); return 2; }
        if (rc == 2) { std::fprintf(stderr, "the address range for kind %s N=%lld could not be mapped\n", kind.c_str(), N); return 2; }
        vf::done();
        return 0;
    }
    int ordinal = int(e - &c12h::hregistry()[0]) + 3 * C12_GROUP;
    e->enumerate(c12h::thorough_alphabet(), c12::now_s() + deadline, ordinal);
    vf::note("magnitude alphabet (" + tier + "): " + c12h::alphabet_doc(c12h::thorough_alphabet()));
    vf::stat("huge_kind_runs");
    vf::done();
    return 0;
}
