"""C02 fixed string stays in its buffer; failed operations change nothing: the error transitions of the C01 explorer."""
import os, sys
sys.path.insert(0, os.path.join(os.path.dirname(os.path.dirname(os.path.abspath(__file__))), "C01"))
import fscommon

LEVEL = "model_checking"


def run(ctx):
    fscommon.run(ctx, "C02")
    ctx.rule = ("same explorer as C01 (throwing policy instantiations P3c-t P3u-t F3-t S3-t, capacities 200/256 depth-bounded; silent P3c S3 for the guard part): the string under test is the middle element "
                "of three adjacent strings framed by 32 guard bytes; for every reachable raw state every operation instance is classified by the std::basic_string model: a position beyond the relevant "
                "length must throw std::out_of_range, else a result longer than N must throw std::length_error, else it must succeed; after an exception size() and data()[0..size()] must equal the pre-state; "
                "after every transition the neighbours and guards must be byte-identical; source operands live in exact-size heap blocks under AddressSanitizer. "
                "expected_*_transitions count the error transitions explored")
    ctx.assumptions += [
        "when both a position error and a capacity error apply, out_of_range is expected (std::basic_string's order)",
        "size()+count never overflows size_t in the alphabet (pure counts are <= N+1)",
        "intra-object overflow is detected by comparing the neighbouring strings and guard bytes, over-reads of arguments by AddressSanitizer red zones",
        "the alphabet includes the own ranges that end on the string's terminator (p+c == size()+1, see C01) for the counted assign/append/insert/replace overloads, with one exception: append(const_pointer, count) with "
        "c >= 2 ending on the terminator is left out - there source and destination share exactly data()[size()], a formal char_traits::copy overlap of exactly one element inside the object's own buffer (ASan memcpy-param-overlap), "
        "shared with libstdc++'s basic_string::append, result judged equal by a probe; it is neither a write outside the buffer nor a read outside the range passed",
    ]


def replay(ctx, rec):
    fscommon.replay(ctx, rec, "C02")
