// C10 capability probe: instantiates exactly one variant (for float and double) to find out whether the
// instantiation is well-formed on the tree as it is now.  -DC10_PROBE="template void v_xxx<...>(IO<..>&); ..."
#include "c10_variants.hpp"
#ifndef C10_PROBE
#define C10_PROBE
#endif
namespace c10
{
    C10_PROBE
}
int main() { return 0; }
