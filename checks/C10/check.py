"""C10 xcomplex arithmetic: exhaustive enumeration of operand pairs in V^4 x every well-formed instantiation
(closure kinds x ieee flags x operator forms), oracles: exact __float128 arithmetic, the Annex G rule table of
the statement, bit-identity across closure kinds and with std::complex.  See NOTES.md."""
import hashlib
import itertools
import os
import subprocess
import time

import vlib

LEVEL = "exploration"
HERE = os.path.dirname(os.path.abspath(__file__))
SRC = os.path.join(HERE, "harness.cpp")
PROBE = os.path.join(HERE, "probe.cpp")

KINDS = ["KV", "KR", "KC"]          # value, T&, const T&
FLAGS = ["false", "true"]           # ieee_compliant
OPS = ["add", "sub", "mul", "div"]
FN1 = ["neg", "pos", "conj", "proj", "abs", "arg", "norm", "exp", "log", "log10", "sqrt", "sin", "cos", "tan",
       "asin", "acos", "atan", "sinh", "cosh", "tanh", "asinh", "acosh", "atanh"]
TYPES = ["float", "double"]
PARTS = ["ADDSUB", "MUL", "DIV", "MISC"]
MTYPES = ["F", "D", "I", "L"]       # float, double, int, long double (typedefs c10::ty_F ...)
# part MIXC: compound assignment between xcomplex objects of different value types; left value types (the statement's T)
MC_LEFT = ["F", "D"]
MIXC_MACROS = ("MCMPD", "MCSTD", "MCS")
# part SCALAR: the scalar operand of x op s, s op x, x op= s, x = s has any standard arithmetic type (typedefs c10::sc_<token>;
# same order as C10_STYPES in harness.cpp).  The types are split over NSGROUP binaries per T (index % NSGROUP).
STYPES = ["bool", "char", "schar", "uchar", "wchar", "char16", "char32", "short", "ushort", "int", "uint", "long", "ulong", "llong",
          "ullong", "float", "double", "ldouble"]
NSGROUP = 3
SCALAR_MACROS = ("XSRIGHT", "XSLEFT", "XCMPDS", "XASGS")


# ---------------------------------------------------------------------------------------------------------
# Instantiation manifest.  An entry is (macro, args).  wellformed_on_pinned_tree() is the committed knowledge of
# which entries compile on the pinned tree: those are REQUIRED (if one stops compiling the check errors out,
# exit 2); the others are OPTIONAL: a compile probe decides on every run, and an entry that has become
# well-formed is explored automatically.
def entries():
    out = []
    for op in OPS:
        for b1, b2 in itertools.product(FLAGS, FLAGS):
            for k1, k2 in itertools.product(KINDS, KINDS):
                out.append(("BIN", (op, k1, b1, k2, b2)))
        for b1, b2 in itertools.product(FLAGS, FLAGS):
            for k1, k2 in itertools.product(["KV", "KR"], KINDS):
                out.append(("CMPD", (op, k1, b1, k2, b2)))
        for b1 in FLAGS:
            for k1 in KINDS:
                out.append(("SRIGHT", (op, k1, b1)))
            for k1 in KINDS:
                out.append(("SLEFT", (op, k1, b1)))
            for k1 in KINDS:
                out.append(("SRIGHT_INT", (op, k1, b1)))
            for k1 in KINDS:
                out.append(("SLEFT_INT", (op, k1, b1)))
            for k1 in ["KV", "KR"]:
                out.append(("CMPDS", (op, k1, b1)))
            for k1 in ["KV", "KR"]:
                out.append(("CMPDS_INT", (op, k1, b1)))
            out.append(("STDF", (op, b1)))
        # aliasing forms of the compound assignments (one operand (a,b)); the first entry of each (flags) group is the
        # binary operator on two separate copies, which the aliased forms are compared with
        for b1, b2 in itertools.product(FLAGS, FLAGS):
            out.append(("ALIAS_BASE", (op, b1, b2)))
            if b1 == b2:
                for k1 in ["KV", "KR"]:
                    out.append(("ALIAS_SELF", (op, k1, b1)))            # z op= z, the same object
                out.append(("ALIAS_LHSREF", (op, b1, b2)))              # reference closure over z's parts op= z
            for k2 in ["KR", "KC"]:
                out.append(("ALIAS_RHSREF", (op, b1, k2, b2)))          # z op= (const) reference closure over z's own parts
                if b1 == b2:
                    out.append(("ALIAS_REF2", (op, b1, k2, b2)))        # two closures over the same storage
        for b1 in FLAGS:
            for part in ["0", "1"]:
                out.append(("ALIAS_SBASE", (op, b1, part)))
                for k1 in ["KV", "KR"]:
                    out.append(("ALIAS_SPART", (op, k1, b1, part)))      # z op= z.real() / z.imag()
    for b1, b2 in itertools.product(FLAGS, FLAGS):
        for k1, k2 in itertools.product(["KV", "KR"], KINDS):
            out.append(("ASG", (k1, b1, k2, b2)))
    for b1 in FLAGS:
        for k1 in ["KV", "KR"]:
            out.append(("ASGS", (k1, b1)))
    for b1, b2 in itertools.product(FLAGS, FLAGS):
        for k1, k2 in itertools.product(KINDS, KINDS):
            out.append(("EQ", (k1, b1, k2, b2)))
            out.append(("NE", (k1, b1, k2, b2)))
    for f in FN1:
        for b1 in FLAGS:
            for k1 in KINDS:
                out.append(("FN1", (f, k1, b1)))
    # pow(z, w) does not depend on the ieee flags: all 9 closure-kind pairs with equal flags, mixed flags for value closures only
    for b1, b2 in itertools.product(FLAGS, FLAGS):
        for k1, k2 in itertools.product(KINDS, KINDS):
            if b1 == b2 or (k1 == "KV" and k2 == "KV"):
                out.append(("POWCC", (k1, b1, k2, b2)))
    for b1 in FLAGS:
        for k1 in KINDS:
            out.append(("POWCS", (k1, b1)))
            out.append(("POWSC", (k1, b1)))
            out.append(("ACC", (k1, b1)))
    out.append(("ACCSTD", ()))
    # mixed value types: == and != for every ordered pair of distinct types in {float, double, int, long double}
    for t1, t2 in itertools.permutations(MTYPES, 2):
        for k1, k2 in itertools.product(KINDS, KINDS):
            out.append(("MEQ", (t1, k1, "false", t2, k2, "false")))
            out.append(("MNE", (t1, k1, "false", t2, k2, "false")))
        out.append(("MEQ", (t1, "KV", "true", t2, "KV", "false")))
        out.append(("MNE", (t1, "KV", "false", t2, "KV", "true")))
    # binary arithmetic between different value types: ill-formed on the pinned tree (common_xcomplex_t pairs the two
    # parts of each operand instead of the two operands, xcomplex.hpp:116), probed on every run
    for op in OPS:
        for t1, t2 in [("F", "D"), ("D", "F"), ("I", "D"), ("D", "I")]:
            out.append(("MBIN", (op, t1, t2)))
    # part MIXC: x op= y with x over T1 in {float, double} and y over a DIFFERENT value type T2 in {float, double, int, long double}:
    # lhs closure kinds {V, R} x rhs closure kinds {V, R, C} x 2x2 ieee flags x 4 ops; the right operand converted from a
    # std::complex<T2> (MCSTD, well-formed) and handed over as a std::complex<T2> directly (MCS, no overload on the pinned tree)
    for t1 in MC_LEFT:
        for t2 in MTYPES:
            if t2 == t1:
                continue
            for op in OPS:
                for b1, b2 in itertools.product(FLAGS, FLAGS):
                    for k1, k2 in itertools.product(["KV", "KR"], KINDS):
                        out.append(("MCMPD", (op, t1, k1, b1, t2, k2, b2)))
                if t2 != "I":       # std::complex<int> is unspecified
                    for b1 in FLAGS:
                        out.append(("MCSTD", (op, t1, b1, t2)))
                        out.append(("MCS", (op, t1, "KV", b1, t2)))
    # scalars of every arithmetic type (part SCALAR)
    for st in STYPES:
        for op in OPS:
            for b1 in FLAGS:
                for k1 in KINDS:
                    out.append(("XSRIGHT", (op, k1, b1, st)))
                for k1 in KINDS:
                    out.append(("XSLEFT", (op, k1, b1, st)))
                for k1 in ["KV", "KR"]:
                    out.append(("XCMPDS", (op, k1, b1, st)))
        for b1 in FLAGS:
            for k1 in ["KV", "KR"]:
                out.append(("XASGS", (k1, b1, st)))
    return out


def wellformed_on_pinned_tree(e):
    """Which instantiations compile on the pinned tree (established by probing every entry once, see NOTES.md).
    The ill-formed ones all come from one cause: operator=, += and -= read the private members of *another*
    xcomplex instantiation (xcomplex.hpp:481-519), so they only work between identical types; *= and /= assign a
    value-closure temporary to *this (xcomplex.hpp:679-691), which needs that same operator=."""
    m, a = e
    if m == "BIN":
        op, k1, b1, k2, b2 = a
        if op in ("mul", "div"):
            return True
        # res(lhs) is xcomplex<T,T,b1||b2>; res += rhs needs rhs to be exactly that type
        return k2 == "KV" and (b2 == "true" or b1 == "false")
    if m == "CMPD":
        op, k1, b1, k2, b2 = a
        if op in ("mul", "div"):
            return k1 == "KV"
        return k1 == k2 and b1 == b2
    if m in ("SLEFT", "SLEFT_INT"):
        op, k1, b1 = a
        return op in ("mul", "div") or k1 == "KV"
    if m == "XSLEFT":
        op, k1, b1, st = a
        return op in ("mul", "div") or k1 == "KV"
    if m == "ASG":
        k1, b1, k2, b2 = a
        return k1 == "KV" and k2 == "KV" and b1 == b2
    if m == "FN1":
        f, k1, b1 = a
        return f != "pos" or k1 == "KV"     # unary + returns its argument through an explicit constructor
    if m == "ALIAS_BASE":
        return wellformed_on_pinned_tree(("BIN", (a[0], "KV", a[1], "KV", a[2])))
    if m == "ALIAS_SELF":
        op, k1, b1 = a
        return wellformed_on_pinned_tree(("CMPD", (op, k1, b1, k1, b1)))
    if m == "ALIAS_RHSREF":
        op, b1, k2, b2 = a
        return wellformed_on_pinned_tree(("CMPD", (op, "KV", b1, k2, b2)))
    if m == "ALIAS_LHSREF":
        op, b1, b2 = a
        return wellformed_on_pinned_tree(("CMPD", (op, "KR", b1, "KV", b2)))
    if m == "ALIAS_REF2":
        op, b1, k2, b2 = a
        return wellformed_on_pinned_tree(("CMPD", (op, "KR", b1, k2, b2)))
    if m == "MBIN":
        return False
    if m == "MCMPD":
        # *= and /= assign a temporary of the lhs value type to *this: fine for a value-closure lhs whatever the rhs is;
        # += and -= read the private members of the other instantiation
        op, t1, k1, b1, t2, k2, b2 = a
        return op in ("mul", "div") and k1 == "KV"
    if m == "MCS":
        return False
    return True


def inc_line(e):
    m, a = e
    return "%s(%s)" % (m, ", ".join(a))


def entry_name(e):
    return inc_line(e).replace(" ", "")


def probe_text(e):
    m, a = e
    parts = []
    for t in TYPES:
        io = "(IO<%s>&);" % t
        if m in ("BIN", "CMPD"):
            op, k1, b1, k2, b2 = a
            fn = "v_bin" if m == "BIN" else "v_cmpd"
            parts.append("template void %s<%s, op_%s, %s, %s, %s, %s>%s" % (fn, t, op, k1, b1, k2, b2, io))
        elif m in ("SRIGHT", "SLEFT", "CMPDS", "SRIGHT_INT", "SLEFT_INT", "CMPDS_INT"):
            op, k1, b1 = a
            fn = {"SRIGHT": "v_sright", "SLEFT": "v_sleft", "CMPDS": "v_cmpds"}[m.replace("_INT", "")]
            s = "int" if m.endswith("_INT") else t
            parts.append("template void %s<%s, op_%s, %s, %s, %s>%s" % (fn, t, op, k1, b1, s, io))
        elif m in ("XSRIGHT", "XSLEFT", "XCMPDS"):
            op, k1, b1, st = a
            fn = {"XSRIGHT": "v_sright", "XSLEFT": "v_sleft", "XCMPDS": "v_cmpds"}[m]
            parts.append("template void %s<%s, op_%s, %s, %s, sc_%s>%s" % (fn, t, op, k1, b1, st, io))
        elif m == "XASGS":
            parts.append("template void v_asgs<%s, %s, %s, sc_%s>%s" % (t, a[0], a[1], a[2], io))
        elif m == "STDF":
            parts.append("template void v_std<%s, op_%s, %s>%s" % (t, a[0], a[1], io))
        elif m in ("ASG", "EQ", "NE", "POWCC"):
            fn = {"ASG": "v_asg", "EQ": "v_eq", "NE": "v_ne", "POWCC": "v_powcc"}[m]
            parts.append("template void %s<%s, %s>%s" % (fn, t, ", ".join(a), io))
        elif m in ("ASGS", "POWCS", "POWSC", "ACC"):
            fn = {"ASGS": "v_asgs", "POWCS": "v_powcs", "POWSC": "v_powsc", "ACC": "v_acc"}[m]
            parts.append("template void %s<%s, %s>%s" % (fn, t, ", ".join(a), io))
        elif m == "FN1":
            parts.append("template void v_fn1<%s, f_%s, %s, %s>%s" % (t, a[0], a[1], a[2], io))
        elif m == "ACCSTD":
            parts.append("template void v_accstd<%s>%s" % (t, io))
        elif m == "ALIAS_BASE":
            parts.append("template void v_alias_base<%s, op_%s, %s, %s>%s" % (t, a[0], a[1], a[2], io))
        elif m == "ALIAS_SELF":
            parts.append("template void v_alias_self<%s, op_%s, %s, %s>%s" % (t, a[0], a[1], a[2], io))
        elif m in ("ALIAS_RHSREF", "ALIAS_REF2"):
            fn = "v_alias_rhsref" if m == "ALIAS_RHSREF" else "v_alias_ref2"
            parts.append("template void %s<%s, op_%s, %s, %s, %s>%s" % (fn, t, a[0], a[1], a[2], a[3], io))
        elif m == "ALIAS_LHSREF":
            parts.append("template void v_alias_lhsref<%s, op_%s, %s, %s>%s" % (t, a[0], a[1], a[2], io))
        elif m == "ALIAS_SBASE":
            parts.append("template void v_alias_sbase<%s, op_%s, %s, %s>%s" % (t, a[0], a[1], a[2], io))
        elif m == "ALIAS_SPART":
            parts.append("template void v_alias_spart<%s, op_%s, %s, %s, %s>%s" % (t, a[0], a[1], a[2], a[3], io))
        elif m in ("MEQ", "MNE"):
            if t == TYPES[0]:
                parts.append("template bool m_cmp<ty_%s, %s, %s, ty_%s, %s, %s, %s>(const long double*);" % (a[0], a[1], a[2], a[3], a[4], a[5], "true" if m == "MNE" else "false"))
        elif m == "MBIN":
            if t == TYPES[0]:
                parts.append("template void m_bin<ty_%s, ty_%s, op_%s>(const long double*, long double*);" % (a[1], a[2], a[0]))
        elif m == "MCMPD":
            if t == TYPES[0]:
                parts.append("template void m_cmpd<ty_%s, %s, %s, ty_%s, %s, %s, op_%s>(MIO&);" % (a[1], a[2], a[3], a[4], a[5], a[6], a[0]))
        elif m == "MCSTD":
            if t == TYPES[0]:
                parts.append("template void m_cstd<ty_%s, %s, ty_%s, op_%s>(MIO&);" % (a[1], a[2], a[3], a[0]))
        elif m == "MCS":
            if t == TYPES[0]:
                parts.append("template void m_cs<ty_%s, %s, %s, ty_%s, op_%s>(MIO&);" % (a[1], a[2], a[3], a[4], a[0]))
        else:
            raise ValueError(m)
    return " ".join(parts)


_base_key = None


def _probe_base_key():
    """hash of everything a probe can see except its own instantiation line"""
    global _base_key
    if _base_key is None:
        cmd = ["g++", "-std=c++14", "-I" + vlib.INCLUDE, "-I" + os.path.join(vlib.VERIF, "engine"), "-E", "-P", PROBE]
        r = subprocess.run(cmd, stdout=subprocess.PIPE, stderr=subprocess.PIPE)
        if r.returncode != 0:
            raise vlib.HarnessError("C10 probe does not preprocess: %s" % r.stderr.decode()[-3000:])
        _base_key = hashlib.sha256(r.stdout).hexdigest()
    return _base_key


def probe(e):
    """True when the instantiation is well-formed on the tree as it is now."""
    text = probe_text(e)
    key = hashlib.sha256((_probe_base_key() + "\0" + text).encode()).hexdigest()[:24]
    os.makedirs(vlib.CACHE, exist_ok=True)
    ok, bad = os.path.join(vlib.CACHE, "c10probe-%s.ok" % key), os.path.join(vlib.CACHE, "c10probe-%s.bad" % key)
    if os.path.exists(ok):
        return True
    if os.path.exists(bad):
        return False
    r = vlib.compile_cxx(PROBE, "c10probe", opt="-O0", san="none", defines=["C10_PROBE=" + text], syntax_only=True, expect_fail=True)
    open(ok if r else bad, "w").close()
    return r is not None


def representative(e):
    """The ill-formed scalar-type entries (scalar + / - reference closure) fail for a reason that does not involve the scalar's
    type (res += rhs between two different xcomplex instantiations), so they are not probed one by one (18 types x 8 entries): they
    follow the probe of the same form with a scalar of type T.  If that form becomes well-formed they are all enabled, and should one
    of them then not compile the build fails and the probe_all pass names it."""
    if e[0] == "XSLEFT":
        return ("SLEFT", e[1][:3])
    # part MIXC: neither cause of ill-formedness (+= / -= / operator= between two different xcomplex instantiations; no compound
    # overload for a std::complex right operand) involves the two value types or the ieee flags: one probe per (op, closure kinds)
    if e[0] == "MCMPD":
        op, t1, k1, b1, t2, k2, b2 = e[1]
        r = ("MCMPD", (op, "D", k1, "false", "F", k2, "false"))
        return None if r == e else r
    if e[0] == "MCS":
        r = ("MCS", (e[1][0], "D", "KV", "false", "F"))
        return None if r == e else r
    return None


def manifest(ctx=None, probe_all=False):
    """-> (enabled entries, optional entries found ill-formed, optional entries found well-formed)"""
    es = entries()
    required = [e for e in es if wellformed_on_pinned_tree(e)]
    optional = [e for e in es if not wellformed_on_pinned_tree(e)]
    followers = [e for e in optional if representative(e) is not None]
    optional = [e for e in optional if representative(e) is None]
    _probe_base_key()
    res = vlib.parallel([(lambda e=e: probe(e)) for e in optional], workers=min(16, vlib.NCPU))
    verdict = dict(zip(optional, res))
    for e in followers:
        verdict[e] = verdict[representative(e)]
    optional = [e for e in es if e in verdict]
    newly = [e for e in optional if verdict[e]]
    ill = [e for e in optional if not verdict[e]]
    broken = []
    if probe_all:
        todo = required + [e for e in followers if verdict[e]]
        res2 = vlib.parallel([(lambda e=e: probe(e)) for e in todo], workers=min(16, vlib.NCPU))
        broken = [e for e, r in zip(todo, res2) if not r]
    on = set(required) | set(newly)
    enabled = [e for e in es if e in on]
    return enabled, ill, newly, broken


def gen_inc(enabled):
    head = "// generated by checks/C10/check.py: the instantiations enabled for this run\n"
    files = {"c10_variants.inc": head + "\n".join(inc_line(e) for e in enabled if e[0] not in SCALAR_MACROS) + "\n"}
    for g in range(NSGROUP):
        files["c10_scalar_%d.inc" % g] = head + "\n".join(inc_line(e) for e in enabled if e[0] in SCALAR_MACROS and STYPES.index(e[1][-1]) % NSGROUP == g) + "\n"
    h = hashlib.sha256("\0".join(k + "\0" + files[k] for k in sorted(files)).encode()).hexdigest()[:16]
    d = os.path.join(vlib.BUILD, "C10_gen", h)
    os.makedirs(d, exist_ok=True)
    for name, text in files.items():
        p = os.path.join(d, name)
        if not os.path.exists(p):
            tmp = p + ".tmp%d" % os.getpid()
            with open(tmp, "w") as f:
                f.write(text)
            os.replace(tmp, p)
    return d


def tag_of(t, part):
    return "c10-%s-%s" % (t, part.lower())


SPARTS = ["SCALAR%d" % g for g in range(NSGROUP)]


def build_part(gendir, t, part):
    defines = ["C10_T=" + t, "C10_PART_" + part]
    if part in SPARTS:
        defines = ["C10_T=" + t, "C10_PART_SCALAR", "C10_SGROUP=" + part[len("SCALAR"):]]
    return vlib.compile_cxx(SRC, tag_of(t, part), std="c++14", opt="-O1", san="asan",
                            flags=["-I" + gendir, "-I" + HERE, "-ffp-contract=off"], defines=defines)


def build_all(ctx, which=None):
    enabled, ill, newly, _ = manifest(ctx)
    gendir = gen_inc(enabled)
    todo = [(t, p) for t in TYPES for p in PARTS + SPARTS] + [("double", "MIXED"), ("double", "MIXC")]
    todo = [(t, p) for t, p in todo if which is None or tag_of(t, p) == which]
    try:
        bins = vlib.parallel([(lambda t=t, p=p: build_part(gendir, t, p)) for t, p in todo], workers=min(16, vlib.NCPU))
    except vlib.HarnessError as ex:
        # a REQUIRED instantiation stopped compiling?  name it.
        _, _, _, broken = manifest(ctx, probe_all=True)
        if broken:
            raise vlib.HarnessError("C10: instantiations that are well-formed on the pinned tree no longer compile: %s\n%s" % (
                ", ".join(entry_name(e) for e in broken[:20]), str(ex)[-3000:]))
        raise
    return dict(zip(todo, bins)), enabled, ill, newly


def run(ctx):
    t0 = time.time()
    bins, enabled, ill, newly = build_all(ctx)
    ctx.note("build (probes + %d harness parts): %.0fs" % (len(bins), time.time() - t0))
    thorough = ctx.tier == "thorough"
    nshard = {"ADDSUB": 6, "MUL": 12, "DIV": 12, "MISC": 30} if thorough else {"ADDSUB": 1, "MUL": 2, "DIV": 2, "MISC": 3}
    deadline = int(time.time() + max(30, ctx.time_left() - 90))
    jobs = []

    def mixed_jobs(part, n):
        # parts MIXED (== / != between value types) and MIXC (compound assignment between value types).  They are not queued last:
        # on a loaded machine the jobs at the end of the queue are the ones a deadline cuts, and inside these binaries a cut removes
        # the last operand rows of every variant alike (see run_mixed / run_mixc in harness.cpp), never whole variants
        for k in range(n):
            args = ["--tier", ctx.tier, "--shard", str(k), str(n), "--deadline", str(deadline)]
            jobs.append(lambda a=args, b=bins[("double", part)], tg=tag_of("double", part): ctx.run_harness(b, a, tag=tg))

    # heaviest parts first
    for part in ["MISC", "DIV", "MUL", "ADDSUB"]:
        if part == "MUL":
            mixed_jobs("MIXC", 12 if thorough else 4)
        if part == "ADDSUB":
            mixed_jobs("MIXED", 12 if thorough else 4)
        for t in TYPES:
            n = nshard[part]
            for k in range(n):
                args = ["--tier", ctx.tier, "--shard", str(k), str(n), "--deadline", str(deadline)]
                jobs.append(lambda b=bins[(t, part)], a=args, tg=tag_of(t, part): ctx.run_harness(b, a, tag=tg))
    # part SCALAR: scalars of every arithmetic type, (a, b) in V^2 x the alphabet of the scalar's type
    ns = 4 if thorough else 1
    for part in SPARTS:
        for t in TYPES:
            for k in range(ns):
                args = ["--tier", ctx.tier, "--shard", str(k), str(ns), "--deadline", str(deadline)]
                jobs.append(lambda b=bins[(t, part)], a=args, tg=tag_of(t, part): ctx.run_harness(b, a, tag=tg))
    vlib.parallel(jobs, workers=min(16, vlib.NCPU))
    # deterministic choice of the reported example per signature, whatever order the shards finished in
    ctx.viols.sort(key=lambda v: (v["sig"], v["harness"] or "", v["args"]))
    if ctx.stats.get("oracle_disagreements", 0):
        raise vlib.HarnessError("C10: the Annex G rule table and libstdc++'s std::complex disagree on %d premise-matching operand pairs: %s" % (
            ctx.stats["oracle_disagreements"], [n for n in ctx.notes if n.startswith("ORACLE-DISAGREEMENT")][:5]))
    nv = ctx.maxes.get("alphabet_size", 0)
    weight = lambda e: 1 if e[0] in ("MEQ", "MNE", "MBIN") + MIXC_MACROS else len(TYPES)      # mixed-type entries name their own types
    ctx.stat("instantiations_enabled", sum(weight(e) for e in enabled))
    ctx.stat("instantiations_ill_formed", sum(weight(e) for e in ill))
    if ill:
        # the scalar-type entries are listed once per (form, operation, closure kind, flag) when every scalar type is affected
        names, by_rest = [], {}
        mc = {}
        for e in ill:
            if e[0] in SCALAR_MACROS:
                by_rest.setdefault((e[0], e[1][:-1]), []).append(e[1][-1])
            elif e[0] == "MCMPD":
                # listed once per (operation, closure kinds): the value types and flags do not matter for the cause
                mc.setdefault("MCMPD(%s,<T1>,%s,<b1>,<T2>,%s,<b2>)" % (e[1][0], e[1][2], e[1][5]), []).append(e)
            elif e[0] == "MCS":
                mc.setdefault("MCS(%s,<T1>,KV,<b1>,std::complex<T2>)" % e[1][0], []).append(e)
            else:
                names.append(entry_name(e))
        for k, v in mc.items():
            names.append("%s[x%d]" % (k, len(v)))
        for (m, rest), sts in by_rest.items():
            names.append("%s(%s,%s)" % (m, ",".join(rest), "<all %d scalar types>" % len(STYPES) if len(sts) == len(STYPES) else "{" + "|".join(sts) + "}"))
        ctx.note("%d of %d manifest instantiations (per T) are ill-formed on this tree and have no executions to check "
                 "(operator=, += and -= only compile between identical xcomplex types, so *= and /= on reference closures, "
                 "+ and - with a reference-closure right operand, scalar + and scalar - with a reference closure, unary + on reference closures, and between different value types += and -= and any compound assignment to a reference closure do not compile; "
                 "no compound operator accepts a std::complex right operand): %s" % (
                     len(ill), len(enabled) + len(ill), " ".join(names)))
    for e in newly:
        ctx.note("instantiation %s is ill-formed on the pinned tree but compiles now: explored" % entry_name(e))
    ctx.rule = (
        "component alphabet V (|V| = %d per T in {float,double}: +-0, small integers and 0.5, inexact values 1/3 and -(1+eps), 2^+-BIG, max, min normal%s, +-inf, NaN); "
        "ALL operand pairs (a+bi, c+di) in V^4 are pushed through every enabled instantiation: + - * / as binary operators (3x3 closure kinds {T,T&,const T&} x 2x2 ieee flags), "
        "the four compound forms, complex o scalar / scalar o complex / complex o= scalar (scalar of type T and, for small integral c, int; all (a,b,c) in V^3), operands converted from and back to std::complex, "
        "the aliasing forms of every compound assignment (z op= z, z op= a (const) reference closure over z's own parts, a reference closure op= the value it aliases, two closures over one storage, z op= z.real() / z.imag(); all (a,b) in V^2), "
        "xcomplex and scalar assignment, == and !=, == and != between different value types (all ordered pairs of float/double/int/long double x 3x3 closure kinds, parts from a separate alphabet of values that are exact in the operand's type and in the common type, "
        "including 0.1 and 1/3 in each precision, 2^24+1, 2^53+1), "
        "compound assignment x op= y between xcomplex objects of DIFFERENT value types (part mixc: x over T1 in {float,double} as value or T& closure, y over T2 in {float,double,int,long double} minus T1 as value, T2& or const T2& closure, "
        "2x2 ieee flags, 4 ops; also y converted from a std::complex<T2>, and x op= std::complex<T2> directly; %d instantiations enabled; ALL (a,b) in V(T1)^2 x ALL (c,d) in R^2, R = V(T2) for a floating T2 resp. 0, +-1, 2, 3, -7, 46341, -65536, INT_MAX, INT_MIN for int, "
        "united with the values of V(T1) that T2 holds and with 1.1*2^(W-1), -1.7*2^-(W-1) of T1's well-scaled band rounded to T2, minus the values whose conversion to T1 overflows or underflows to zero; %d operand tuples, %d evaluations; "
        "the result is judged in T1's precision against the exact __float128 result of the exact operand values), "
        "the mixed real/complex forms x op s, s op x, x op= s and x = s with a scalar of EVERY standard arithmetic type (part scalar: %d types - bool, the five character types, signed and unsigned short/int/long/long long, float, double, long double - "
        "x 4 ops x closure kinds x ieee flags; all (a,b) in V^2 x the whole alphabet of the scalar's type: integers 0, 1, 3, 7, the top bit, max and for signed types -1, -2, min%s; floating 0, 1, -2, 0.5, 1.5, 3, -7, 0.1 in the scalar's precision, 2^20, inf%s; "
        "%d scalar values in total per T, %d evaluations), unary - and +, conj/proj/abs/arg/norm and 16 forwarded elementary functions (all (a,b) in V^2), pow in its three forms, and the real()/imag() accessor battery. "
        "Oracles: exact result in __float128 with normwise tolerance 8 eps for finite well-scaled operands (IEEE mode also for divisors of extreme normal magnitude), the six Annex G rules of the statement for ieee_compliant=true, "
        "bit-identity (modulo NaN payload) with the value-closure instantiation and with std::complex for forwarded functions, == decided from the bit patterns, operands/referents after the operation. "
        "evaluations = executions of one instantiation on one operand tuple. distinct_nontrivial = distinct (T, operation, operand form cc/cs/sc, effective ieee flag, operand tuple) combinations - closure kinds NOT counted separately - "
        "that at least one value rule judged and that are non-trivial: for arithmetic both effective operands are not a zero; for ==/!= at least one part compares equal or is NaN; for functions the operand is not a zero; "
        "for assignment/accessors the written value differs from the old one" % (
            nv, ", +-min subnormal, -max, 0.1, -pi, sqrt 2, 12345.678, -1/7, 5/3, the well-scaled limits 2^+-W and 2^(W+1), 2^+-(W/2), 1.1*2^(W-1), -1.7*2^-(W-1), the square overflow/underflow thresholds, 1.3*2^(BIG-3), -1.9*2^-(BIG-3), max/2, 1.5*2^(emax-2), pred(max), -(2+2eps)*min, -3*denorm_min" if thorough else "",
            ctx.stats.get("variants_mixc", 0), ctx.stats.get("mixed_compound_operand_tuples", 0), ctx.stats.get("mixed_compound_evaluations", 0),
            len(STYPES),
            ", 2, 4, 5, 10, 100, 255, 256, top bit +- 1, max - 1, -3, -7, -100, -(top bit), min + 1" if thorough else "",
            ", -0, -1, -0.75, 1/3 in the scalar's precision, -(1+eps), 12345.678, 2^-20, 1e10, 2^24+1, -inf, NaN" if thorough else "",
            ctx.stats.get("scalar_values_double", 0), ctx.stats.get("scalar_type_evaluations", 0)))
    ctx.assumptions += [
        "__float128 (113-bit) complex arithmetic is the exact reference for finite operands; products of two T values are exact in it",
        "well-scaled := every non-zero part has magnitude in [2^-200, 2^200] (double) / [2^-30, 2^30] (float), so no intermediate of the textbook formulas over- or underflows; outside this band the non-IEEE mode is not judged by value",
        "IEEE division by an extreme divisor is judged by value only when the dividend is well-scaled, the divisor's larger part is normal and the exact quotient has magnitude in [2^-1000, 2^1000] (double) / [2^-110, 2^110] (float)",
        "signs of zeros, NaN payloads and results for NaN operands are not judged; an operand with an infinite part counts as an infinity even if the other part is NaN",
        "libstdc++/libgcc std::complex * and / are a second opinion on the rule table (a disagreement aborts the check as a harness error); std::complex functions are the reference for the forwarded elementary functions",
        "only the three closure kinds (T,T), (T&,T&), (const T&,const T&) are instantiated; mixed kinds such as (T&, T) are not; different value types meet in == / != and in the compound assignments (binary arithmetic between them is ill-formed on the pinned tree and probed)",
        "compound assignment between different value types (part mixc): the result has the left operand's value type T1 and 'a few units of rounding' is read in T1's precision (8 eps(T1) normwise); the exact operand values are the reference operands; "
        "a right-operand value is used only if its conversion to T1 stays finite and non-zero when it is finite and non-zero; well-scaled is decided on the converted values with T1's band; *= and /= are judged by the tolerance for every such operand "
        "(rounding the right operand to T1 once perturbs it by eps/2 normwise, which * and / keep inside the tolerance), += and -= (ill-formed on the pinned tree, probed) only when T1 holds the right operand exactly; "
        "after xcomplex<T1>(std::complex<T2>) the converted parts are the operands; left value types are the statement's T in {float,double}: xcomplex<int> and xcomplex<long double> as LEFT operands are not judged",
        "aliased compound assignments are judged by the same value rules with the operand on both sides, and outside the reach of the tolerance rule by equality (up to the sign of zeros) with the binary operator applied to two copies",
        "mixed-type == / != : a part is only used for an operand when it is exactly representable in that operand's type and in the type the built-in comparison converts to, so 'comparing both parts' has a single meaning (int 2^24+1 never meets a float)",
        "scalars of another arithmetic type: the exact value of the scalar (every arithmetic type embeds exactly in x87 long double and in __float128) is the operand of the reference computation; "
        "* and / are judged by the tolerance rule for every scalar whose conversion to T is well-scaled, + and - (and their compound forms) only for scalars that T holds exactly - otherwise the one rounding of the scalar that the property allows "
        "can be magnified without bound by cancellation; x = s must hold exactly (T)s and a zero; a finite scalar whose conversion to T overflows (double 1e300 for float) is not used; half_float scalars (also xtl::is_arithmetic) are not instantiated",
        "harness built with g++ -O1 -ffp-contract=off, AddressSanitizer in recover mode as an additional oracle",
    ]


def replay(ctx, rec):
    bins, _, _, _ = build_all(ctx, which=rec["harness"])
    if not bins:
        raise vlib.HarnessError("C10 replay: unknown harness tag %r" % rec.get("harness"))
    (b,) = bins.values()
    ctx.run_harness(b, rec["args"], tag=rec["harness"])
