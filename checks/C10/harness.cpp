// C10: xcomplex arithmetic — bounded exhaustive enumeration of operand pairs (a+bi, c+di) in V^4 pushed
// through every well-formed instantiation ("variant", see c10_variants.hpp and the generated
// c10_variants.inc), each result judged by oracles that do not share code with the library:
//   * exact complex arithmetic in __float128 (normwise tolerance) for finite, well-scaled operands,
//   * the Annex G rule table of the property statement for ieee_compliant = true,
//   * bit-identity with the value-closure variant of the same operation,
//   * bit-identity with std::complex for the forwarded functions,
//   * the operands / referents after the operation.
// libstdc++'s std::complex * and / are run as a second opinion on the rule table (a disagreement is a
// harness error, not a violation).  See DESIGN.md, subsection C10, and NOTES.md.
//
// Build: -DC10_T=float|double and one of -DC10_PART_ADDSUB / _MUL / _DIV / _MISC / _MIXED / _MIXC / _SCALAR (the latter with
// -DC10_SGROUP=0..2: which third of the scalar types this binary instantiates).  _MIXED: == / != between different value
// types; _MIXC: compound assignment between xcomplex objects of different value types.
#include "c10_variants.hpp"
#include "report.hpp"

#include <algorithm>
#include <cmath>
#include <cstdio>
#include <ctime>
#include <limits>
#include <map>
#include <string>
#include <vector>

#ifndef C10_T
#define C10_T double
#endif

typedef __float128 q128;
using c10::IO;
using c10::same_bits;

// ------------------------------------------------------------------------------------------------------
// per-type constants
template <class T> struct cfg;
template <> struct cfg<double>
{
    static const char* name() { return "double"; }
    enum { W = 200,      // well-scaled: every non-zero part has magnitude in [2^-W, 2^W]
           BIG = 500,    // the "extreme but squares still representable" alphabet entries 2^+-BIG
           QRANGE = 1000 // IEEE division by an extreme divisor is judged when the exact |quotient| is in [2^-QRANGE, 2^QRANGE]
    };
};
template <> struct cfg<float>
{
    static const char* name() { return "float"; }
    enum { W = 30, BIG = 60, QRANGE = 110 };
};

// only used to build the alphabet of long double RIGHT operands of the part MIXC (no result is ever judged in long double)
template <> struct cfg<long double>
{
    static const char* name() { return "long double"; }
    enum { W = 200, BIG = 500, QRANGE = 1000 };
};

template <class T> static bool is_nan(T x) { return x != x; }
template <class T> static bool is_inf(T x) { return x == std::numeric_limits<T>::infinity() || x == -std::numeric_limits<T>::infinity(); }
template <class T> static bool is_fin(T x) { return !is_nan(x) && !is_inf(x); }
template <class T> static bool is_zero(T x) { return x == T(0); }
// bit-for-bit, except that any NaN matches any NaN (sign/payload of NaNs is not part of the property)
template <class T> static bool same_mod_nan(T x, T y) { return (is_nan(x) && is_nan(y)) || same_bits<T>(x, y); }
// IEEE equality decided from the representation, not by the == under test
template <class T> static bool same_value(T x, T y)
{
    if (is_nan(x) || is_nan(y)) return false;
    if (is_zero(x) && is_zero(y)) return true;
    return same_bits<T>(x, y);
}

template <class T> static std::string fmt(T x)
{
    char b[96];
    if (is_nan(x)) return std::signbit(x) ? "-nan" : "nan";
    if (is_inf(x)) return x < 0 ? "-inf" : "inf";
    std::snprintf(b, sizeof b, "%.9g[%a]", double(x), double(x));
    return b;
}
template <class T> static std::string hexs(T x)
{
    char b[64];
    if (is_nan(x)) return std::signbit(x) ? "-nan" : "nan";
    if (is_inf(x)) return x < 0 ? "-inf" : "inf";
    std::snprintf(b, sizeof b, "%a", double(x));
    return b;
}
template <class T> static std::string fmtc(T re, T im) { return "(" + fmt(re) + ", " + fmt(im) + ")"; }
typedef long double ld;
static std::string fmtl(ld x)
{
    char b[96];
    if (x != x) return "nan";
    std::snprintf(b, sizeof b, "%.21Lg", x);
    return b;
}
static std::string hexl(ld x)
{
    char b[96];
    if (x != x) return "nan";
    std::snprintf(b, sizeof b, "%La", x);
    return b;
}

// ------------------------------------------------------------------------------------------------------
// classification used by the statement: infinity := some part infinite (even if the other is NaN),
// NaN := not an infinity and some part NaN, zero := both parts zero
enum { Z_ZERO, Z_FIN, Z_INF, Z_NAN };
template <class T> static int zclass(T re, T im)
{
    if (is_inf(re) || is_inf(im)) return Z_INF;
    if (is_nan(re) || is_nan(im)) return Z_NAN;
    if (is_zero(re) && is_zero(im)) return Z_ZERO;
    return Z_FIN;
}
template <class T> static std::string zclass_name(T re, T im)
{
    switch (zclass(re, im))
    {
    case Z_ZERO: return "zero";
    case Z_FIN: return "fin";
    case Z_NAN: return "nan";
    default:
        if (is_nan(im)) return "inf(inf,nan)";
        if (is_nan(re)) return "inf(nan,inf)";
        return "inf";
    }
}
static const char* zname(int c) { return c == Z_ZERO ? "a zero" : c == Z_FIN ? "non-zero finite" : c == Z_INF ? "an infinity" : "a NaN"; }

// ------------------------------------------------------------------------------------------------------
// variants
enum Cls { C_ARITH, C_ASG, C_ASGS, C_EQ, C_NE, C_FN, C_ACC, C_ACCSTD };
// effective operands: (a,b)o(c,d) | (a,b)o(c,0) | (c,0)o(a,b) | aliasing forms: (a,b)o(a,b) | (a,b)o(a,0) | (a,b)o(b,0)
enum Form { F_CC = 0, F_CS = 1, F_SC = 2, F_AA = 3, F_ASR = 4, F_ASI = 5, F_NFORMS = 6 };
static const char* form_name(int f) { return f == F_CC ? "cc" : f == F_CS ? "cs" : f == F_SC ? "sc" : f == F_AA ? "aa" : f == F_ASR ? "as-real" : "as-imag"; }
static const char* op_names[4] = {"add", "sub", "mul", "div"};
static const char* op_chars[4] = {"+", "-", "*", "/"};

template <class T>
struct Variant
{
    std::string name;      // e.g. mul:bin:R0:V1
    std::string fname;     // function name for C_FN
    Cls cls;
    int op;                // 0..3 for C_ARITH
    int form;
    bool eff;              // effective ieee_compliant of the operation
    int arity;             // 4: all of a,b,c,d matter; 3: a,b,c; 2: a,b
    bool int_scalar;
    int stype;             // part SCALAR: index of the scalar's type in the scalar type table (-1: the scalar has type T or int and comes from V)
    std::string sname;     // part SCALAR: token of the scalar's type
    bool compound;
    bool alias;            // aliasing form: the operands are deliberately the same object / storage
    int k1;                // closure kind of the first operand
    void (*fn)(IO<T>&);
    void (*ref)(IO<T>&);
    int group;             // variants that must agree bit for bit (same operation and flags, any closure kind)
    int base;              // index of the first variant of the group
    int dgroup;            // distinct-case accounting group (operation, not closure kind)
};

static const char* kname(int k) { return k == c10::KV ? "V" : k == c10::KR ? "R" : "C"; }

template <class T>
struct Registry
{
    std::vector<Variant<T> > v;
    std::map<std::string, int> groups, dgroups;
    std::vector<int> group_first;

    void add(Variant<T> x, const std::string& gkey, const std::string& dkey)
    {
        auto it = groups.find(gkey);
        if (it == groups.end())
        {
            int g = int(groups.size());
            groups[gkey] = g;
            group_first.push_back(int(v.size()));
            x.group = g;
        }
        else
            x.group = it->second;
        x.base = group_first[x.group];
        auto dt = dgroups.find(dkey);
        if (dt == dgroups.end()) { int d = int(dgroups.size()); dgroups[dkey] = d; x.dgroup = d; }
        else x.dgroup = dt->second;
        v.push_back(x);
    }

    static int opidx(const std::string& op) { for (int i = 0; i < 4; ++i) if (op == op_names[i]) return i; return -1; }
    static std::string kb(int k, bool b) { return std::string(kname(k)) + (b ? "1" : "0"); }

    Variant<T> blank()
    {
        Variant<T> x;
        x.cls = C_ARITH; x.op = -1; x.form = F_CC; x.eff = false; x.arity = 4; x.int_scalar = false; x.stype = -1; x.compound = false; x.alias = false;
        x.k1 = c10::KV; x.fn = nullptr; x.ref = nullptr; x.group = x.base = x.dgroup = -1;
        return x;
    }

    void arith2(const char* op, const char* sub, bool compound, int k1, bool b1, int k2, bool b2, void (*fn)(IO<T>&))
    {
        Variant<T> x = blank();
        x.name = std::string(op) + ":" + sub + ":" + kb(k1, b1) + ":" + kb(k2, b2);
        x.op = opidx(op); x.eff = b1 || b2; x.compound = compound; x.k1 = k1; x.fn = fn;
        add(x, std::string(op) + ":" + sub + ":" + (b1 ? "1" : "0") + (b2 ? "1" : "0"),
            std::string(op) + ":cc:" + (x.eff ? "ieee" : "naive"));
    }
    void arith1(const char* op, const char* sub, int form, bool compound, bool int_scalar, int k1, bool b1, void (*fn)(IO<T>&))
    {
        Variant<T> x = blank();
        x.name = std::string(op) + ":" + sub + (int_scalar ? "-int" : "") + ":" + kb(k1, b1);
        x.op = opidx(op); x.form = form; x.eff = b1; x.arity = 3; x.compound = compound; x.int_scalar = int_scalar; x.k1 = k1; x.fn = fn;
        add(x, std::string(op) + ":" + sub + (int_scalar ? "-int" : "") + ":" + (b1 ? "1" : "0"),
            std::string(op) + ":" + form_name(form) + ":" + (x.eff ? "ieee" : "naive"));
    }
    // part SCALAR: the scalar has the arithmetic type number `stype` (token `sname`); its values come from that type's own alphabet
    void arith1s(const char* op, const char* sub, int form, bool compound, int stype, const char* sname, int k1, bool b1, void (*fn)(IO<T>&))
    {
        Variant<T> x = blank();
        x.name = std::string(op) + ":" + sub + "." + sname + ":" + kb(k1, b1);
        x.op = opidx(op); x.form = form; x.eff = b1; x.arity = 3; x.compound = compound; x.stype = stype; x.sname = sname; x.k1 = k1; x.fn = fn;
        add(x, std::string(op) + ":" + sub + "." + sname + ":" + (b1 ? "1" : "0"),
            std::string(op) + ":" + form_name(form) + "." + sname + ":" + (x.eff ? "ieee" : "naive"));
    }
    void asgs_s(int stype, const char* sname, int k1, bool b1, void (*fn)(IO<T>&))
    {
        Variant<T> x = blank();
        x.cls = C_ASGS; x.fname = std::string("assign-scalar.") + sname; x.arity = 3; x.stype = stype; x.sname = sname; x.k1 = k1; x.fn = fn;
        x.name = x.fname + ":" + kb(k1, b1);
        add(x, x.fname + ":" + (b1 ? "1" : "0"), x.fname);
    }
    // aliasing forms; group = (operation, flags[, aliased part]); the first member of a group is the binary operator on copies
    void alias(const char* op, const std::string& sub, int form, bool b1, bool b2, int k1, bool is_base, void (*fn)(IO<T>&))
    {
        Variant<T> x = blank();
        x.name = std::string(op) + ":" + sub;
        x.fname = std::string(op) + ":" + sub.substr(0, sub.find(':')) + (form == F_ASR ? ":real" : form == F_ASI ? ":imag" : "");   // family: closure kinds and flags dropped
        x.op = opidx(op); x.form = form; x.eff = b1 || b2; x.arity = 2; x.compound = !is_base; x.alias = true; x.k1 = k1; x.fn = fn;
        add(x, std::string(op) + ":alias:" + form_name(form) + ":" + (b1 ? "1" : "0") + (b2 ? "1" : "0"), std::string(op) + ":" + form_name(form) + ":" + (x.eff ? "ieee" : "naive"));
    }
    void stdform(const char* op, bool b, void (*fn)(IO<T>&))
    {
        Variant<T> x = blank();
        x.name = std::string(op) + ":std:" + (b ? "1" : "0");
        x.op = opidx(op); x.eff = b; x.fn = fn;
        add(x, x.name, std::string(op) + ":cc:" + (x.eff ? "ieee" : "naive"));
    }
    void other2(Cls cls, const char* what, int k1, bool b1, int k2, bool b2, void (*fn)(IO<T>&), void (*ref)(IO<T>&) = nullptr)
    {
        Variant<T> x = blank();
        x.cls = cls; x.fname = what; x.k1 = k1; x.fn = fn; x.ref = ref;
        x.name = std::string(what) + ":" + kb(k1, b1) + ":" + kb(k2, b2);
        add(x, std::string(what) + ":" + (b1 ? "1" : "0") + (b2 ? "1" : "0"), what);
    }
    void other1(Cls cls, const char* what, int arity, int k1, bool b1, void (*fn)(IO<T>&), void (*ref)(IO<T>&) = nullptr)
    {
        Variant<T> x = blank();
        x.cls = cls; x.fname = what; x.arity = arity; x.k1 = k1; x.fn = fn; x.ref = ref;
        x.name = std::string(what) + ":" + kb(k1, b1);
        add(x, std::string(what) + ":" + (b1 ? "1" : "0"), what);
    }
};

// ---- part selection ----------------------------------------------------------------------------------
#if defined(C10_PART_ADDSUB)
#define C10_IF_add(x) x
#define C10_IF_sub(x) x
#define C10_IF_mul(x)
#define C10_IF_div(x)
#define C10_MISC(x)
static const char* part_name = "addsub";
#elif defined(C10_PART_MUL)
#define C10_IF_add(x)
#define C10_IF_sub(x)
#define C10_IF_mul(x) x
#define C10_IF_div(x)
#define C10_MISC(x)
static const char* part_name = "mul";
#elif defined(C10_PART_DIV)
#define C10_IF_add(x)
#define C10_IF_sub(x)
#define C10_IF_mul(x)
#define C10_IF_div(x) x
#define C10_MISC(x)
static const char* part_name = "div";
#elif defined(C10_PART_MIXED) || defined(C10_PART_MIXC)
#define C10_IF_add(x)
#define C10_IF_sub(x)
#define C10_IF_mul(x)
#define C10_IF_div(x)
#define C10_MISC(x)
#if defined(C10_PART_MIXC)
static const char* part_name = "mixc";
#else
static const char* part_name = "mixed";
#endif
#elif defined(C10_PART_SCALAR)
#define C10_IF_add(x)
#define C10_IF_sub(x)
#define C10_IF_mul(x)
#define C10_IF_div(x)
#define C10_MISC(x)
#ifndef C10_SGROUP
#define C10_SGROUP 0
#endif
#define C10_STR2(x) #x
#define C10_STR(x) C10_STR2(x)
static const char* part_name = "scalar" C10_STR(C10_SGROUP);
#else
#define C10_IF_add(x)
#define C10_IF_sub(x)
#define C10_IF_mul(x)
#define C10_IF_div(x)
#define C10_MISC(x) x
static const char* part_name = "misc";
#endif
// mixed value types are registered by their own function (register_mixed); no-ops here
#define MEQ(T1, K1, B1, T2, K2, B2)
#define MNE(T1, K1, B1, T2, K2, B2)
#define MBIN(op, T1, T2)
// compound assignment between different value types is registered by register_mixc
#define MCMPD(op, T1, K1, B1, T2, K2, B2)
#define MCSTD(op, T1, B1, T2)
#define MCS(op, T1, K1, B1, T2)

#define BIN(op, K1, B1, K2, B2) C10_IF_##op(reg.arith2(#op, "bin", false, c10::K1, B1, c10::K2, B2, &c10::v_bin<T, c10::op_##op, c10::K1, B1, c10::K2, B2>);)
#define CMPD(op, K1, B1, K2, B2) C10_IF_##op(reg.arith2(#op, "cmpd", true, c10::K1, B1, c10::K2, B2, &c10::v_cmpd<T, c10::op_##op, c10::K1, B1, c10::K2, B2>);)
#define SRIGHT(op, K1, B1) C10_IF_##op(reg.arith1(#op, "sright", F_CS, false, false, c10::K1, B1, &c10::v_sright<T, c10::op_##op, c10::K1, B1, T>);)
#define SRIGHT_INT(op, K1, B1) C10_IF_##op(reg.arith1(#op, "sright", F_CS, false, true, c10::K1, B1, &c10::v_sright<T, c10::op_##op, c10::K1, B1, int>);)
#define SLEFT(op, K1, B1) C10_IF_##op(reg.arith1(#op, "sleft", F_SC, false, false, c10::K1, B1, &c10::v_sleft<T, c10::op_##op, c10::K1, B1, T>);)
#define SLEFT_INT(op, K1, B1) C10_IF_##op(reg.arith1(#op, "sleft", F_SC, false, true, c10::K1, B1, &c10::v_sleft<T, c10::op_##op, c10::K1, B1, int>);)
#define CMPDS(op, K1, B1) C10_IF_##op(reg.arith1(#op, "cmpds", F_CS, true, false, c10::K1, B1, &c10::v_cmpds<T, c10::op_##op, c10::K1, B1, T>);)
#define CMPDS_INT(op, K1, B1) C10_IF_##op(reg.arith1(#op, "cmpds", F_CS, true, true, c10::K1, B1, &c10::v_cmpds<T, c10::op_##op, c10::K1, B1, int>);)
#define C10_B(b) (b ? "1" : "0")
#define ALIAS_BASE(op, B1, B2) C10_IF_##op(reg.alias(#op, std::string("alias-copies:V") + C10_B(B1) + ":V" + C10_B(B2), F_AA, B1, B2, c10::KV, true, &c10::v_alias_base<T, c10::op_##op, B1, B2>);)
#define ALIAS_SELF(op, K1, B1) C10_IF_##op(reg.alias(#op, std::string("alias-self:") + kname(c10::K1) + C10_B(B1), F_AA, B1, B1, c10::K1, false, &c10::v_alias_self<T, c10::op_##op, c10::K1, B1>);)
#define ALIAS_RHSREF(op, B1, K2, B2) C10_IF_##op(reg.alias(#op, std::string("alias-rhs-closure-over-lhs:V") + C10_B(B1) + ":" + kname(c10::K2) + C10_B(B2), F_AA, B1, B2, c10::KV, false, &c10::v_alias_rhsref<T, c10::op_##op, B1, c10::K2, B2>);)
#define ALIAS_LHSREF(op, B1, B2) C10_IF_##op(reg.alias(#op, std::string("alias-lhs-closure-over-rhs:R") + C10_B(B1) + ":V" + C10_B(B2), F_AA, B1, B2, c10::KV, false, &c10::v_alias_lhsref<T, c10::op_##op, B1, B2>);)
#define ALIAS_REF2(op, B1, K2, B2) C10_IF_##op(reg.alias(#op, std::string("alias-two-closures:R") + C10_B(B1) + ":" + kname(c10::K2) + C10_B(B2), F_AA, B1, B2, c10::KR, false, &c10::v_alias_ref2<T, c10::op_##op, B1, c10::K2, B2>);)
#define ALIAS_SBASE(op, B1, PART) C10_IF_##op(reg.alias(#op, std::string("alias-scalar-copy:V") + C10_B(B1) + (PART ? ":imag" : ":real"), PART ? F_ASI : F_ASR, B1, B1, c10::KV, true, &c10::v_alias_sbase<T, c10::op_##op, B1, PART>);)
#define ALIAS_SPART(op, K1, B1, PART) C10_IF_##op(reg.alias(#op, std::string("alias-scalar-part:") + kname(c10::K1) + C10_B(B1) + (PART ? ":imag" : ":real"), PART ? F_ASI : F_ASR, B1, B1, c10::K1, false, &c10::v_alias_spart<T, c10::op_##op, c10::K1, B1, PART>);)
#define STDF(op, B1) C10_IF_##op(reg.stdform(#op, B1, &c10::v_std<T, c10::op_##op, B1>);)
#define ASG(K1, B1, K2, B2) C10_MISC(reg.other2(C_ASG, "assign", c10::K1, B1, c10::K2, B2, &c10::v_asg<T, c10::K1, B1, c10::K2, B2>);)
#define ASGS(K1, B1) C10_MISC(reg.other1(C_ASGS, "assign-scalar", 3, c10::K1, B1, &c10::v_asgs<T, c10::K1, B1>);)
#define EQ(K1, B1, K2, B2) C10_MISC(reg.other2(C_EQ, "operator==", c10::K1, B1, c10::K2, B2, &c10::v_eq<T, c10::K1, B1, c10::K2, B2>);)
#define NE(K1, B1, K2, B2) C10_MISC(reg.other2(C_NE, "operator!=", c10::K1, B1, c10::K2, B2, &c10::v_ne<T, c10::K1, B1, c10::K2, B2>);)
#define FN1(f, K1, B1) C10_MISC(reg.other1(C_FN, #f, 2, c10::K1, B1, &c10::v_fn1<T, c10::f_##f, c10::K1, B1>, &c10::r_fn1<T, c10::f_##f>);)
#define POWCC(K1, B1, K2, B2) C10_MISC(reg.other2(C_FN, "pow", c10::K1, B1, c10::K2, B2, &c10::v_powcc<T, c10::K1, B1, c10::K2, B2>, &c10::r_powcc<T>);)
#define POWCS(K1, B1) C10_MISC(reg.other1(C_FN, "pow-cs", 3, c10::K1, B1, &c10::v_powcs<T, c10::K1, B1>, &c10::r_powcs<T>);)
#define POWSC(K1, B1) C10_MISC(reg.other1(C_FN, "pow-sc", 3, c10::K1, B1, &c10::v_powsc<T, c10::K1, B1>, &c10::r_powsc<T>);)
#define ACC(K1, B1) C10_MISC(reg.other1(C_ACC, "accessors", 4, c10::K1, B1, &c10::v_acc<T, c10::K1, B1>);)
#define ACCSTD() C10_MISC(reg.other1(C_ACCSTD, "accessors-std", 4, c10::KV, false, &c10::v_accstd<T>);)

// ---- part SCALAR: the scalar operand of the mixed real/complex forms has any standard arithmetic type ----------------
// (token, C++ spelling); the order is the index used by check.py to split the types over the C10_SGROUP binaries (index % 3)
#define C10_STYPES(X)                                                                                              \
    X(bool, "bool") X(char, "char") X(schar, "signed char") X(uchar, "unsigned char") X(wchar, "wchar_t")          \
    X(char16, "char16_t") X(char32, "char32_t") X(short, "short") X(ushort, "unsigned short") X(int, "int")        \
    X(uint, "unsigned") X(long, "long") X(ulong, "unsigned long") X(llong, "long long")                            \
    X(ullong, "unsigned long long") X(float, "float") X(double, "double") X(ldouble, "long double")

// the scalar alphabet of one type, as exact values (every arithmetic type embeds exactly in x87 long double)
template <class S>
static std::vector<ld> scalar_alphabet(bool thorough)
{
    typedef std::numeric_limits<S> L;
    std::vector<ld> c;
    if (L::is_integer)
    {
        const ld mx = ld(L::max()), mn = ld(L::min());
        const ld hi = std::floor(mx / 2) + 1;          // the top bit of an unsigned type, the top value bit of a signed one
        const ld q[] = {0, 1, 3, 7, hi, mx, -1, -2, mn};
        const ld t[] = {2, 4, 5, 10, 100, 255, 256, hi - 1, hi + 1, mx - 1, -3, -7, -100, -hi, mn + 1};
        c.assign(q, q + sizeof q / sizeof q[0]);
        if (thorough) c.insert(c.end(), t, t + sizeof t / sizeof t[0]);
        std::vector<ld> r;
        for (ld v : c)
            if (v >= mn && v <= mx && std::find(r.begin(), r.end(), v) == r.end()) r.push_back(v);
        return r;
    }
    const ld inf = std::numeric_limits<ld>::infinity();
    // 0.1, 1/3 and 12345.678 are taken in the precision of S, so that they are values of S but (for a wider S) not of T
    const ld q[] = {0, 1, -2, ld(0.5), ld(1.5), 3, -7, ld(S(0.1L)), ld(1048576), inf};
    const ld t[] = {-ld(0), -1, ld(-0.75), ld(S(1) / S(3)), -(ld(1) + ld(L::epsilon())), ld(S(12345.678L)), ld(1) / 1048576, ld(1e10), ld(16777217), -inf, std::numeric_limits<ld>::quiet_NaN()};
    c.assign(q, q + sizeof q / sizeof q[0]);
    if (thorough) c.insert(c.end(), t, t + sizeof t / sizeof t[0]);
    std::vector<ld> r;
    for (ld v : c)
    {
        v = ld(static_cast<S>(v));      // a value of S, whatever the literal above was
        bool dup = false;
        for (ld w : r) if (std::memcmp(&w, &v, 10) == 0) dup = true;
        if (!dup) r.push_back(v);
    }
    return r;
}
template <class T, class S> static T scalar_conv(ld sx) { return static_cast<T>(static_cast<S>(sx)); }

template <class T>
struct SType
{
    const char* tok;
    const char* cname;
    std::vector<ld> (*alpha)(bool);
    T (*conv)(ld);      // the value the scalar has after conversion to T
};
template <class T>
static const std::vector<SType<T> >& stypes()
{
    static std::vector<SType<T> > v;
    if (v.empty())
    {
#define C10_X(tok, cname) { SType<T> s = {#tok, cname, &scalar_alphabet<c10::sc_##tok>, &scalar_conv<T, c10::sc_##tok>}; v.push_back(s); }
        C10_STYPES(C10_X)
#undef C10_X
    }
    return v;
}
template <class T> static int stype_index(const char* tok)
{
    const std::vector<SType<T> >& v = stypes<T>();
    for (size_t i = 0; i < v.size(); ++i) if (std::string(v[i].tok) == tok) return int(i);
    return -1;
}
#define XSRIGHT(op, K1, B1, S) reg.arith1s(#op, "sright", F_CS, false, stype_index<T>(#S), #S, c10::K1, B1, &c10::v_sright<T, c10::op_##op, c10::K1, B1, c10::sc_##S>);
#define XSLEFT(op, K1, B1, S) reg.arith1s(#op, "sleft", F_SC, false, stype_index<T>(#S), #S, c10::K1, B1, &c10::v_sleft<T, c10::op_##op, c10::K1, B1, c10::sc_##S>);
#define XCMPDS(op, K1, B1, S) reg.arith1s(#op, "cmpds", F_CS, true, stype_index<T>(#S), #S, c10::K1, B1, &c10::v_cmpds<T, c10::op_##op, c10::K1, B1, c10::sc_##S>);
#define XASGS(K1, B1, S) reg.asgs_s(stype_index<T>(#S), #S, c10::K1, B1, &c10::v_asgs<T, c10::K1, B1, c10::sc_##S>);

template <class T>
static void register_all(Registry<T>& reg)
{
    (void)reg;
#if !defined(C10_PART_SCALAR)
#include "c10_variants.inc"
#elif C10_SGROUP == 0
#include "c10_scalar_0.inc"
#elif C10_SGROUP == 1
#include "c10_scalar_1.inc"
#else
#include "c10_scalar_2.inc"
#endif
}

static const char* acc_names[13] = {
    "member-real-imag-lvalue", "member-real-imag-const", "member-real-imag-rvalue", "free-real-imag-lvalue", "free-real-imag-const",
    "free-real-imag-rvalue", "aliasing-of-closure", "free-functions-return-the-members", "write-through-member-real", "write-through-free-imag",
    "referents-after-write", "conversion-to-std-complex", "conversion-to-value-closure"};
static const char* accstd_names[8] = {
    "std-complex-lvalue-address", "std-complex-const-address", "std-complex-const-value", "std-complex-rvalue-value",
    "write-through-real", "write-through-imag", "scalar-real", "scalar-imag-is-zero"};

// ------------------------------------------------------------------------------------------------------
// oracle for one effective operand pair
enum { E_NONE, E_INF, E_ZERO, E_NOTNAN };
struct PerOp
{
    bool tol_any;      // judged by tolerance in both modes (finite, well-scaled operands)
    bool tol_ieee;     // judged by tolerance in IEEE mode only (well-scaled dividend, extreme normal divisor, quotient in range)
    q128 er, ei, n2;   // exact result and its squared norm
    int expect;        // Annex G expectation for ieee_compliant = true
    const char* rule;
};
template <class T>
struct Oracle
{
    bool valid;
    T p[2], q[2];
    int pc, qc;
    PerOp op[4];
};

static q128 q_pow2(int e) { q128 r = 1; q128 f = e < 0 ? q128(0.5) : q128(2); for (int i = 0; i < (e < 0 ? -e : e); ++i) r *= f; return r; }
static q128 q_abs(q128 x) { return x < 0 ? -x : x; }

template <class T> static bool part_ws(T x)
{
    if (!is_fin(x)) return false;
    if (is_zero(x)) return true;
    static const T lo = std::ldexp(T(1), -int(cfg<T>::W)), hi = std::ldexp(T(1), int(cfg<T>::W));
    T m = std::fabs(x);
    return m >= lo && m <= hi;
}

static long long g_disagree = 0, g_libnan = 0, g_second_opinions = 0;

// xa / xc (/ xd: imaginary part of the second operand, part MIXC): the exact value of the real part of the first / second operand when it is a scalar of another type whose value T
// cannot hold (a and c are then that value after conversion to T; classification and the well-scaled test use the converted value)
template <class T>
static void make_oracle(Oracle<T>& o, T a, T b, T c, T d, const q128* xa = nullptr, const q128* xc = nullptr, const q128* xd = nullptr)
{
    o.valid = true;
    o.p[0] = a; o.p[1] = b; o.q[0] = c; o.q[1] = d;
    o.pc = zclass(a, b); o.qc = zclass(c, d);
    const bool pfin = o.pc <= Z_FIN, qfin = o.qc <= Z_FIN;
    const bool ws = part_ws(a) && part_ws(b) && part_ws(c) && part_ws(d);
    for (int k = 0; k < 4; ++k) { o.op[k].tol_any = o.op[k].tol_ieee = false; o.op[k].expect = E_NONE; o.op[k].rule = ""; o.op[k].er = o.op[k].ei = o.op[k].n2 = 0; }
    if (pfin && qfin)
    {
        q128 A = xa ? *xa : q128(a), B = b, C = xc ? *xc : q128(c), D = xd ? *xd : q128(d);
        o.op[0].er = A + C; o.op[0].ei = B + D;
        o.op[1].er = A - C; o.op[1].ei = B - D;
        o.op[2].er = A * C - B * D; o.op[2].ei = A * D + B * C;
        o.op[0].tol_any = o.op[1].tol_any = o.op[2].tol_any = ws;
        if (o.qc != Z_ZERO)
        {
            q128 e = C * C + D * D;
            o.op[3].er = (A * C + B * D) / e; o.op[3].ei = (B * C - A * D) / e;
            o.op[3].tol_any = ws;
        }
        for (int k = 0; k < 4; ++k) o.op[k].n2 = o.op[k].er * o.op[k].er + o.op[k].ei * o.op[k].ei;
        // division by a divisor of extreme but normal magnitude (IEEE mode only)
        if (!ws && o.qc == Z_FIN && part_ws(a) && part_ws(b))
        {
            T m = std::fmax(std::fabs(c), std::fabs(d));
            static const q128 lo2 = q_pow2(-2 * int(cfg<T>::QRANGE)), hi2 = q_pow2(2 * int(cfg<T>::QRANGE));
            if (m >= std::numeric_limits<T>::min() && (o.pc == Z_ZERO || (o.op[3].n2 >= lo2 && o.op[3].n2 <= hi2)))
                o.op[3].tol_ieee = true;
        }
    }
    // Annex G rule table, exactly the six rules of the statement
    const int pc = o.pc, qc = o.qc;
    if ((pc == Z_INF && (qc == Z_FIN || qc == Z_INF)) || (qc == Z_INF && (pc == Z_FIN || pc == Z_INF)))
    { o.op[2].expect = E_INF; o.op[2].rule = "an infinity times a non-zero finite value or an infinity is an infinity"; }
    else if (pfin && qfin)
    { o.op[2].expect = E_NOTNAN; o.op[2].rule = "finite operands never yield a NaN"; }
    if (pc == Z_INF && qfin)
    { o.op[3].expect = E_INF; o.op[3].rule = "an infinity divided by a finite value is an infinity"; }
    else if (pfin && qc == Z_INF)
    { o.op[3].expect = E_ZERO; o.op[3].rule = "a finite value divided by an infinity is a zero"; }
    else if (pc == Z_FIN && qc == Z_ZERO)
    { o.op[3].expect = E_INF; o.op[3].rule = "a non-zero finite value divided by a zero is an infinity"; }
    else if (pfin && qfin && !(pc == Z_ZERO && qc == Z_ZERO))
    { o.op[3].expect = E_NOTNAN; o.op[3].rule = "finite operands never yield a NaN except 0/0"; }
    if (pfin && qfin)
    {
        o.op[0].expect = o.op[1].expect = E_NOTNAN;
        o.op[0].rule = o.op[1].rule = "finite operands never yield a NaN";
    }
    // second opinion on the rule table: libstdc++ / libgcc implement Annex G for std::complex
    // (consulted only when every finite operand part is zero or well-scaled: with huge finite parts libgcc's own
    //  recovery code overflows - e.g. float (MAX,MAX)/(inf,inf) = (NaN,0) - and is no authority; the rule table does
    //  not depend on the magnitude of finite parts, so every pattern of special parts is still cross-checked)
    const bool consult = (!is_fin(a) || part_ws(a)) && (!is_fin(b) || part_ws(b)) && (!is_fin(c) || part_ws(c)) && (!is_fin(d) || part_ws(d));
    for (int k = 2; k < 4 && consult; ++k)
    {
        if (o.op[k].expect == E_NONE) continue;
        ++g_second_opinions;
        std::complex<T> r = k == 2 ? std::complex<T>(a, b) * std::complex<T>(c, d) : std::complex<T>(a, b) / std::complex<T>(c, d);
        int rc = zclass(r.real(), r.imag());
        bool agree = o.op[k].expect == E_INF ? rc == Z_INF : o.op[k].expect == E_ZERO ? rc == Z_ZERO : rc != Z_NAN;
        if (!agree && o.op[k].expect == E_NOTNAN)
        {
            // libgcc's __divdc3 returns NaN+iNaN for some finite quotients that overflow; informational only
            if (g_libnan++ == 0)
                vf::note(std::string("libstdc++ std::complex<") + cfg<T>::name() + "> itself yields a NaN from finite operands (not an error of xtl, not judged): " + fmtc(a, b) + " " +
                         op_chars[k] + " " + fmtc(c, d) + " = " + fmtc(r.real(), r.imag()));
        }
        else if (!agree)
        {
            if (g_disagree++ < 5)
                vf::note(std::string("ORACLE-DISAGREEMENT ") + cfg<T>::name() + ": rule '" + o.op[k].rule + "' vs libstdc++ std::complex: " + fmtc(a, b) + " " +
                         op_chars[k] + " " + fmtc(c, d) + " = " + fmtc(r.real(), r.imag()));
        }
    }
}

// ------------------------------------------------------------------------------------------------------
static std::string g_only;     // --one: report for this variant only
static bool g_verbose = false;
static long long g_eval = 0, g_judged = 0, g_distinct = 0;
static bool g_last_tol = false;   // the tolerance rule judged the last arithmetic evaluation
static long long g_alias_judged = 0, g_scalar_eval = 0, g_scalar_judged = 0;
static long long g_tol_checks = 0, g_rule_checks = 0, g_vs_value = 0, g_vs_std = 0;

template <class T>
static std::vector<std::string> replay_args(const Variant<T>& v, const IO<T>& io)
{
    if (v.stype >= 0) return {"--one", v.name, hexs(io.in[0]), hexs(io.in[1]), hexl(io.sx), "0"};     // the scalar as an exact long double
    return {"--one", v.name, hexs(io.in[0]), hexs(io.in[1]), hexs(io.in[2]), hexs(io.in[3])};
}

template <class T>
static void report(const Variant<T>& v, const IO<T>& io, const std::string& sig, const std::string& msg)
{
    if (!g_only.empty() && v.name != g_only) return;
    vf::violation(sig, msg, replay_args(v, io));
}

template <class T>
static std::string describe(const Variant<T>& v, const IO<T>& io)
{
    std::string s = v.name + "<" + cfg<T>::name() + "> on ";
    if (v.arity == 2) s += fmtc(io.in[0], io.in[1]);
    else if (v.arity == 3 && v.stype >= 0) s += fmtc(io.in[0], io.in[1]) + " and " + stypes<T>()[v.stype].cname + " scalar " + fmtl(io.sx) + " (as " + cfg<T>::name() + ": " + fmt(io.in[2]) + ")";
    else if (v.arity == 3) s += fmtc(io.in[0], io.in[1]) + " and scalar " + fmt(io.in[2]);
    else s += fmtc(io.in[0], io.in[1]) + " and " + fmtc(io.in[2], io.in[3]);
    s += " -> " + fmtc(io.out[0], io.out[1]);
    return s;
}

// operands and referents after the operation
template <class T>
static void check_after(const Variant<T>& v, const IO<T>& io)
{
    auto inst = [&]() { return "C10/" + v.name + "<" + cfg<T>::name() + ">/operands-after/"; };
    if (io.flags & c10::F_RETREF)
        report(v, io, inst() + "return-is-not-self", describe(v, io) + ": the compound operator did not return a reference to its left operand");
    bool lhs_written = v.compound || v.cls == C_ASG || v.cls == C_ASGS;
    for (int i = 0; i < 4; ++i)
    {
        bool lhs = i < 2;
        if (lhs && lhs_written)
        {
            // the stored referent must hold the result for a reference closure, and be untouched for a value closure
            T want = v.k1 == c10::KR ? io.out[i] : io.in[i];
            if (!same_mod_nan(io.stor[i], want))
                report(v, io, inst() + (v.k1 == c10::KR ? "referent-not-updated" : "storage-of-value-closure-written"),
                       describe(v, io) + ": storage of the left operand's " + (i ? "imaginary" : "real") + " part holds " + fmt(io.stor[i]) + ", expected " + fmt(want));
            continue;
        }
        if (!same_mod_nan(io.post[i], io.in[i]) || !same_mod_nan(io.stor[i], io.in[i]))
            report(v, io, inst() + "operand-modified",
                   describe(v, io) + ": " + (lhs ? "left" : "right") + " operand's " + ((i & 1) ? "imaginary" : "real") + " part reads " + fmt(io.post[i]) + " (storage " +
                       fmt(io.stor[i]) + ") after the operation, was " + fmt(io.in[i]));
    }
}

// returns true when at least one value-level rule judged this evaluation.  fam() -> signature prefix, what() -> description,
// rep(sig, msg) reports; op 0..3, eff = effective ieee_compliant, out = the two result parts
template <class T, class Fam, class What, class Rep>
static bool judge_core(int op, bool eff, const T out[2], const Oracle<T>& o, Fam fam, What what, Rep rep)
{
    const PerOp& r = o.op[op];
    bool judged = false;
    g_last_tol = false;
    if (r.tol_any || (eff && r.tol_ieee))
    {
        judged = true;
        g_last_tol = true;
        ++g_tol_checks;
        const T eps = std::numeric_limits<T>::epsilon();
        if (!is_fin(out[0]) || !is_fin(out[1]))
            rep(fam() + "nonfinite-result", what() + ": exact result is (" + fmt(T(r.er)) + ", " + fmt(T(r.ei)) + ")");
        else
        {
            q128 dr = q128(out[0]) - r.er, di = q128(out[1]) - r.ei;
            q128 tol = q128(8) * q128(eps);
            bool bad = dr * dr + di * di > tol * tol * r.n2;
            if (!bad && op < 2)   // + and - are componentwise: each part within 4 eps of its exact value
                bad = q_abs(dr) > q128(4) * q128(eps) * q_abs(r.er) || q_abs(di) > q128(4) * q128(eps) * q_abs(r.ei);
            if (bad)
                rep(fam() + "inexact", what() + ": exact result is (" + fmt(T(r.er)) + ", " + fmt(T(r.ei)) + "), error exceeds 8 eps |z| (4 eps per part for + and -)");
        }
    }
    if (eff && r.expect != E_NONE)
    {
        judged = true;
        ++g_rule_checks;
        int rc = zclass(out[0], out[1]);
        if (r.expect == E_INF && rc != Z_INF)
            rep(fam() + "expected-infinity", what() + ": result is " + zname(rc) + "; Annex G: " + r.rule);
        else if (r.expect == E_ZERO && rc != Z_ZERO)
            rep(fam() + "expected-zero", what() + ": result is " + zname(rc) + "; Annex G: " + r.rule);
        else if (r.expect == E_NOTNAN && rc == Z_NAN)
            rep(fam() + "nan-from-finite", what() + ": result is a NaN; Annex G: " + r.rule);
    }
    return judged;
}

template <class T>
static bool judge_arith(const Variant<T>& v, const IO<T>& io, const Oracle<T>& o)
{
    // strings are only built when something is wrong
    auto fam = [&]() {
        return std::string("C10/") + op_names[v.op] + (v.eff ? ".ieee<" : ".naive<") + cfg<T>::name() + ">/" + form_name(v.form) + (v.stype >= 0 ? "." + v.sname : std::string()) + "/" +
               zclass_name(o.p[0], o.p[1]) + op_chars[v.op] + zclass_name(o.q[0], o.q[1]) + "/";
    };
    auto what = [&]() {
        return describe(v, io) + " [effective operands " + fmtc(o.p[0], o.p[1]) + " " + op_chars[v.op] + " " + fmtc(o.q[0], o.q[1]) +
               ", ieee_compliant=" + (v.eff ? "true" : "false") + "]";
    };
    return judge_core<T>(v.op, v.eff, io.out, o, fam, what, [&](const std::string& sig, const std::string& msg) { report(v, io, sig, msg); });
}

template <class T>
struct PairRunner
{
    Registry<T>& reg;
    std::vector<T> bout;          // base results per group
    std::vector<char> bvalid;
    std::vector<char> dseen;
    Oracle<T> orc[F_NFORMS];
    long long samples_ieee, samples_tol;
    // part SCALAR: in[2] is the scalar after conversion to T, sx its exact value, sx_exact := the conversion changed nothing
    bool scalar_mode;
    ld sx;
    bool sx_exact;

    explicit PairRunner(Registry<T>& r) : reg(r), bout(2 * r.groups.size()), bvalid(r.groups.size()), dseen(r.dgroups.size()), samples_ieee(0), samples_tol(0), scalar_mode(false), sx(0), sx_exact(true) {}

    // force: ignore the arity conventions (replay of one case); subset: run only these variants (indices into reg.v)
    void run(const T in[4], bool lead3, bool lead2, bool force, const std::vector<int>* subset = nullptr)
    {
        std::fill(bvalid.begin(), bvalid.end(), 0);
        std::fill(dseen.begin(), dseen.end(), 0);
        for (int f = 0; f < F_NFORMS; ++f) orc[f].valid = false;
        const T a = in[0], b = in[1], c = in[2], d = in[3];
        const size_t nrun = subset ? subset->size() : reg.v.size();
        for (size_t si = 0; si < nrun; ++si)
        {
            const size_t vi = subset ? size_t((*subset)[si]) : si;
            const Variant<T>& v = reg.v[vi];
            if (!force)
            {
                if (v.arity == 3 && !lead3) continue;
                if (v.arity == 2 && !lead2) continue;
            }
            if (v.int_scalar)
            {
                if (!is_fin(c) || std::fabs(c) > T(7) || c != std::floor(c) || (is_zero(c) && std::signbit(c))) continue;
            }
            IO<T> io;
            for (int i = 0; i < 4; ++i) { io.in[i] = in[i]; io.post[i] = io.stor[i] = T(0); }
            io.out[0] = io.out[1] = T(0);
            io.flags = 0;
            io.sx = scalar_mode ? sx : ld(in[2]);
            v.fn(io);
            ++g_eval;
            if (scalar_mode) ++g_scalar_eval;
            if (vf::take_asan())
                report(v, io, "C10/" + v.name + "<" + cfg<T>::name() + ">/memory/asan-report", describe(v, io) + ": AddressSanitizer reported an error during this operation (see stderr)");
            bool judged = false, nontrivial = false;
            switch (v.cls)
            {
            case C_ARITH:
            {
                Oracle<T>& o = orc[v.form];
                if (!o.valid)
                {
                    q128 xs = scalar_mode && sx == sx && !is_inf(sx) ? q128(sx) : q128(c);
                    if (v.form == F_CC) make_oracle<T>(o, a, b, c, d);
                    else if (scalar_mode && v.form == F_CS) make_oracle<T>(o, a, b, c, T(0), nullptr, &xs);
                    else if (scalar_mode && v.form == F_SC) make_oracle<T>(o, c, T(0), a, b, &xs, nullptr);
                    else if (v.form == F_CS) make_oracle<T>(o, a, b, c, T(0));
                    else if (v.form == F_AA) make_oracle<T>(o, a, b, a, b);
                    else if (v.form == F_ASR) make_oracle<T>(o, a, b, a, T(0));
                    else if (v.form == F_ASI) make_oracle<T>(o, a, b, b, T(0));
                    else make_oracle<T>(o, c, T(0), a, b);
                    // a scalar that T cannot hold exactly: the conversion the library has to perform somewhere is a rounding the
                    // property allows, and cancellation in + and - can magnify it without bound; * and / keep it within the tolerance
                    if (scalar_mode && !sx_exact) o.op[0].tol_any = o.op[1].tol_any = false;
                }
                judged = judge_arith<T>(v, io, o);
                nontrivial = o.pc != Z_ZERO && o.qc != Z_ZERO;
                // two written-out cases per process: one Annex G case with a special operand, one inexact finite case
                if (judged && v.eff && o.op[v.op].expect != E_NONE && (o.pc >= Z_INF || o.qc >= Z_INF) && nontrivial && samples_ieee++ == 4321)
                    vf::sample(describe(v, io) + " [Annex G: " + o.op[v.op].rule + "]", 2);
                else if (judged && nontrivial && (o.op[v.op].tol_any || (v.eff && o.op[v.op].tol_ieee)) && !same_bits<T>(T(o.op[v.op].er), io.out[0]) && samples_tol++ == 1234)
                    vf::sample(describe(v, io) + " [exact " + fmtc(T(o.op[v.op].er), T(o.op[v.op].ei)) + ", within 8 eps]", 2);
                break;
            }
            case C_ASG:
                judged = true;
                nontrivial = !same_bits<T>(a, c) || !same_bits<T>(b, d);
                if (!same_mod_nan(io.out[0], c) || !same_mod_nan(io.out[1], d))
                    report(v, io, "C10/" + v.name + "<" + cfg<T>::name() + ">/assign/wrong-value", describe(v, io) + ": after x = y, x must hold " + fmtc(c, d));
                break;
            case C_ASGS:
                judged = true;
                nontrivial = !same_bits<T>(a, c) || !is_zero(b);
                if (!same_mod_nan(io.out[0], c) || !is_zero(io.out[1]))
                    report(v, io, "C10/" + v.name + "<" + cfg<T>::name() + ">/assign/wrong-value", describe(v, io) + ": after x = s, x must hold (" + fmt(c) + ", 0)");
                break;
            case C_EQ:
            case C_NE:
            {
                judged = true;
                bool er = same_value(a, c), ei = same_value(b, d);
                bool anynan = is_nan(a) || is_nan(b) || is_nan(c) || is_nan(d);
                nontrivial = er || ei || anynan;
                bool expect = (er && ei) == (v.cls == C_EQ);
                bool got = io.out[0] != T(0);
                if (nontrivial && er != ei && samples_ieee++ == 20000)
                    vf::sample(v.name + "<" + cfg<T>::name() + ">: " + fmtc(a, b) + (v.cls == C_EQ ? " == " : " != ") + fmtc(c, d) + " -> " + (got ? "true" : "false"), 2);
                if (got != expect)
                {
                    const char* icls = anynan ? "nan-part" : (er && ei) ? "equal" : er ? "imag-differs" : ei ? "real-differs" : "both-differ";
                    report(v, io, std::string("C10/") + v.fname + "<" + cfg<T>::name() + ">/" + icls + "/wrong-answer",
                           v.name + "<" + cfg<T>::name() + ">: " + fmtc(a, b) + (v.cls == C_EQ ? " == " : " != ") + fmtc(c, d) + " returned " + (got ? "true" : "false") +
                               ", comparing both parts gives " + (expect ? "true" : "false"));
                }
                break;
            }
            case C_FN:
            {
                judged = true;
                ++g_vs_std;
                nontrivial = zclass(a, b) != Z_ZERO;
                IO<T> rf;
                for (int i = 0; i < 4; ++i) rf.in[i] = in[i];
                rf.out[0] = rf.out[1] = T(0);
                rf.flags = 0;
                v.ref(rf);
                if (nontrivial && v.k1 != c10::KV && samples_tol++ == 5000)
                    vf::sample(describe(v, io) + " [std::complex gives " + fmtc(rf.out[0], rf.out[1]) + "]", 2);
                if (!same_mod_nan(io.out[0], rf.out[0]) || !same_mod_nan(io.out[1], rf.out[1]))
                    report(v, io, std::string("C10/") + v.fname + "<" + cfg<T>::name() + ">/" + v.name + "/differs-from-std-complex",
                           describe(v, io) + ": std::complex gives " + fmtc(rf.out[0], rf.out[1]));
                break;
            }
            case C_ACC:
            case C_ACCSTD:
            {
                judged = true;
                nontrivial = !same_bits<T>(a, c) || !same_bits<T>(b, d);
                for (int n = 0; n < 13; ++n)
                    if (io.flags & (c10::F_ACC_BASE << n))
                    {
                        const char* nm = v.cls == C_ACC ? acc_names[n] : (n < 8 ? accstd_names[n] : "?");
                        report(v, io, "C10/" + v.name + "<" + cfg<T>::name() + ">/real-imag/" + nm, describe(v, io) + ": accessor sub-check '" + nm + "' failed");
                    }
                if (v.cls == C_ACC && v.k1 != c10::KC && (!same_mod_nan(io.out[0], c) || !same_mod_nan(io.out[1], d)))
                    report(v, io, "C10/" + v.name + "<" + cfg<T>::name() + ">/real-imag/final-value", describe(v, io) + ": after writing through real()/imag() expected " + fmtc(c, d));
                break;
            }
            }
            // the same operation through any closure kind must give the value closure's bits
            if (int(vi) == v.base)
            {
                bout[2 * v.group] = io.out[0]; bout[2 * v.group + 1] = io.out[1]; bvalid[v.group] = 1;
            }
            else if (bvalid[v.group] && v.alias)
            {
                // aliased compound assignment vs the binary operator on copies.  Where the tolerance rule has judged the value that
                // is all the property promises; elsewhere (special / extreme operands) the two must agree up to the sign of zeros.
                if (!g_last_tol)
                {
                    ++g_vs_value;
                    const T b0 = bout[2 * v.group], b1 = bout[2 * v.group + 1];
                    bool ok0 = same_mod_nan(io.out[0], b0) || same_value(io.out[0], b0), ok1 = same_mod_nan(io.out[1], b1) || same_value(io.out[1], b1);
                    if (!ok0 || !ok1)
                        report(v, io, "C10/" + v.fname + "<" + cfg<T>::name() + ">/vs-binary-operator-on-copies/result-differs",
                               describe(v, io) + ": " + reg.v[v.base].name + " (no aliasing) gives " + fmtc(b0, b1));
                }
            }
            else if (bvalid[v.group] && v.cls != C_ACC)
            {
                ++g_vs_value;
                if (!same_mod_nan(io.out[0], bout[2 * v.group]) || !same_mod_nan(io.out[1], bout[2 * v.group + 1]))
                    report(v, io, "C10/" + v.name + "<" + cfg<T>::name() + ">/vs-" + reg.v[v.base].name + "/result-differs",
                           describe(v, io) + ": the same operation with closures " + reg.v[v.base].name + " gives " + fmtc(bout[2 * v.group], bout[2 * v.group + 1]));
            }
            if (v.alias)
            {
                if (io.flags & c10::F_RETREF)
                    report(v, io, "C10/" + v.fname + "<" + cfg<T>::name() + ">/operands-after/return-is-not-self", describe(v, io) + ": the compound operator did not return a reference to its left operand");
                if (!v.compound) {}
                else if (!same_mod_nan(io.stor[0], io.out[0]) || !same_mod_nan(io.stor[1], io.out[1]))
                    report(v, io, "C10/" + v.fname + "<" + cfg<T>::name() + ">/operands-after/referent-not-updated", describe(v, io) + ": storage holds " + fmtc(io.stor[0], io.stor[1]));
            }
            else if (v.cls != C_ACC && v.cls != C_ACCSTD) check_after<T>(v, io);
            if (judged)
            {
                ++g_judged;
                if (nontrivial && !dseen[v.dgroup]) { dseen[v.dgroup] = 1; ++g_distinct; }
                if (v.alias) ++g_alias_judged;
                if (v.stype >= 0) ++g_scalar_judged;
            }
            if (g_verbose && (g_only.empty() || g_only == v.name))
                std::printf("%s%s\n", describe(v, io).c_str(), judged ? "" : "  (not judged by a value rule)");
        }
    }
};

// ------------------------------------------------------------------------------------------------------
template <class T>
static std::vector<T> alphabet(bool thorough)
{
    typedef std::numeric_limits<T> L;
    const T inf = L::infinity(), nan = L::quiet_NaN();
    const T big = std::ldexp(T(1), int(cfg<T>::BIG)), small = std::ldexp(T(1), -int(cfg<T>::BIG));
    const T third = T(1) / T(3), onep = T(1) + L::epsilon();
    std::vector<T> v;
    if (!thorough)
    {
        T q[] = {T(0), -T(0), T(1), T(-1), T(0.5), T(-2), T(3), T(-7), third, -onep, big, -small, L::max(), -L::min(), inf, -inf, nan};
        v.assign(q, q + sizeof q / sizeof q[0]);
    }
    else
    {
        const T wlim = std::ldexp(T(1), int(cfg<T>::W)), wlo = std::ldexp(T(1), -int(cfg<T>::W));
        const T sq_hi = std::ldexp(T(1), (L::max_exponent) / 2);                          // 2^512 / 2^64: squares overflow from here
        const T sq_lo = std::ldexp(T(1), (L::min_exponent - L::digits) / 2 - 1);          // squares underflow to zero from here
        T q[] = {T(0), -T(0), T(1), T(-1), T(0.5), T(-2), T(3), T(-7),
                 L::min(), -L::min(), L::denorm_min(), -L::denorm_min(), big, -big, small, -small, L::max(), -L::max(), inf, -inf, nan,
                 // inexact mantissas in the ordinary range
                 third, -onep, T(0.1), T(-3.14159265358979323846), T(1.41421356237309504880), T(12345.678), T(-1) / T(7), T(5) / T(3),
                 // the limits of the well-scaled band and values inside it
                 wlim, -wlo, T(2) * wlim, std::ldexp(T(1), int(cfg<T>::W) / 2), -std::ldexp(T(1), -int(cfg<T>::W) / 2),
                 std::ldexp(T(1.1), int(cfg<T>::W) - 1), -std::ldexp(T(1.7), -(int(cfg<T>::W) - 1)),
                 // extreme magnitudes: square overflow / underflow thresholds, inexact mantissas at extreme exponents, neighbours of max and min
                 sq_hi, -sq_lo, std::ldexp(T(1.3), int(cfg<T>::BIG) - 3), -std::ldexp(T(1.9), -(int(cfg<T>::BIG) - 3)),
                 L::max() / 2, std::ldexp(T(1.5), L::max_exponent - 2), L::max() * (T(1) - L::epsilon()), -L::min() * (T(2) + T(2) * L::epsilon()), -T(3) * L::denorm_min()};
        v.assign(q, q + sizeof q / sizeof q[0]);
    }
    return v;
}

template <class T>
static int run_all(int argc, char** argv)
{
    bool thorough = false;
    int shard = 0, nshard = 1;
    long long deadline = 0;
    const char* one[5] = {nullptr, nullptr, nullptr, nullptr, nullptr};
    bool list = false;
    for (int i = 1; i < argc; ++i)
    {
        std::string s = argv[i];
        if (s == "--tier") thorough = std::string(argv[++i]) == "thorough";
        else if (s == "--shard") { shard = atoi(argv[i + 1]); nshard = atoi(argv[i + 2]); i += 2; }
        else if (s == "--deadline") deadline = atoll(argv[++i]);
        else if (s == "--one") { for (int k = 0; k < 5; ++k) one[k] = argv[i + 1 + k]; i += 5; }
        else if (s == "--verbose") g_verbose = true;
        else if (s == "--list") list = true;
    }
    Registry<T> reg;
    register_all<T>(reg);
    if (list)
    {
        for (auto& v : reg.v) std::printf("%s\n", v.name.c_str());
        return 0;
    }
    PairRunner<T> pr(reg);
    if (one[0])
    {
        g_only = one[0];
        g_verbose = true;
        bool found = false;
        for (auto& v : reg.v) if (v.name == g_only) found = true;
        if (!found) { std::printf("no variant %s in part %s\n", g_only.c_str(), part_name); return 3; }
        T in[4];
        for (int k = 0; k < 4; ++k) in[k] = T(std::strtod(one[k + 1], nullptr));
#if defined(C10_PART_SCALAR)
        {
            // the third number is the scalar as an exact long double; only the variants of that scalar type run
            int st = -1;
            for (auto& v : reg.v) if (v.name == g_only) st = v.stype;
            std::vector<int> subset;
            for (size_t i = 0; i < reg.v.size(); ++i) if (reg.v[i].stype == st) subset.push_back(int(i));
            pr.scalar_mode = true;
            pr.sx = std::strtold(one[3], nullptr);
            in[2] = stypes<T>()[st].conv(pr.sx);
            in[3] = T(0);
            pr.sx_exact = pr.sx != pr.sx || ld(in[2]) == pr.sx;
            pr.run(in, true, true, true, &subset);
        }
#else
        pr.run(in, true, true, true);
#endif
    }
#if defined(C10_PART_SCALAR)
    else
    {
        // (a, b) in V^2 x every scalar type of this binary x every value of that type's alphabet
        std::vector<T> V = alphabet<T>(thorough);
        const int n = int(V.size());
        const std::vector<SType<T> >& ST = stypes<T>();
        std::vector<std::vector<int> > subset(ST.size());
        for (size_t i = 0; i < reg.v.size(); ++i) subset[reg.v[i].stype].push_back(int(i));
        // per type: the usable scalars (a finite scalar whose conversion to T overflows is left out: T cannot take part in that operation)
        std::vector<std::vector<ld> > A(ST.size());
        long long nsc = 0, ninexact = 0, ntypes = 0;
        for (size_t t = 0; t < ST.size(); ++t)
        {
            if (subset[t].empty()) continue;
            ++ntypes;
            for (ld s : ST[t].alpha(thorough))
            {
                T c = ST[t].conv(s);
                if (s == s && !is_inf(s) && !is_fin(c)) continue;
                A[t].push_back(s);
                ++nsc;
                if (s == s && ld(c) != s) ++ninexact;
            }
        }
        pr.scalar_mode = true;
        bool stopped = false;
        for (int ia = 0; ia < n && !stopped; ++ia)
            for (int ib = 0; ib < n && !stopped; ++ib)
            {
                if ((ia * n + ib) % nshard != shard) continue;
                if (deadline && (long long)std::time(nullptr) > deadline)
                {
                    vf::cap(std::string("deadline: ") + cfg<T>::name() + "/" + part_name + " shard " + vf::str(shard) + "/" + vf::str(nshard) + " stopped before a-index " +
                            vf::str(ia) + ", b-index " + vf::str(ib) + " of " + vf::str(n));
                    stopped = true;
                    break;
                }
                for (size_t t = 0; t < ST.size(); ++t)
                    for (ld s : A[t])
                    {
                        T in[4] = {V[ia], V[ib], ST[t].conv(s), T(0)};
                        pr.sx = s;
                        pr.sx_exact = s != s || ld(in[2]) == s;
                        pr.run(in, true, true, false, &subset[t]);
                    }
            }
        vf::smax("alphabet_size", n);
        vf::stat(std::string("variants_") + cfg<T>::name() + "_" + part_name, shard == 0 ? (long long)reg.v.size() : 0);
        if (shard == 0)
        {
            vf::stat(std::string("scalar_types_") + cfg<T>::name(), ntypes);
            vf::stat(std::string("scalar_values_") + cfg<T>::name(), nsc);
            vf::stat(std::string("scalar_values_not_exact_in_") + cfg<T>::name(), ninexact);
        }
    }
#else
    else
    {
        std::vector<T> V = alphabet<T>(thorough);
        const int n = int(V.size());
        bool stopped = false;
        for (int ia = 0; ia < n && !stopped; ++ia)
        {
            for (int ib = 0; ib < n && !stopped; ++ib)
            {
                if ((ia * n + ib) % nshard != shard) continue;
                if (deadline && (long long)std::time(nullptr) > deadline)
                {
                    vf::cap(std::string("deadline: ") + cfg<T>::name() + "/" + part_name + " shard " + vf::str(shard) + "/" + vf::str(nshard) + " stopped before a-index " +
                            vf::str(ia) + ", b-index " + vf::str(ib) + " of " + vf::str(n));
                    stopped = true;
                    break;
                }
                for (int ic = 0; ic < n; ++ic)
                    for (int id = 0; id < n; ++id)
                    {
                        T in[4] = {V[ia], V[ib], V[ic], V[id]};
                        pr.run(in, id == 0, ic == 0 && id == 0, false);
                    }
            }
        }
        vf::smax("alphabet_size", n);
        vf::stat(std::string("variants_") + cfg<T>::name() + "_" + part_name, shard == 0 ? (long long)reg.v.size() : 0);
    }
#endif
    vf::stat("evaluations", g_eval);
    vf::stat("scalar_type_evaluations", g_scalar_eval);
    vf::stat("scalar_type_evaluations_judged", g_scalar_judged);
    vf::stat("judged_evaluations", g_judged);
    vf::stat("distinct_nontrivial", g_distinct);
    vf::stat("tolerance_checks", g_tol_checks);
    vf::stat("annexg_rule_checks", g_rule_checks);
    vf::stat("closure_identity_checks", g_vs_value);
    vf::stat("aliasing_evaluations_judged", g_alias_judged);
    vf::stat("std_complex_identity_checks", g_vs_std);
    vf::stat("oracle_disagreements", g_disagree);
    vf::stat("rule_table_second_opinions", g_second_opinions);
    vf::stat("libstdcxx_nan_from_finite_cases", g_libnan);
    vf::done();
    return 0;
}

// ------------------------------------------------------------------------------------------------------
// mixed value types (part MIXED): == / != between xcomplex over float, double, int, long double, and binary
// arithmetic between different value types where it compiles (nowhere on the pinned tree)
#if defined(C10_PART_MIXED) || defined(C10_PART_MIXC)
template <class T> struct tyname;
template <> struct tyname<float> { static const char* n() { return "float"; } };
template <> struct tyname<double> { static const char* n() { return "double"; } };
template <> struct tyname<int> { static const char* n() { return "int"; } };
template <> struct tyname<long double> { static const char* n() { return "long double"; } };

// v is exactly representable in T
template <class T> static bool representable(ld v)
{
    if (v != v || v == std::numeric_limits<ld>::infinity() || v == -std::numeric_limits<ld>::infinity()) return std::numeric_limits<T>::has_infinity;
    if (std::numeric_limits<T>::is_integer)
        return v == std::floor(v) && v >= ld(std::numeric_limits<T>::min()) && v <= ld(std::numeric_limits<T>::max()) && !(v == 0 && std::signbit(v));
    if (std::fabs(v) > ld(std::numeric_limits<T>::max())) return false;
    return ld(static_cast<T>(v)) == v;
}
// usable as a part of an operand of type T1 that meets an operand of type T2: exact in T1 and in the type the built-in
// comparison converts both sides to (so that "comparing both parts" has one meaning, e.g. int 2^24+1 never meets a float)
template <class T1, class T2> static bool usable(ld v) { return representable<T1>(v) && representable<typename std::common_type<T1, T2>::type>(v); }
#endif

#if defined(C10_PART_MIXED)

struct MVariant
{
    std::string name, types, opname;
    bool ne, first_of_types;
    bool (*cmp)(const ld*);
    void (*bin)(const ld*, ld*);
    int op;
    ld eps;
    bool (*ok1)(ld);
    bool (*ok2)(ld);
};
static std::vector<MVariant> g_mixed;
static std::map<std::string, int> g_mixed_seen;

template <class T1, class T2>
static void add_mcmp(const char* k1, bool b1, const char* k2, bool b2, bool ne, bool (*fn)(const ld*))
{
    MVariant m;
    m.types = std::string(tyname<T1>::n()) + "," + tyname<T2>::n();
    m.opname = ne ? "operator!=" : "operator==";
    m.name = m.opname + ":" + tyname<T1>::n() + ":" + k1 + (b1 ? "1" : "0") + ":" + tyname<T2>::n() + ":" + k2 + (b2 ? "1" : "0");
    m.ne = ne; m.cmp = fn; m.bin = nullptr; m.op = -1; m.eps = 0;
    m.ok1 = &usable<T1, T2>; m.ok2 = &usable<T2, T1>;
    m.first_of_types = g_mixed_seen[m.opname + m.types]++ == 0;
    g_mixed.push_back(m);
}
template <class T> static ld eps_of() { return std::numeric_limits<T>::is_integer ? ld(0) : ld(std::numeric_limits<T>::epsilon()); }
template <class T1, class T2>
static void add_mbin(const char* op, void (*fn)(const ld*, ld*))
{
    MVariant m;
    m.types = std::string(tyname<T1>::n()) + "," + tyname<T2>::n();
    m.opname = std::string("mixed-") + op;
    m.name = m.opname + ":" + tyname<T1>::n() + ":" + tyname<T2>::n();
    m.ne = false; m.cmp = nullptr; m.bin = fn;
    m.op = Registry<double>::opidx(op);
    m.eps = std::max(eps_of<T1>(), eps_of<T2>());
    m.ok1 = &usable<T1, T2>; m.ok2 = &usable<T2, T1>;
    m.first_of_types = true;
    g_mixed.push_back(m);
}

#undef MEQ
#undef MNE
#undef MBIN
#define MEQ(T1, K1, B1, T2, K2, B2) add_mcmp<c10::ty_##T1, c10::ty_##T2>(kname(c10::K1), B1, kname(c10::K2), B2, false, &c10::m_cmp<c10::ty_##T1, c10::K1, B1, c10::ty_##T2, c10::K2, B2, false>);
#define MNE(T1, K1, B1, T2, K2, B2) add_mcmp<c10::ty_##T1, c10::ty_##T2>(kname(c10::K1), B1, kname(c10::K2), B2, true, &c10::m_cmp<c10::ty_##T1, c10::K1, B1, c10::ty_##T2, c10::K2, B2, true>);
#define MBIN(op, T1, T2) add_mbin<c10::ty_##T1, c10::ty_##T2>(#op, &c10::m_bin<c10::ty_##T1, c10::ty_##T2, c10::op_##op>);
static void register_mixed()
{
#include "c10_variants.inc"
}

static long long g_meval = 0, g_mdistinct = 0;

static void mixed_one(const MVariant& m, const ld in[4], bool verbose)
{
    ++g_meval;
    std::vector<std::string> rp = {"--one", m.name, hexl(in[0]), hexl(in[1]), hexl(in[2]), hexl(in[3])};
    const std::string ops = "(" + fmtl(in[0]) + ", " + fmtl(in[1]) + ") and (" + fmtl(in[2]) + ", " + fmtl(in[3]) + ")";
    if (m.cmp)
    {
        // exact values (every operand type embeds exactly in long double); symmetric in the operand order by construction
        bool er = in[0] == in[2], ei = in[1] == in[3];
        bool anynan = in[0] != in[0] || in[1] != in[1] || in[2] != in[2] || in[3] != in[3];
        bool expect = (er && ei) != m.ne;
        bool got = m.cmp(in);
        if (m.first_of_types && (er || ei || anynan)) ++g_mdistinct;
        if (verbose) std::printf("%s on %s -> %s (exact comparison: %s)\n", m.name.c_str(), ops.c_str(), got ? "true" : "false", expect ? "true" : "false");
        if (got != expect)
        {
            const char* icls = anynan ? "nan-part" : (er && ei) ? "equal" : er ? "imag-differs" : ei ? "real-differs" : "both-differ";
            (void)icls;   // the operand class goes into the message only: one signature per operator and ordered type pair
            vf::violation("C10/" + m.opname + "<" + m.types + ">/mixed-value-types/wrong-answer",
                          m.name + " on " + ops + " [" + icls + "] returned " + (got ? "true" : "false") + ", comparing both parts (exact values) gives " + (expect ? "true" : "false"), rp);
        }
        if (g_meval % 2000003 == 17)
            vf::sample(m.name + " on " + ops + " -> " + (got ? "true" : "false"), 2);
    }
    else
    {
        // binary arithmetic across value types: small well-scaled operands only, exact result in long double, 8 eps of the coarser type
        for (int i = 0; i < 4; ++i)
        {
            ld a = std::fabs(in[i]);
            if (!(a == 0 || (a >= ld(1) / 1048576 && a <= ld(1048576)))) return;
        }
        if (m.op == 3 && in[2] == 0 && in[3] == 0) return;
        ld out[2] = {0, 0};
        m.bin(in, out);
        const ld a = in[0], b = in[1], c = in[2], d = in[3];
        ld er, ei;
        if (m.op == 0) { er = a + c; ei = b + d; }
        else if (m.op == 1) { er = a - c; ei = b - d; }
        else if (m.op == 2) { er = a * c - b * d; ei = a * d + b * c; }
        else { ld e = c * c + d * d; er = (a * c + b * d) / e; ei = (b * c - a * d) / e; }
        ld dr = out[0] - er, di = out[1] - ei, tol = 8 * m.eps + (m.eps == 0 ? 1 : 0);
        ++g_mdistinct;
        if (verbose) std::printf("%s on %s -> (%s, %s), exact (%s, %s)\n", m.name.c_str(), ops.c_str(), fmtl(out[0]).c_str(), fmtl(out[1]).c_str(), fmtl(er).c_str(), fmtl(ei).c_str());
        if (!(dr * dr + di * di <= tol * tol * (er * er + ei * ei)))
            vf::violation("C10/" + m.opname + "<" + m.types + ">/fin/inexact", m.name + " on " + ops + " -> (" + fmtl(out[0]) + ", " + fmtl(out[1]) + "), exact (" + fmtl(er) + ", " + fmtl(ei) + ")", rp);
    }
}

static int run_mixed(int argc, char** argv)
{
    int shard = 0, nshard = 1;
    long long deadline = 0;
    const char* one[5] = {nullptr, nullptr, nullptr, nullptr, nullptr};
    bool list = false, thorough = false;
    for (int i = 1; i < argc; ++i)
    {
        std::string s = argv[i];
        if (s == "--tier") thorough = std::string(argv[++i]) == "thorough";
        else if (s == "--shard") { shard = atoi(argv[i + 1]); nshard = atoi(argv[i + 2]); i += 2; }
        else if (s == "--deadline") deadline = atoll(argv[++i]);
        else if (s == "--one") { for (int k = 0; k < 5; ++k) one[k] = argv[i + 1 + k]; i += 5; }
        else if (s == "--list") list = true;
    }
    register_mixed();
    if (list) { for (auto& m : g_mixed) std::printf("%s\n", m.name.c_str()); return 0; }
    if (one[0])
    {
        bool found = false;
        ld in[4];
        for (int k = 0; k < 4; ++k) in[k] = std::strtold(one[k + 1], nullptr);
        for (auto& m : g_mixed) if (m.name == one[0]) { found = true; mixed_one(m, in, true); }
        if (!found) { std::printf("no variant %s in part mixed\n", one[0]); return 3; }
    }
    else
    {
        // part alphabet: exactly representable small values, values that need more precision than the narrower type has
        // (0.1 and 1/3 in each precision, 1.5 and 0.75 vs int, 2^24+1 vs float, 2^53+1 vs double), range ends, inf, NaN
        const ld inf = std::numeric_limits<ld>::infinity();
        const ld Mq[] = {0, -ld(0), 1, 2, -7, ld(1.5), ld(0.1f), ld(0.1), 0.1L, ld(16777216), ld(16777217), ld(9007199254740992.0) + 1, inf, std::numeric_limits<ld>::quiet_NaN()};
        const ld Mt[] = {0, -ld(0), 1, -1, 2, 3, -7, ld(0.5), ld(1.5), ld(-0.75),
                         ld(0.1f), ld(0.1), 0.1L, ld(1.0f / 3.0f), ld(1.0 / 3.0), 1.0L / 3.0L,
                         ld(16777216), ld(16777217), ld(-16777217), ld(9007199254740992.0), ld(9007199254740992.0) + 1, ld(2147483647), ld(-2147483647) - 1,
                         ld(1e30f), ld(1e300), inf, -inf, std::numeric_limits<ld>::quiet_NaN()};
        const ld* M = thorough ? Mt : Mq;
        const int n = thorough ? int(sizeof Mt / sizeof Mt[0]) : int(sizeof Mq / sizeof Mq[0]);
        // Order of the enumeration: the unit of work is (variant, value of the first operand's real part).  All variants of the
        // shard advance together, one real-part value per step, and variant number i starts at its i-th value, so a deadline cut
        // on a loaded machine removes the last steps of EVERY variant (a different value for each) instead of whole variants.
        std::vector<size_t> mine;
        for (size_t vi = 0; vi < g_mixed.size(); ++vi) if (int(vi % nshard) == shard) mine.push_back(vi);
        std::vector<std::vector<ld> > As(mine.size()), Bs(mine.size());
        size_t steps = 0;
        for (size_t k = 0; k < mine.size(); ++k)
        {
            const MVariant& m = g_mixed[mine[k]];
            for (int i = 0; i < n; ++i) { if (m.ok1(M[i])) As[k].push_back(M[i]); if (m.ok2(M[i])) Bs[k].push_back(M[i]); }
            steps = std::max(steps, As[k].size());
        }
        for (size_t step = 0; step < steps; ++step)
        {
            if (deadline && (long long)std::time(nullptr) > deadline)
            {
                vf::cap("deadline: mixed shard " + vf::str(shard) + "/" + vf::str(nshard) + " stopped before step " + vf::str(step) + " of " + vf::str(steps) +
                        " (every one of its " + vf::str(mine.size()) + " variants has been run on " + vf::str(step) + " values of the first real part, all values of the other three parts)");
                break;
            }
            for (size_t k = 0; k < mine.size(); ++k)
            {
                const std::vector<ld>&A = As[k], &B = Bs[k];
                if (step >= A.size()) continue;
                const ld a = A[(step + k) % A.size()];
                for (ld b : A) for (ld c : B) for (ld d : B)
                {
                    ld in[4] = {a, b, c, d};
                    mixed_one(g_mixed[mine[k]], in, false);
                }
            }
        }
        vf::stat("variants_mixed", shard == 0 ? (long long)g_mixed.size() : 0);
        vf::smax("mixed_alphabet_size", n);
    }
    vf::stat("evaluations", g_meval);
    vf::stat("mixed_type_evaluations", g_meval);
    vf::stat("judged_evaluations", g_meval);
    vf::stat("distinct_nontrivial", g_mdistinct);
    vf::done();
    return 0;
}
#endif

#if defined(C10_PART_MIXC)
// ------------------------------------------------------------------------------------------------------
// part MIXC: compound assignment x OP= y between xcomplex objects of DIFFERENT value types.  x is over T1 in {float, double}
// (closure kinds V, R), y over T2 in {float, double, int, long double} \ {T1} (closure kinds V, R, C), both ieee flags on
// either side, four operators; plus the right operand converted from / handed over as a std::complex<T2>.  The result has
// the LEFT operand's value type, and it is judged in that precision: exact result in __float128 from the exact operand
// values, the same tolerance, Annex G rule table, closure identity and operands-afterwards rules as everywhere else.
struct MCVariant
{
    std::string name;       // e.g. div:mcmpd:double:V0:float:C0
    int op;
    bool b1, b2, eff;
    int k1;
    int kind;               // 0: x op= y (y an xcomplex over T2); 1: x op= xcomplex<T1>(std::complex<T2>); 2: x op= std::complex<T2>
    void (*fn)(c10::MIO&);
    int group, base;        // closure identity: same kind, operation and flags, any closure kinds
};
static const char* mc_kind_tag[3] = {"mcmpd", "mcstd", "mcs"};
static const char* mc_kind_form[3] = {"mc", "mc-stdconv", "mc-std"};
static long long g_mc_eval = 0, g_mc_judged = 0, g_mc_distinct = 0, g_mc_tuples = 0, g_mc_inexact_rhs = 0;
static long long g_mc_samples_tol = 0, g_mc_samples_ieee = 0;

static void push_unique(std::vector<ld>& r, ld v)
{
    for (ld w : r) if (std::memcmp(&w, &v, 10) == 0) return;
    r.push_back(v);
}

struct MCGroupBase
{
    std::vector<MCVariant> v;
    std::map<std::string, int> groups;
    std::vector<int> group_first;
    std::vector<ld> A, B;   // parts of the left operand (values of T1), parts of the right operand (values of T2 that T1 can take)
    virtual ~MCGroupBase() {}
    virtual const char* t1() const = 0;
    virtual const char* t2() const = 0;
    virtual void build_alphabets(bool thorough) = 0;
    virtual void run_tuple(const ld in[4], bool verbose) = 0;
    void add(MCVariant x, const std::string& gkey)
    {
        auto it = groups.find(gkey);
        if (it == groups.end())
        {
            int g = int(groups.size());
            groups[gkey] = g;
            group_first.push_back(int(v.size()));
            x.group = g;
        }
        else
            x.group = it->second;
        x.base = group_first[x.group];
        v.push_back(x);
    }
};
static std::vector<MCGroupBase*> g_mc_groups;

template <class T> struct tytok;
template <> struct tytok<float> { static const char* n() { return "float"; } };
template <> struct tytok<double> { static const char* n() { return "double"; } };
template <> struct tytok<int> { static const char* n() { return "int"; } };
template <> struct tytok<long double> { static const char* n() { return "ldouble"; } };

// the alphabet of a right operand's type: the component alphabet V of the tier for a floating type, boundary values for int
template <class T2> struct right_pool
{
    static void fill(std::vector<ld>& r, bool thorough) { for (T2 x : alphabet<T2>(thorough)) push_unique(r, ld(x)); }
};
template <> struct right_pool<int>
{
    static void fill(std::vector<ld>& r, bool thorough)
    {
        const ld mx = ld(std::numeric_limits<int>::max()), mn = ld(std::numeric_limits<int>::min());
        // 46341^2 and 65536^2 leave the range of int; max and min have no square / opposite in int
        const ld q[] = {0, 1, -1, 2, 3, -7, 46341, -65536, mx, mn};
        const ld t[] = {5, 10, 100, -3, 255, 32768, 46340, -46341, ld(1 << 30), mx - 1, mn + 1};
        for (ld x : q) push_unique(r, x);
        if (thorough) for (ld x : t) push_unique(r, x);
    }
};

template <class T1, class T2>
struct MCGroup : MCGroupBase
{
    static MCGroup& get()
    {
        static MCGroup* g = nullptr;
        if (!g) { g = new MCGroup; g_mc_groups.push_back(g); }
        return *g;
    }
    const char* t1() const override { return tyname<T1>::n(); }
    const char* t2() const override { return tyname<T2>::n(); }

    void reg(const char* op, int kind, int k1, bool b1, const std::string& rest, bool b2, void (*fn)(c10::MIO&))
    {
        MCVariant x;
        x.op = Registry<double>::opidx(op); x.b1 = b1; x.b2 = b2; x.eff = b1 || b2; x.k1 = k1; x.kind = kind; x.fn = fn; x.group = x.base = -1;
        x.name = std::string(op) + ":" + mc_kind_tag[kind] + ":" + tyname<T1>::n() + ":" + kname(k1) + (b1 ? "1" : "0") + ":" + tyname<T2>::n() + rest;
        add(x, std::string(op) + ":" + mc_kind_tag[kind] + ":" + (b1 ? "1" : "0") + (b2 ? "1" : "0"));
    }

    // a value of T2 that can be a part of the right operand when the left operand is over T1: the conversion to T1 - which the
    // library has to perform somewhere, and which the property allows to round once - must keep it what it is in the statement's
    // classification: a finite value stays finite, a non-zero value stays non-zero
    static bool right_usable(ld x)
    {
        if (!representable<T2>(x)) return false;
        if (x != x || is_inf(x)) return true;
        if (std::fabs(x) > ld(std::numeric_limits<T1>::max())) return false;
        T1 c = static_cast<T1>(x);
        return is_fin(c) && ((x == 0) == (c == T1(0)));
    }

    void build_alphabets(bool thorough) override
    {
        A.clear(); B.clear();
        // left parts: the quick component alphabet of T1 in both tiers (the thorough tier deepens the right operand, whose type is
        // the foreign one), plus the limits of T1's well-scaled band in the thorough tier
        for (T1 x : alphabet<T1>(false)) push_unique(A, ld(x));
        const int W1 = int(cfg<T1>::W);
        if (thorough)
        {
            const T1 e[] = {std::ldexp(T1(1), W1), -std::ldexp(T1(1), -W1), std::ldexp(T1(1.1), W1 - 1), -std::ldexp(T1(1.7), -(W1 - 1))};
            for (T1 x : e) push_unique(A, ld(x));
        }
        // right parts: the alphabet of T2, the alphabet of T1 as far as T2 holds it (magnitudes that are extreme for T1), and two
        // inexact mantissas at the ends of T1's well-scaled band rounded to T2 (large / small for the narrower type, but well-scaled)
        std::vector<ld> pool;
        right_pool<T2>::fill(pool, thorough);
        for (T1 x : alphabet<T1>(thorough)) push_unique(pool, ld(x));
        const ld e[] = {std::ldexp(ld(1.1), W1 - 1), -std::ldexp(ld(1.7), -(W1 - 1))};
        for (ld x : e)
            if (std::fabs(x) <= ld(std::numeric_limits<T2>::max())) push_unique(pool, ld(static_cast<T2>(x)));
        for (ld x : pool) if (right_usable(x)) push_unique(B, x);
    }

    std::vector<T1> bout;
    std::vector<char> bvalid;

    void run_tuple(const ld in[4], bool verbose) override
    {
        ++g_mc_tuples;
        const ld a = in[0], b = in[1], c = in[2], d = in[3];
        const T1 ta = static_cast<T1>(a), tb = static_cast<T1>(b), tc = static_cast<T1>(c), td = static_cast<T1>(d);
        const bool cfin = c == c && !is_inf(c), dfin = d == d && !is_inf(d);
        const q128 xc = cfin ? q128(c) : q128(0), xd = dfin ? q128(d) : q128(0);
        // T1 holds the right operand exactly?  If not, the single rounding of the operand that the property allows can be magnified
        // without bound by cancellation in + and -; * and / keep it within the tolerance (normwise perturbation of one operand by eps/2)
        const bool exact = (c != c || ld(tc) == c) && (d != d || ld(td) == d);
        if (!exact) ++g_mc_inexact_rhs;
        Oracle<T1> oe, oc;
        make_oracle<T1>(oe, ta, tb, tc, td, nullptr, cfin ? &xc : nullptr, dfin ? &xd : nullptr);
        if (!exact) oe.op[0].tol_any = oe.op[1].tol_any = false;
        oc.valid = false;
        bout.assign(2 * groups.size(), T1(0));
        bvalid.assign(groups.size(), 0);
        unsigned seen = 0;
        for (size_t vi = 0; vi < v.size(); ++vi)
        {
            const MCVariant& m = v[vi];
            c10::MIO io;
            for (int i = 0; i < 4; ++i) io.in[i] = in[i];
            io.out[0] = io.out[1] = 0;
            io.flags = 0;
            m.fn(io);
            ++g_mc_eval;
            const T1 out[2] = {static_cast<T1>(io.out[0]), static_cast<T1>(io.out[1])};   // values of T1, widened exactly on the way out
            auto rep = [&](const std::string& sig, const std::string& msg) {
                if (!g_only.empty() && m.name != g_only) return;
                vf::violation(sig, msg, {"--one", m.name, hexl(in[0]), hexl(in[1]), hexl(in[2]), hexl(in[3])});
            };
            auto desc = [&]() {
                return m.name + " on (" + fmtl(a) + ", " + fmtl(b) + ") [" + t1() + "] and (" + fmtl(c) + ", " + fmtl(d) + ") [" + t2() + "] -> " + fmtc(out[0], out[1]);
            };
            if (vf::take_asan())
                rep("C10/" + m.name + "/memory/asan-report", desc() + ": AddressSanitizer reported an error during this operation (see stderr)");
            // kind 1: the right operand has been converted to T1 by a constructor before the operation, so the operation's operands
            // are the converted values
            const Oracle<T1>* o = &oe;
            if (m.kind == 1 && !exact)
            {
                if (!oc.valid) make_oracle<T1>(oc, ta, tb, tc, td);
                o = &oc;
            }
            auto fam = [&]() {
                return std::string("C10/") + op_names[m.op] + (m.eff ? ".ieee<" : ".naive<") + cfg<T1>::name() + ">/" + mc_kind_form[m.kind] + "." + tytok<T2>::n() + "/" +
                       zclass_name(o->p[0], o->p[1]) + op_chars[m.op] + zclass_name(o->q[0], o->q[1]) + "/";
            };
            auto what = [&]() {
                return desc() + " [result judged in " + cfg<T1>::name() + ", ieee_compliant=" + (m.eff ? "true" : "false") + (m.kind == 1 ? ", right operand after its conversion: " + fmtc(tc, td) : std::string()) + "]";
            };
            const bool judged = judge_core<T1>(m.op, m.eff, out, *o, fam, what, rep);
            const bool nontrivial = o->pc != Z_ZERO && o->qc != Z_ZERO;
            if (judged)
            {
                ++g_mc_judged;
                const unsigned bit = 1u << (m.kind * 8 + m.op * 2 + (m.eff ? 1 : 0));
                if (nontrivial && !(seen & bit)) { seen |= bit; ++g_mc_distinct; }
                if (nontrivial && g_last_tol && !exact && m.kind == 0 && g_mc_samples_tol++ == 777)
                    vf::sample(desc() + " [exact " + fmtc(T1(o->op[m.op].er), T1(o->op[m.op].ei)) + ", within 8 eps of " + cfg<T1>::name() + "]", 2);
                else if (nontrivial && m.eff && (o->pc >= Z_INF || o->qc >= Z_INF) && o->op[m.op].expect != E_NONE && g_mc_samples_ieee++ == 999)
                    vf::sample(desc() + " [Annex G: " + o->op[m.op].rule + "]", 2);
            }
            // the same operation through any closure kinds must give the value closures' bits
            if (int(vi) == m.base) { bout[2 * m.group] = out[0]; bout[2 * m.group + 1] = out[1]; bvalid[m.group] = 1; }
            else if (bvalid[m.group])
            {
                ++g_vs_value;
                if (!same_mod_nan(out[0], bout[2 * m.group]) || !same_mod_nan(out[1], bout[2 * m.group + 1]))
                    rep("C10/" + m.name + "/vs-" + v[m.base].name + "/result-differs", desc() + ": the same operation with closures " + v[m.base].name + " gives " + fmtc(bout[2 * m.group], bout[2 * m.group + 1]));
            }
            // operands afterwards
            if (io.flags & c10::F_RETREF)
                rep("C10/" + m.name + "/operands-after/return-is-not-self", desc() + ": the compound operator did not return a reference to its left operand");
            if (io.flags & c10::F_M_RHS)
                rep("C10/" + m.name + "/operands-after/operand-modified", desc() + ": the right operand (object or its storage) was modified");
            if (io.flags & c10::F_M_LHS_STOR)
                rep("C10/" + m.name + "/operands-after/" + (m.k1 == c10::KR ? "referent-not-updated" : "storage-of-value-closure-written"), desc() + ": storage of the left operand after the operation");
            if (io.flags & c10::F_M_RVAL)
                rep("C10/" + m.name + "/conversion/rvalue-differs-from-lvalue", desc() + ": converting an rvalue std::complex gives other parts than converting an lvalue");
            if (verbose && (g_only.empty() || g_only == m.name))
                std::printf("%s%s\n", desc().c_str(), judged ? "" : "  (not judged by a value rule)");
        }
    }
};

#undef MCMPD
#undef MCSTD
#undef MCS
#define MCMPD(op, T1, K1, B1, T2, K2, B2) MCGroup<c10::ty_##T1, c10::ty_##T2>::get().reg(#op, 0, c10::K1, B1, std::string(":") + kname(c10::K2) + (B2 ? "1" : "0"), B2, &c10::m_cmpd<c10::ty_##T1, c10::K1, B1, c10::ty_##T2, c10::K2, B2, c10::op_##op>);
#define MCSTD(op, T1, B1, T2) MCGroup<c10::ty_##T1, c10::ty_##T2>::get().reg(#op, 1, c10::KV, B1, "", B1, &c10::m_cstd<c10::ty_##T1, B1, c10::ty_##T2, c10::op_##op>);
#define MCS(op, T1, K1, B1, T2) MCGroup<c10::ty_##T1, c10::ty_##T2>::get().reg(#op, 2, c10::K1, B1, "", B1, &c10::m_cs<c10::ty_##T1, c10::K1, B1, c10::ty_##T2, c10::op_##op>);
static std::string tytok_of(const char* n) { std::string s = n; return s == "long double" ? "ldouble" : s; }
static void register_mixc()
{
#include "c10_variants.inc"
}

static int run_mixc(int argc, char** argv)
{
    int shard = 0, nshard = 1;
    long long deadline = 0;
    const char* one[5] = {nullptr, nullptr, nullptr, nullptr, nullptr};
    bool list = false, thorough = false;
    for (int i = 1; i < argc; ++i)
    {
        std::string s = argv[i];
        if (s == "--tier") thorough = std::string(argv[++i]) == "thorough";
        else if (s == "--shard") { shard = atoi(argv[i + 1]); nshard = atoi(argv[i + 2]); i += 2; }
        else if (s == "--deadline") deadline = atoll(argv[++i]);
        else if (s == "--one") { for (int k = 0; k < 5; ++k) one[k] = argv[i + 1 + k]; i += 5; }
        else if (s == "--list") list = true;
    }
    register_mixc();
    if (list) { for (auto* g : g_mc_groups) for (auto& m : g->v) std::printf("%s\n", m.name.c_str()); return 0; }
    if (one[0])
    {
        g_only = one[0];
        bool found = false;
        ld in[4];
        for (int k = 0; k < 4; ++k) in[k] = std::strtold(one[k + 1], nullptr);
        for (auto* g : g_mc_groups)
            for (auto& m : g->v)
                if (m.name == g_only && !found) { found = true; g->run_tuple(in, true); }
        if (!found) { std::printf("no variant %s in part mixc\n", one[0]); return 3; }
    }
    else
    {
        // Order of the enumeration: the unit of work is (type pair, value of the left operand's real part); a unit runs ALL variants
        // of the type pair (4 operators x closure kinds x flags x forms) on all values of the other three parts.  The units are dealt
        // to the shards step by step, every type pair starting at a different value, so a deadline cut on a loaded machine removes
        // the last steps of every type pair and every operator alike - never the same variants (e.g. the divisions) every time.
        const int G = int(g_mc_groups.size());
        size_t steps = 0;
        long long nvar = 0;
        for (auto* g : g_mc_groups) { g->build_alphabets(thorough); steps = std::max(steps, g->A.size()); nvar += (long long)g->v.size(); }
        bool stopped = false;
        for (size_t step = 0; step < steps && !stopped; ++step)
            for (int gi = 0; gi < G; ++gi)
            {
                MCGroupBase* g = g_mc_groups[gi];
                if (step >= g->A.size() || g->v.empty()) continue;
                if (int((step * size_t(G + 1) + size_t(gi)) % size_t(nshard)) != shard) continue;
                if (deadline && (long long)std::time(nullptr) > deadline)
                {
                    vf::cap("deadline: mixc shard " + vf::str(shard) + "/" + vf::str(nshard) + " stopped before step " + vf::str(step) + " of " + vf::str(steps) +
                            " (unit = one value of the left real part per type pair, all variants of the pair; " + vf::str(step) + " values done for every type pair of this shard)");
                    stopped = true;
                    break;
                }
                const ld a = g->A[(step + 3 * size_t(gi)) % g->A.size()];
                for (ld b : g->A) for (ld c : g->B) for (ld d : g->B)
                {
                    ld in[4] = {a, b, c, d};
                    g->run_tuple(in, false);
                }
            }
        if (shard == 0)
        {
            vf::stat("variants_mixc", nvar);
            vf::stat("mixc_type_pairs", G);
            for (auto* g : g_mc_groups)
            {
                vf::smax("mixc_left_alphabet_size", (long long)g->A.size());
                vf::smax("mixc_right_alphabet_size_max", (long long)g->B.size());
                vf::stat(std::string("mixc_operand_tuples_") + tytok_of(g->t1()) + "_" + tytok_of(g->t2()), (long long)(g->A.size() * g->A.size() * g->B.size() * g->B.size()));
            }
        }
    }
    vf::stat("evaluations", g_mc_eval);
    vf::stat("mixed_compound_evaluations", g_mc_eval);
    vf::stat("mixed_compound_evaluations_judged", g_mc_judged);
    vf::stat("mixed_compound_operand_tuples", g_mc_tuples);
    vf::stat("mixed_compound_tuples_rhs_not_exact_in_lhs_type", g_mc_inexact_rhs);
    vf::stat("judged_evaluations", g_mc_judged);
    vf::stat("distinct_nontrivial", g_mc_distinct);
    vf::stat("tolerance_checks", g_tol_checks);
    vf::stat("annexg_rule_checks", g_rule_checks);
    vf::stat("closure_identity_checks", g_vs_value);
    vf::stat("mixed_compound_tolerance_checks", g_tol_checks);
    vf::stat("mixed_compound_annexg_rule_checks", g_rule_checks);
    vf::stat("mixed_compound_closure_identity_checks", g_vs_value);
    vf::stat("oracle_disagreements", g_disagree);
    vf::stat("rule_table_second_opinions", g_second_opinions);
    vf::stat("libstdcxx_nan_from_finite_cases", g_libnan);
    vf::done();
    return 0;
}
#endif

int main(int argc, char** argv)
{
#if defined(C10_PART_MIXED)
    return run_mixed(argc, argv);
#elif defined(C10_PART_MIXC)
    return run_mixc(argc, argv);
#else
    return run_all<C10_T>(argc, argv);
#endif
}
