// C10: the "variants" — every way the harness drives xcomplex.  One variant = one function template
// instantiation  void v_xxx<T, ...>(IO<T>&)  that builds its operands over local storage, performs ONE
// operation of the real library and writes down what can be observed afterwards.  Nothing is judged here;
// harness.cpp judges.  probe.cpp instantiates exactly one of these to find out whether it is well-formed.
#ifndef C10_VARIANTS_HPP
#define C10_VARIANTS_HPP

#include <xtl/xcomplex.hpp>

#include <complex>
#include <cstring>
#include <memory>
#include <utility>

namespace c10
{
    enum { KV = 0, KR = 1, KC = 2 };   // closure kinds: value, T&, const T&

    template <class T, int K, bool B> struct XK;
    template <class T, bool B> struct XK<T, KV, B> { using type = xtl::xcomplex<T, T, B>; };
    template <class T, bool B> struct XK<T, KR, B> { using type = xtl::xcomplex<T&, T&, B>; };
    template <class T, bool B> struct XK<T, KC, B> { using type = xtl::xcomplex<const T&, const T&, B>; };

    enum : unsigned
    {
        F_RETREF = 1u,        // compound assignment did not return *this
        F_ACC_BASE = 1u << 8  // accessor battery: bit (8 + n) = sub-check n failed
    };

    template <class T>
    struct IO
    {
        T in[4];        // a, b (first operand), c, d (second operand; scalar forms use c only)
        long double sx; // the scalar operand of the scalar forms as an exact value (every scalar type embeds exactly in x87
                        // long double); equals in[2] unless the scalar's type can hold values that T cannot (part SCALAR)
        T out[2];       // result parts (bool / real results in out[0])
        T post[4];      // operands as seen through the operand objects after the operation
        T stor[4];      // the storage the operands were built over, after the operation
        unsigned flags;
    };

    template <class T> inline bool same_bits(T x, T y) { return std::memcmp(&x, &y, sizeof(T)) == 0; }

    // ---- the four operators ------------------------------------------------------------------------
    struct op_add
    {
        template <class A, class B> static auto bin(const A& a, const B& b) { return a + b; }
        template <class A, class B> static A& cmpd(A& a, const B& b) { return a += b; }
    };
    struct op_sub
    {
        template <class A, class B> static auto bin(const A& a, const B& b) { return a - b; }
        template <class A, class B> static A& cmpd(A& a, const B& b) { return a -= b; }
    };
    struct op_mul
    {
        template <class A, class B> static auto bin(const A& a, const B& b) { return a * b; }
        template <class A, class B> static A& cmpd(A& a, const B& b) { return a *= b; }
    };
    struct op_div
    {
        template <class A, class B> static auto bin(const A& a, const B& b) { return a / b; }
        template <class A, class B> static A& cmpd(A& a, const B& b) { return a /= b; }
    };

#define C10_OPERANDS(K1, B1, K2, B2)                                   \
    T sa = io.in[0], sb = io.in[1], sc = io.in[2], sd = io.in[3];      \
    typename XK<T, K1, B1>::type x(sa, sb);                            \
    typename XK<T, K2, B2>::type y(sc, sd);
#define C10_POST2()                                                                                     \
    io.post[0] = x.real(); io.post[1] = x.imag(); io.post[2] = y.real(); io.post[3] = y.imag();        \
    io.stor[0] = sa; io.stor[1] = sb; io.stor[2] = sc; io.stor[3] = sd;
#define C10_OPERAND1(K1, B1)                                           \
    T sa = io.in[0], sb = io.in[1], sc = io.in[2], sd = io.in[3];      \
    typename XK<T, K1, B1>::type x(sa, sb);
#define C10_POST1()                                                                                     \
    io.post[0] = x.real(); io.post[1] = x.imag(); io.post[2] = sc; io.post[3] = sd;                    \
    io.stor[0] = sa; io.stor[1] = sb; io.stor[2] = sc; io.stor[3] = sd;

    // x OP y, both xcomplex
    template <class T, class Op, int K1, bool B1, int K2, bool B2>
    void v_bin(IO<T>& io)
    {
        C10_OPERANDS(K1, B1, K2, B2)
        auto z = Op::bin(x, y);
        io.out[0] = z.real(); io.out[1] = z.imag();
        C10_POST2()
    }

    // x OP= y, both xcomplex; result is read back from x
    template <class T, class Op, int K1, bool B1, int K2, bool B2>
    void v_cmpd(IO<T>& io)
    {
        C10_OPERANDS(K1, B1, K2, B2)
        auto& r = Op::cmpd(x, y);
        if (std::addressof(r) != std::addressof(x)) io.flags |= F_RETREF;
        io.out[0] = x.real(); io.out[1] = x.imag();
        C10_POST2()
    }

    // the scalar types of the part SCALAR: every standard arithmetic type (enable_scalar is xtl::is_arithmetic)
    typedef bool sc_bool;
    typedef char sc_char;
    typedef signed char sc_schar;
    typedef unsigned char sc_uchar;
    typedef wchar_t sc_wchar;
    typedef char16_t sc_char16;
    typedef char32_t sc_char32;
    typedef short sc_short;
    typedef unsigned short sc_ushort;
    typedef int sc_int;
    typedef unsigned sc_uint;
    typedef long sc_long;
    typedef unsigned long sc_ulong;
    typedef long long sc_llong;
    typedef unsigned long long sc_ullong;
    typedef float sc_float;
    typedef double sc_double;
    typedef long double sc_ldouble;

    // x OP s   (S = T, int, or any arithmetic type in the part SCALAR)
    template <class T, class Op, int K1, bool B1, class S>
    void v_sright(IO<T>& io)
    {
        C10_OPERAND1(K1, B1)
        S s = static_cast<S>(io.sx);
        auto z = Op::bin(x, s);
        io.out[0] = z.real(); io.out[1] = z.imag();
        C10_POST1()
    }

    // s OP x
    template <class T, class Op, int K1, bool B1, class S>
    void v_sleft(IO<T>& io)
    {
        C10_OPERAND1(K1, B1)
        S s = static_cast<S>(io.sx);
        auto z = Op::bin(s, x);
        io.out[0] = z.real(); io.out[1] = z.imag();
        C10_POST1()
    }

    // x OP= s
    template <class T, class Op, int K1, bool B1, class S>
    void v_cmpds(IO<T>& io)
    {
        C10_OPERAND1(K1, B1)
        S s = static_cast<S>(io.sx);
        auto& r = Op::cmpd(x, s);
        if (std::addressof(r) != std::addressof(x)) io.flags |= F_RETREF;
        io.out[0] = x.real(); io.out[1] = x.imag();
        C10_POST1()
    }

    // ---- aliasing: the right operand of a compound assignment is (or refers to) the left operand itself ----
    // all of them take ONE operand (a,b); the harness judges them as (a,b) OP (a,b) resp. (a,b) OP (a|b, 0)
#define C10_ALIAS_OUT(Z)                                                                                \
    io.out[0] = (Z).real(); io.out[1] = (Z).imag();                                                     \
    for (int i = 0; i < 4; ++i) { io.post[i] = io.in[i]; io.stor[i] = io.in[i]; }

    // reference: the binary operator on two separate copies of the operand
    template <class T, class Op, bool B1, bool B2>
    void v_alias_base(IO<T>& io)
    {
        typename XK<T, KV, B1>::type x(io.in[0], io.in[1]);
        typename XK<T, KV, B2>::type y(io.in[0], io.in[1]);
        auto z = Op::bin(x, y);
        C10_ALIAS_OUT(z)
    }
    // z OP= z, the same object on both sides (value closure, or reference closure over local storage)
    template <class T, class Op, int K1, bool B1>
    void v_alias_self(IO<T>& io)
    {
        T sa = io.in[0], sb = io.in[1];
        typename XK<T, K1, B1>::type x(sa, sb);
        auto& r = Op::cmpd(x, x);
        if (std::addressof(r) != std::addressof(x)) io.flags |= F_RETREF;
        C10_ALIAS_OUT(x)
        if (K1 == KR) { io.stor[0] = sa; io.stor[1] = sb; } else { io.stor[0] = x.real(); io.stor[1] = x.imag(); }
    }
    // z OP= r, r a (const) reference closure over z's own parts
    template <class T, class Op, bool B1, int K2, bool B2>
    void v_alias_rhsref(IO<T>& io)
    {
        typename XK<T, KV, B1>::type z(io.in[0], io.in[1]);
        typename XK<T, K2, B2>::type r(z.real(), z.imag());
        auto& ret = Op::cmpd(z, r);
        if (std::addressof(ret) != std::addressof(z)) io.flags |= F_RETREF;
        C10_ALIAS_OUT(z)
        io.stor[0] = r.real(); io.stor[1] = r.imag();     // the closure still sees z's parts
    }
    // r OP= z, r a reference closure over the parts of the value z
    template <class T, class Op, bool B1, bool B2>
    void v_alias_lhsref(IO<T>& io)
    {
        typename XK<T, KV, B2>::type z(io.in[0], io.in[1]);
        typename XK<T, KR, B1>::type r(z.real(), z.imag());
        auto& ret = Op::cmpd(r, z);
        if (std::addressof(ret) != std::addressof(r)) io.flags |= F_RETREF;
        C10_ALIAS_OUT(z)
        io.stor[0] = r.real(); io.stor[1] = r.imag();
    }
    // r OP= r2, two distinct closures over the same storage
    template <class T, class Op, bool B1, int K2, bool B2>
    void v_alias_ref2(IO<T>& io)
    {
        T sa = io.in[0], sb = io.in[1];
        typename XK<T, KR, B1>::type r(sa, sb);
        typename XK<T, K2, B2>::type r2(sa, sb);
        auto& ret = Op::cmpd(r, r2);
        if (std::addressof(ret) != std::addressof(r)) io.flags |= F_RETREF;
        C10_ALIAS_OUT(r)
        io.stor[0] = sa; io.stor[1] = sb;
    }
    // reference for the scalar forms: x OP s with s a copy of the real (PART = 0) / imaginary (PART = 1) part
    template <class T, class Op, bool B1, int PART>
    void v_alias_sbase(IO<T>& io)
    {
        typename XK<T, KV, B1>::type x(io.in[0], io.in[1]);
        T s = io.in[PART];
        auto z = Op::bin(x, s);
        C10_ALIAS_OUT(z)
    }
    // z OP= z.real() / z OP= z.imag(): the scalar is a reference to a part of the left operand
    template <class T, class Op, int K1, bool B1, int PART>
    void v_alias_spart(IO<T>& io)
    {
        T sa = io.in[0], sb = io.in[1];
        typename XK<T, K1, B1>::type x(sa, sb);
        auto& r = PART == 0 ? Op::cmpd(x, x.real()) : Op::cmpd(x, x.imag());
        if (std::addressof(r) != std::addressof(x)) io.flags |= F_RETREF;
        C10_ALIAS_OUT(x)
        if (K1 == KR) { io.stor[0] = sa; io.stor[1] = sb; } else { io.stor[0] = x.real(); io.stor[1] = x.imag(); }
    }

    // ---- mixed value types: == and != between xcomplex over different arithmetic types ----------------
    typedef float ty_F;
    typedef double ty_D;
    typedef int ty_I;
    typedef long double ty_L;
    template <class T1, int K1, bool B1, class T2, int K2, bool B2, bool NE>
    bool m_cmp(const long double in[4])
    {
        T1 sa = static_cast<T1>(in[0]), sb = static_cast<T1>(in[1]);
        T2 sc = static_cast<T2>(in[2]), sd = static_cast<T2>(in[3]);
        typename XK<T1, K1, B1>::type x(sa, sb);
        typename XK<T2, K2, B2>::type y(sc, sd);
        return NE ? (x != y) : (x == y);
    }
    // binary arithmetic between different value types (ill-formed on the pinned tree; explored if it ever compiles)
    template <class T1, class T2, class Op>
    void m_bin(const long double in[4], long double out[2])
    {
        typename XK<T1, KV, false>::type x(static_cast<T1>(in[0]), static_cast<T1>(in[1]));
        typename XK<T2, KV, false>::type y(static_cast<T2>(in[2]), static_cast<T2>(in[3]));
        auto z = Op::bin(x, y);
        out[0] = z.real(); out[1] = z.imag();
    }

    // ---- mixed value types: compound assignment x OP= y between xcomplex objects of DIFFERENT value types (part MIXC) ----
    // The operands travel as exact long double values (every operand type embeds exactly in x87 long double); the result
    // is read back from x and widened exactly.  What can be compared in the operands' own types is compared here.
    enum : unsigned
    {
        F_M_RHS = 2u,       // the right operand (object or storage) was modified
        F_M_LHS_STOR = 4u,  // value-closure lhs: the storage it was copied from was written; reference lhs: storage != result
        F_M_RVAL = 8u       // conversion from an rvalue std::complex<U> differs from the conversion from an lvalue
    };
    struct MIO
    {
        long double in[4];
        long double out[2];
        unsigned flags;
    };
    template <class T> inline bool same_rep(T x, T y) { return std::memcmp(&x, &y, sizeof(T)) == 0; }
    inline bool same_rep(long double x, long double y) { return std::memcmp(&x, &y, 10) == 0; }   // 6 padding bytes

    template <class T1, int K1, bool B1, class T2, int K2, bool B2, class Op>
    void m_cmpd(MIO& io)
    {
        T1 sa = static_cast<T1>(io.in[0]), sb = static_cast<T1>(io.in[1]);
        T2 sc = static_cast<T2>(io.in[2]), sd = static_cast<T2>(io.in[3]);
        const T1 a0 = sa, b0 = sb;
        const T2 c0 = sc, d0 = sd;
        typename XK<T1, K1, B1>::type x(sa, sb);
        typename XK<T2, K2, B2>::type y(sc, sd);
        auto& r = Op::cmpd(x, y);
        if (std::addressof(r) != std::addressof(x)) io.flags |= F_RETREF;
        const T1 o0 = x.real(), o1 = x.imag();
        io.out[0] = o0; io.out[1] = o1;
        if (!same_rep(T2(y.real()), c0) || !same_rep(T2(y.imag()), d0) || !same_rep(sc, c0) || !same_rep(sd, d0)) io.flags |= F_M_RHS;
        if (K1 == KR ? (!same_rep(sa, o0) || !same_rep(sb, o1)) : (!same_rep(sa, a0) || !same_rep(sb, b0))) io.flags |= F_M_LHS_STOR;
    }
    // the right operand arrives as a std::complex<T2>, is converted to an xcomplex over T1 (converting constructor, which
    // rounds each part to T1 once) and then combined: x OP= xcomplex<T1>(std::complex<T2>)
    template <class T1, bool B, class T2, class Op>
    void m_cstd(MIO& io)
    {
        using X = typename XK<T1, KV, B>::type;
        T1 sa = static_cast<T1>(io.in[0]), sb = static_cast<T1>(io.in[1]);
        const T1 a0 = sa, b0 = sb;
        X x(sa, sb);
        std::complex<T2> s(static_cast<T2>(io.in[2]), static_cast<T2>(io.in[3]));
        X y(s);                                                                                     // lvalue
        X y2(std::complex<T2>(static_cast<T2>(io.in[2]), static_cast<T2>(io.in[3])));               // rvalue
        if (!same_rep(T1(y.real()), T1(y2.real())) || !same_rep(T1(y.imag()), T1(y2.imag()))) io.flags |= F_M_RVAL;
        auto& r = Op::cmpd(x, y);
        if (std::addressof(r) != std::addressof(x)) io.flags |= F_RETREF;
        io.out[0] = x.real(); io.out[1] = x.imag();
        if (!same_rep(T2(s.real()), static_cast<T2>(io.in[2])) || !same_rep(T2(s.imag()), static_cast<T2>(io.in[3]))) io.flags |= F_M_RHS;
        if (!same_rep(sa, a0) || !same_rep(sb, b0)) io.flags |= F_M_LHS_STOR;
    }
    // x OP= std::complex<T2> directly (no overload accepts it on the pinned tree; explored if it ever compiles)
    template <class T1, int K1, bool B1, class T2, class Op>
    void m_cs(MIO& io)
    {
        T1 sa = static_cast<T1>(io.in[0]), sb = static_cast<T1>(io.in[1]);
        const T1 a0 = sa, b0 = sb;
        typename XK<T1, K1, B1>::type x(sa, sb);
        std::complex<T2> s(static_cast<T2>(io.in[2]), static_cast<T2>(io.in[3]));
        auto& r = Op::cmpd(x, s);
        if (std::addressof(r) != std::addressof(x)) io.flags |= F_RETREF;
        const T1 o0 = x.real(), o1 = x.imag();
        io.out[0] = o0; io.out[1] = o1;
        if (!same_rep(T2(s.real()), static_cast<T2>(io.in[2])) || !same_rep(T2(s.imag()), static_cast<T2>(io.in[3]))) io.flags |= F_M_RHS;
        if (K1 == KR ? (!same_rep(sa, o0) || !same_rep(sb, o1)) : (!same_rep(sa, a0) || !same_rep(sb, b0))) io.flags |= F_M_LHS_STOR;
    }

    // operands arrive as std::complex, are converted to xcomplex, combined, and converted back
    template <class T, class Op, bool B>
    void v_std(IO<T>& io)
    {
        using X = typename XK<T, KV, B>::type;
        std::complex<T> s1(io.in[0], io.in[1]);
        X x = s1;                                        // converting constructor, lvalue
        X y(std::complex<T>(io.in[2], io.in[3]));        // converting constructor, rvalue
        auto z = Op::bin(x, y);
        std::complex<T> r = z;                           // conversion operator
        io.out[0] = r.real(); io.out[1] = r.imag();
        io.post[0] = x.real(); io.post[1] = x.imag(); io.post[2] = y.real(); io.post[3] = y.imag();
        io.stor[0] = s1.real(); io.stor[1] = s1.imag(); io.stor[2] = io.in[2]; io.stor[3] = io.in[3];
    }

    // x = y  (xcomplex from xcomplex)
    template <class T, int K1, bool B1, int K2, bool B2>
    void v_asg(IO<T>& io)
    {
        C10_OPERANDS(K1, B1, K2, B2)
        auto& r = (x = y);
        if (std::addressof(r) != std::addressof(x)) io.flags |= F_RETREF;
        io.out[0] = x.real(); io.out[1] = x.imag();
        C10_POST2()
    }

    // x = s  (scalar): real part s, imaginary part zero
    template <class T, int K1, bool B1, class S = T>
    void v_asgs(IO<T>& io)
    {
        C10_OPERAND1(K1, B1)
        S s = static_cast<S>(io.sx);
        auto& r = (x = s);
        if (std::addressof(r) != std::addressof(x)) io.flags |= F_RETREF;
        io.out[0] = x.real(); io.out[1] = x.imag();
        C10_POST1()
    }

    template <class T, int K1, bool B1, int K2, bool B2>
    void v_eq(IO<T>& io)
    {
        C10_OPERANDS(K1, B1, K2, B2)
        io.out[0] = (x == y) ? T(1) : T(0); io.out[1] = T(0);
        C10_POST2()
    }
    template <class T, int K1, bool B1, int K2, bool B2>
    void v_ne(IO<T>& io)
    {
        C10_OPERANDS(K1, B1, K2, B2)
        io.out[0] = (x != y) ? T(1) : T(0); io.out[1] = T(0);
        C10_POST2()
    }

    // ---- one-operand functions; F::app on the xcomplex, F::ref on std::complex (harness side) ------
    template <class T> inline void put(IO<T>& io, const std::complex<T>& z) { io.out[0] = z.real(); io.out[1] = z.imag(); }
    template <class T, class CTR, class CTI, bool B> inline void put(IO<T>& io, const xtl::xcomplex<CTR, CTI, B>& z) { io.out[0] = z.real(); io.out[1] = z.imag(); }
    template <class T> inline void put(IO<T>& io, const T& r) { io.out[0] = r; io.out[1] = T(0); }

#define C10_FN1(NAME, APP, REF)                                                                  \
    struct f_##NAME                                                                              \
    {                                                                                            \
        template <class X> static auto app(const X& x) { return APP; }                           \
        template <class T> static auto ref(const std::complex<T>& s) { return REF; }             \
    };
    C10_FN1(neg, -x, -s)
    C10_FN1(pos, +x, +s)
    C10_FN1(conj, xtl::conj(x), std::conj(s))
    C10_FN1(proj, xtl::proj(x), std::proj(s))
    C10_FN1(abs, xtl::abs(x), std::abs(s))
    C10_FN1(arg, xtl::arg(x), std::arg(s))
    C10_FN1(norm, xtl::norm(x), std::norm(s))
    C10_FN1(exp, xtl::exp(x), std::exp(s))
    C10_FN1(log, xtl::log(x), std::log(s))
    C10_FN1(log10, xtl::log10(x), std::log10(s))
    C10_FN1(sqrt, xtl::sqrt(x), std::sqrt(s))
    C10_FN1(sin, xtl::sin(x), std::sin(s))
    C10_FN1(cos, xtl::cos(x), std::cos(s))
    C10_FN1(tan, xtl::tan(x), std::tan(s))
    C10_FN1(asin, xtl::asin(x), std::asin(s))
    C10_FN1(acos, xtl::acos(x), std::acos(s))
    C10_FN1(atan, xtl::atan(x), std::atan(s))
    C10_FN1(sinh, xtl::sinh(x), std::sinh(s))
    C10_FN1(cosh, xtl::cosh(x), std::cosh(s))
    C10_FN1(tanh, xtl::tanh(x), std::tanh(s))
    C10_FN1(asinh, xtl::asinh(x), std::asinh(s))
    C10_FN1(acosh, xtl::acosh(x), std::acosh(s))
    C10_FN1(atanh, xtl::atanh(x), std::atanh(s))
#undef C10_FN1

    template <class T, class F, int K1, bool B1>
    void v_fn1(IO<T>& io)
    {
        C10_OPERAND1(K1, B1)
        put<T>(io, F::app(x));
        C10_POST1()
    }
    template <class T, class F>
    void r_fn1(IO<T>& io)
    {
        put<T>(io, F::ref(std::complex<T>(io.in[0], io.in[1])));
    }

    // pow: complex^complex, complex^scalar, scalar^complex
    template <class T, int K1, bool B1, int K2, bool B2>
    void v_powcc(IO<T>& io)
    {
        C10_OPERANDS(K1, B1, K2, B2)
        put<T>(io, xtl::pow(x, y));
        C10_POST2()
    }
    template <class T> void r_powcc(IO<T>& io) { put<T>(io, std::pow(std::complex<T>(io.in[0], io.in[1]), std::complex<T>(io.in[2], io.in[3]))); }
    template <class T, int K1, bool B1>
    void v_powcs(IO<T>& io)
    {
        C10_OPERAND1(K1, B1)
        put<T>(io, xtl::pow(x, sc));
        C10_POST1()
    }
    template <class T> void r_powcs(IO<T>& io) { put<T>(io, std::pow(std::complex<T>(io.in[0], io.in[1]), io.in[2])); }
    template <class T, int K1, bool B1>
    void v_powsc(IO<T>& io)
    {
        C10_OPERAND1(K1, B1)
        put<T>(io, xtl::pow(sc, x));
        C10_POST1()
    }
    template <class T> void r_powsc(IO<T>& io) { put<T>(io, std::pow(io.in[2], std::complex<T>(io.in[0], io.in[1]))); }

    // ---- accessor battery: real()/imag() members and free functions, aliasing, conversions ---------
    // sub-check numbers (bit 8+n of flags); names in harness.cpp acc_names[]
    template <int K> struct kind_tag {};

    template <class T, class X>
    inline void acc_write(IO<T>& io, X& x, T& sa, T& sb, kind_tag<KC>) { (void)io; (void)x; (void)sa; (void)sb; }
    template <class T, class X, int K>
    inline void acc_write(IO<T>& io, X& x, T& sa, T& sb, kind_tag<K>)
    {
        // write through the lvalue accessors: member real(), free imag()
        const T c = io.in[2], d = io.in[3];
        x.real() = c;
        if (!same_bits<T>(x.real(), c) || !same_bits<T>(x.imag(), io.in[1])) io.flags |= F_ACC_BASE << 8;
        xtl::imag(x) = d;
        if (!same_bits<T>(x.real(), c) || !same_bits<T>(x.imag(), d)) io.flags |= F_ACC_BASE << 9;
        if (K == KR && (!same_bits<T>(sa, c) || !same_bits<T>(sb, d))) io.flags |= F_ACC_BASE << 10;   // referents follow
        if (K == KV && (!same_bits<T>(sa, io.in[0]) || !same_bits<T>(sb, io.in[1]))) io.flags |= F_ACC_BASE << 10;   // a value closure owns a copy
    }

    template <class T, int K1, bool B1>
    void v_acc(IO<T>& io)
    {
        C10_OPERAND1(K1, B1)
        using X = typename XK<T, K1, B1>::type;
        const T a = io.in[0], b = io.in[1];
        const X& cx = x;
        if (!same_bits<T>(x.real(), a) || !same_bits<T>(x.imag(), b)) io.flags |= F_ACC_BASE << 0;
        if (!same_bits<T>(cx.real(), a) || !same_bits<T>(cx.imag(), b)) io.flags |= F_ACC_BASE << 1;
        {
            X t1(sa, sb), t2(sa, sb);
            T r = std::move(t1).real(), i = std::move(t2).imag();
            if (!same_bits<T>(r, a) || !same_bits<T>(i, b)) io.flags |= F_ACC_BASE << 2;
        }
        if (!same_bits<T>(xtl::real(x), a) || !same_bits<T>(xtl::imag(x), b)) io.flags |= F_ACC_BASE << 3;
        if (!same_bits<T>(xtl::real(cx), a) || !same_bits<T>(xtl::imag(cx), b)) io.flags |= F_ACC_BASE << 4;
        {
            X t1(sa, sb), t2(sa, sb);
            T r = xtl::real(std::move(t1)), i = xtl::imag(std::move(t2));
            if (!same_bits<T>(r, a) || !same_bits<T>(i, b)) io.flags |= F_ACC_BASE << 5;
        }
        // reference closures alias their referents, value closures do not
        {
            const T* pr = &cx.real();
            const T* pi = &cx.imag();
            bool alias = (pr == &sa) && (pi == &sb);
            if ((K1 == KV) == alias) io.flags |= F_ACC_BASE << 6;
            if (&xtl::real(cx) != pr || &xtl::imag(cx) != pi) io.flags |= F_ACC_BASE << 7;
        }
        // conversion to std::complex and explicit conversion to the value closure of either mode
        {
            std::complex<T> s = cx;
            if (!same_bits<T>(s.real(), a) || !same_bits<T>(s.imag(), b)) io.flags |= F_ACC_BASE << 11;
            typename XK<T, KV, B1>::type v1(cx);
            typename XK<T, KV, !B1>::type v2(cx);
            if (!same_bits<T>(v1.real(), a) || !same_bits<T>(v1.imag(), b) || !same_bits<T>(v2.real(), a) || !same_bits<T>(v2.imag(), b))
                io.flags |= F_ACC_BASE << 12;
        }
        acc_write<T>(io, x, sa, sb, kind_tag<K1>());
        io.out[0] = x.real(); io.out[1] = x.imag();
        C10_POST1()
    }

    // xtl::real / xtl::imag on std::complex (forward_offset) and on plain scalars
    template <class T>
    void v_accstd(IO<T>& io)
    {
        const T a = io.in[0], b = io.in[1], c = io.in[2], d = io.in[3];
        std::complex<T> z(a, b);
        const std::complex<T>& cz = z;
        T* parts = reinterpret_cast<T*>(&z);   // [complex.numbers]/4: array-of-two layout
        if (&xtl::real(z) != parts || &xtl::imag(z) != parts + 1) io.flags |= F_ACC_BASE << 0;
        if (&xtl::real(cz) != parts || &xtl::imag(cz) != parts + 1) io.flags |= F_ACC_BASE << 1;
        if (!same_bits<T>(xtl::real(cz), a) || !same_bits<T>(xtl::imag(cz), b)) io.flags |= F_ACC_BASE << 2;
        {
            T r = xtl::real(std::complex<T>(a, b)), i = xtl::imag(std::complex<T>(a, b));
            if (!same_bits<T>(r, a) || !same_bits<T>(i, b)) io.flags |= F_ACC_BASE << 3;
        }
        xtl::real(z) = c;
        if (!same_bits<T>(z.real(), c) || !same_bits<T>(z.imag(), b)) io.flags |= F_ACC_BASE << 4;
        xtl::imag(z) = d;
        if (!same_bits<T>(z.real(), c) || !same_bits<T>(z.imag(), d)) io.flags |= F_ACC_BASE << 5;
        {
            T s = a;
            const T cs = a;
            if (&xtl::real(s) != &s || !same_bits<T>(xtl::real(cs), a) || !same_bits<T>(xtl::real(T(a)), a)) io.flags |= F_ACC_BASE << 6;
            T z0 = xtl::imag(s), z1 = xtl::imag(cs), z2 = xtl::imag(T(a));
            if (!same_bits<T>(z0, T(0)) || !same_bits<T>(z1, T(0)) || !same_bits<T>(z2, T(0))) io.flags |= F_ACC_BASE << 7;
        }
        io.out[0] = z.real(); io.out[1] = z.imag();
        for (int i = 0; i < 4; ++i) { io.post[i] = io.in[i]; io.stor[i] = io.in[i]; }
    }
}

#endif
