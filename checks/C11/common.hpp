// C11: helpers shared by the BFS harness (harness.cpp) and the scenario enumerations (extra.cpp): element types of the models,
// the length / element / iteration queries over every access path of the optional and complex containers.
#ifndef VERIF_C11_COMMON_HPP
#define VERIF_C11_COMMON_HPP

#include <xtl/xoptional_sequence.hpp>
#include <xtl/xcomplex_sequence.hpp>

#include "explorer.hpp"

#include <stdexcept>
#include <string>
#include <vector>

using vf::Errs;
using vf::str;

typedef std::pair<int, bool> OE;       // (value, flag)
typedef std::pair<double, double> CE;  // (real, imag)

static xtl::xoptional<int> mkopt(int v, bool f) { return xtl::xoptional<int>(int(v), bool(f)); }

static std::string show(const std::vector<OE>& m)
{
    std::string s = "[";
    for (auto& e : m) s += str(e.first) + (e.second ? "" : "?") + " ";
    return s + "]";
}
static std::string show(const std::vector<CE>& m)
{
    std::string s = "[";
    for (auto& e : m) s += str(e.first) + "+" + str(e.second) + "i ";
    return s + "]";
}

// ---------------------------------------------------------------------------------------------------------------------
// optional containers
// ---------------------------------------------------------------------------------------------------------------------
template <class C>
bool opt_lengths(const C& c, std::size_t n, Errs& e)
{
    if (c.size() != n || c.value().size() != n || c.has_value().size() != n)
    {
        e.add("length-mismatch", "size()=" + str(c.size()) + " value().size()=" + str(c.value().size()) + " has_value().size()=" + str(c.has_value().size()) + " model size " + str(n));
        return false;
    }
    if (c.empty() != (n == 0)) e.add("empty", "empty() wrong");
    return true;
}

template <class C>
void opt_elements(const C& cc, const std::vector<OE>& m, Errs& e, bool iterators)
{
    C& c = const_cast<C&>(cc);
    const std::size_t n = m.size();
    for (std::size_t i = 0; i < n; ++i)
    {
        auto bad = [&](const char* path, int v, bool f) {
            e.add("element", std::string(path) + " element " + str(i) + " reads (" + str(v) + "," + str(f) + "), model (" + str(m[i].first) + "," + str(m[i].second) + ") in " + show(m));
        };
        if (cc.value()[i] != m[i].first || bool(cc.has_value()[i]) != m[i].second) { bad("storages", cc.value()[i], bool(cc.has_value()[i])); return; }
        { auto r = cc[i]; if (r.value() != m[i].first || bool(r.has_value()) != m[i].second) { bad("const operator[]", r.value(), bool(r.has_value())); return; } }
        { auto r = c[i]; if (r.value() != m[i].first || bool(r.has_value()) != m[i].second) { bad("operator[]", r.value(), bool(r.has_value())); return; } }
        { auto r = cc.at(i); if (r.value() != m[i].first || bool(r.has_value()) != m[i].second) { bad("const at()", r.value(), bool(r.has_value())); return; } }
        { auto r = c.at(i); if (r.value() != m[i].first || bool(r.has_value()) != m[i].second) { bad("at()", r.value(), bool(r.has_value())); return; } }
    }
    if (n > 0)
    {
        auto f = cc.front(); auto b = cc.back(); auto f2 = c.front(); auto b2 = c.back();
        if (f.value() != m.front().first || bool(f.has_value()) != m.front().second || f2.value() != m.front().first || bool(f2.has_value()) != m.front().second) e.add("front", "front() does not read element 0 of " + show(m));
        if (b.value() != m.back().first || bool(b.has_value()) != m.back().second || b2.value() != m.back().first || bool(b2.has_value()) != m.back().second) e.add("back", "back() does not read the last element of " + show(m));
    }
    for (std::size_t i = n; i <= n + 9; ++i)
    {
        bool t1 = false, t2 = false;
        try { (void)cc.at(i); } catch (const std::out_of_range&) { t1 = true; }
        try { (void)c.at(i); } catch (const std::out_of_range&) { t2 = true; }
        if (!t1 || !t2) { e.add("at-no-throw", "at(" + str(i) + ") did not throw std::out_of_range with size " + str(n)); break; }
    }
    (void)iterators;
}

template <class C>
void opt_iterate(const C& cc, const std::vector<OE>& m, Errs& e)
{
    C& c = const_cast<C&>(cc);
    std::vector<OE> f, cf, mf, r, cr, mr;
    const std::size_t lim = m.size() + 3;   // never walk further than that: a broken end() must not run away
    std::size_t k = 0;
    for (auto it = cc.begin(); it != cc.end() && k < lim; ++it, ++k) f.push_back(OE((*it).value(), bool((*it).has_value())));
    k = 0; for (auto it = cc.cbegin(); it != cc.cend() && k < lim; ++it, ++k) cf.push_back(OE((*it).value(), bool((*it).has_value())));
    k = 0; for (auto it = c.begin(); it != c.end() && k < lim; ++it, ++k) mf.push_back(OE(it->value(), bool(it->has_value())));
    k = 0; for (auto it = cc.rbegin(); it != cc.rend() && k < lim; ++it, ++k) r.push_back(OE((*it).value(), bool((*it).has_value())));
    k = 0; for (auto it = cc.crbegin(); it != cc.crend() && k < lim; ++it, ++k) cr.push_back(OE((*it).value(), bool((*it).has_value())));
    k = 0; for (auto it = c.rbegin(); it != c.rend() && k < lim; ++it, ++k) mr.push_back(OE((*it).value(), bool((*it).has_value())));
    std::vector<OE> rm(m.rbegin(), m.rend());
    if (f != m || cf != m || mf != m) e.add("iteration", "forward iteration reads " + show(f) + " model " + show(m));
    if (r != rm || cr != rm || mr != rm) e.add("reverse-iteration", "reverse iteration reads " + show(r) + " model reversed " + show(rm));
    if (std::size_t(cc.end() - cc.begin()) != m.size()) e.add("iteration", "end()-begin() != size()");
}

// Whole-element assignment proxy = xcomplex<double>(re, im) is ill-formed on the pinned tree (the converting operator= reads
// private members of another instantiation). check.py probes it: with CX_PROXY_ASSIGN the real assignment is used, otherwise
// both parts are written through the proxy's real()/imag() references.
#if CX_PROXY_ASSIGN
#define CXSET(proxy, re, im) do { auto&& p_ = (proxy); p_ = xtl::xcomplex<double>(double(re), double(im)); } while (0)
#else
#define CXSET(proxy, re, im) do { auto&& p_ = (proxy); p_.real() = double(re); p_.imag() = double(im); } while (0)
#endif
template <class C>
bool cx_lengths(const C& c, std::size_t n, Errs& e)
{
    if (c.size() != n || c.real().size() != n || c.imag().size() != n)
    {
        e.add("length-mismatch", "size()=" + str(c.size()) + " real().size()=" + str(c.real().size()) + " imag().size()=" + str(c.imag().size()) + " model size " + str(n));
        return false;
    }
    return true;
}
template <class C>
void cx_elements(const C& cc, const std::vector<CE>& m, Errs& e)
{
    C& c = const_cast<C&>(cc);
    for (std::size_t i = 0; i < m.size(); ++i)
    {
        bool ok = cc.real()[i] == m[i].first && cc.imag()[i] == m[i].second;
        { auto r = cc[i]; ok = ok && r.real() == m[i].first && r.imag() == m[i].second; }
        { auto r = c[i]; ok = ok && r.real() == m[i].first && r.imag() == m[i].second; }
        { auto r = cc.at(i); ok = ok && r.real() == m[i].first && r.imag() == m[i].second; }
        { auto r = c.at(i); ok = ok && r.real() == m[i].first && r.imag() == m[i].second; }
        if (!ok) { e.add("element", "element " + str(i) + " does not read (" + str(m[i].first) + "," + str(m[i].second) + ") through every access path; model " + show(m)); return; }
    }
    if (!m.empty())
    {
        auto f = cc.front(); auto b = cc.back();
        if (f.real() != m.front().first || f.imag() != m.front().second) e.add("front", "front() wrong");
        if (b.real() != m.back().first || b.imag() != m.back().second) e.add("back", "back() wrong");
    }
    for (std::size_t i = m.size(); i <= m.size() + 3; ++i)
    {
        bool t = false;
        try { (void)cc.at(i); } catch (const std::out_of_range&) { t = true; }
        if (!t) { e.add("at-no-throw", "at(" + str(i) + ") did not throw with size " + str(m.size())); break; }
    }
}

#endif
